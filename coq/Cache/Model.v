(* C08 — Configuration queries always reflect the latest updates.

   Executable model of the resolved-configuration cache of FlowIRConcrete
   (python/experiment/model/frontends/flowir.py):

     FlowIRCache (labels, get = deep copy, set, clear, invalidate_reg_expression)   -> cache / apply_action
     get_component_configuration (label, cache hit, fill after a successful resolve) -> query
     invalidate_cache_for_component + get_component(return_copy=False)               -> AInval / comp_op
     set_component_variable, delete_component_variable,
     set_component_option / remove_component_option (= setOptionForNode /
     removeOptionForNode of conf.py and graph.py), update_component,
     delete_component, add_component                                                -> mutate (component operations)
     set_global_variable, set_stage_variable, set_platform_global_variable,
     set_platform_stage_variable, get_platform_global_variables(return_copy=False),
     get_platform_stage_variables(return_copy=False) followed by one write          -> mutate (variable operations)

   The document and the from-scratch resolution are those of C04: V.Conf.Model.doc and V.Conf.Model.resolve
   (imported, not copied).  [qresolve] adds the two checks get_component_configuration makes before resolving
   (unknown component, unknown platform).

   The model is parametrised by the label matcher [mt s n k] = "the invalidation pattern built for component
   (s, n) matches the cache label k".  [lit_matches] is the matcher of the repaired code
   ((?s)component:.*:stage<s>:<re.escape(n)> used with re.match: a prefix match, so `foo` also invalidates
   `foo1`); [pinned_matches] is the matcher of the pinned code for names made of literal characters and the
   operator `+` (the name was used as a regular expression).

   Scope of faithfulness (what the generators of harness/c08.py produce and the theorems assume through [op_ok]):
   variable collections and components are dictionaries; an operation never changes the identity of a component
   (an option route does not start with `name` or `stage`, a replacement definition carries the identity it
   replaces); the document is the one FlowIRConcrete holds after its constructor normalised it (every known
   platform has an entry in `variables`).

   Aliases and live references.  (a) Values handed TO the mutators: the repaired mutators store a deep copy, so an
   object the caller keeps and changes later is not part of the description (MutateArg: no-op); the pinned mutators
   stored the object itself — [pinned_op] reads the caller's change as a write through a live reference.
   (b) Values handed OUT: every accessor returns a deep copy (MutateResult: no-op; the harness sweeps
   get_component, get_components, get_*_variables, get_*_blueprint, raw, get_component_configuration in its other
   modes ...) except the return_copy=False variants and add_component(insert_copy=False), which hand out / keep
   "the actual dictionary".  get_component(False) and get_platform_*_variables(False) invalidate when they hand
   out (the mutators built on them are the operations above); get_components(False) never invalidates.  A write
   through such a reference at any LATER time is LiveWrite / LiveVarWrite (the description changes, the cache does
   not); Invalidate is invalidate_cache_for_component.  [ok_hist] is the discipline under which they are safe.
   (a') Values handed to the mutators that ARE such live objects, or share sub-objects with them (argument
   identity): the mutators copy the argument before they touch the description, so the call means the argument's
   value at the time of the call ([live_value]); handing back the live definition to update_component leaves the
   description alone and drops the labels of the component (Proofs.hand_back).
   (c) The other read-only calls (ReadOnly): get_component_configuration in its not fully resolved modes, instance,
   replicate, validate, copy, the blueprint / environment accessors ...  They build their answers by layering
   (FlowIR.override_object, in place) and resolving (FlowIR.fill_in, in place) COPIES of the blueprints, variables
   and components, and they neither read nor fill the cache: no-ops on the state.

   The ACTIVE platform (round 6).  A FlowIRConcrete has an active platform (self._platform: the constructor's argument
   or 'default'; configure_platform(p) sets it to `p or 'default'` and touches nothing else - scripts/epatch.py loops
   over the platforms of a package this way).  Every call that takes a platform reads `platform = platform or
   self._platform`: a call whose platform argument is omitted (None, or the empty text) is THE call for the platform
   that is active at that moment - in particular the cache label of an implicit query names the active platform.
   [astate] = active platform + state; [aop] = a call with its platform written out (E), the same call with the
   platform left to the object (Im), configure_platform (ConfigurePlatform); [astep] / [arun]; [elab] writes a history
   with implicit calls as the history of explicit calls it means (Proofs.arun_elab), which carries every theorem about
   explicit histories over. *)
From Coq Require Import String Ascii List Bool ZArith Arith Lia.
Import ListNotations.
Require Import V.Lib.PyStr V.Lib.JTree V.Conf.Model.
Open Scope string_scope.
Open Scope list_scope.

(* ------------------------------------------------------------------ cache labels *)
(* 'component:%s:stage%s:%s' % (platform, comp_id[0], comp_id[1]) *)
Definition key (p : string) (s : Z) (n : string) : string :=
  "component:" ++ p ++ ":stage" ++ zrepr s ++ ":" ++ n.

Definition needle (s : Z) (n : string) : string := ":stage" ++ zrepr s ++ ":" ++ n.

(* re.compile(r'(?s)component:.*:stage%s:%s' % (s, re.escape(n))).match(k) is not None *)
Definition lit_matches (s : Z) (n : string) (k : string) : bool :=
  prefixb "component:" k && occurs (needle s n) (drop 10 k).

(* the pinned code: r'component:.*:stage%s:%s' % (s, n) — the name is a regular expression.  Fragment: names made
   of literal characters and the postfix operator `+`. *)
Fixpoint rx_toks (s : string) : list (ascii * bool) :=
  match s with
  | EmptyString => []
  | String c r => match r with
                  | String d r' => if Ascii.eqb d "+" then (c, true) :: rx_toks r' else (c, false) :: rx_toks r
                  | EmptyString => [(c, false)]
                  end
  end.

Fixpoint rx_prefix (pat : list (ascii * bool)) (s : string) : bool :=
  match pat with
  | [] => true
  | (c, false) :: r => match s with String a s' => Ascii.eqb a c && rx_prefix r s' | EmptyString => false end
  | (c, true) :: r =>
      (fix loop (s : string) : bool :=
         match s with
         | String a s' => Ascii.eqb a c && (rx_prefix r s' || loop s')
         | EmptyString => false
         end) s
  end.

Fixpoint lit_then (l : string) (k : string -> bool) (s : string) : bool :=
  match l with
  | EmptyString => k s
  | String a l' => match s with String b s' => Ascii.eqb a b && lit_then l' k s' | EmptyString => false end
  end.

Fixpoint any_suffix (f : string -> bool) (s : string) : bool :=
  f s || match s with String _ s' => any_suffix f s' | EmptyString => false end.

Definition pinned_matches (s : Z) (n : string) (k : string) : bool :=
  prefixb "component:" k &&
  any_suffix (lit_then (":stage" ++ zrepr s ++ ":") (rx_prefix (rx_toks n))) (drop 10 k).

(* ------------------------------------------------------------------ state, operations, observations *)
Definition cache := list (string * jv).

Record state := { s_doc : doc; s_cache : cache }.

Inductive op :=
  | SetCompVar (s : Z) (n : string) (var : string) (val : jv)   (* set_component_variable / set_component_option 'var' *)
  | DelCompVar (s : Z) (n : string) (var : string)              (* delete_component_variable / remove_component_option 'var' *)
  | SetOption (s : Z) (n : string) (route : list string) (val : jv)  (* set_component_option '#a.b.c' / setOptionForNode *)
  | DelOption (s : Z) (n : string) (route : list string)             (* remove_component_option '#a.b.c' / removeOptionForNode *)
  | SetGlobal (var : string) (val : jv)                         (* set_global_variable *)
  | SetStage (s : Z) (var : string) (val : jv)                  (* set_stage_variable *)
  | SetPlatGlobal (p : string) (var : string) (val : jv)        (* set_platform_global_variable *)
  | SetPlatStage (p : string) (s : Z) (var : string) (val : jv) (* set_platform_stage_variable *)
  | RefPlatGlobal (p : string) (var : string) (val : jv)        (* get_platform_global_variables(p, return_copy=False)[var] = val *)
  | RefPlatStage (p : string) (s : Z) (var : string) (val : jv) (* get_platform_stage_variables(s, p, return_copy=False)[var] = val *)
  | AddComp (desc : jv)                                         (* add_component *)
  | ReplaceComp (s : Z) (n : string) (new : jv)                 (* update_component *)
  | DelComp (s : Z) (n : string)                                (* delete_component *)
  | Query (p : string) (s : Z) (n : string)                     (* get_component_configuration(.., include_default=True, platform=p) *)
  | MutateResult                                                (* the caller changes, in place, the configuration it was handed last
                                                                   (or what any other copy-returning accessor handed it) *)
  (* --- caller-held aliases and live references (see "aliases" below) *)
  | MutateArg (s : Z) (n : string) (route : list string) (x : jv)
      (* the caller changes, in place, an object it handed EARLIER to set_component_variable / set_component_option /
         update_component (or to one of the variable setters) and still holds: it sets the entry `last route` of the
         dictionary which, had the mutator stored the caller's object itself, would now sit at `route` of component
         (s, n).  The repaired mutators store a private copy: nothing of the description is reachable from the
         caller's object (no-op).  The pinned mutators stored the object: see [pinned_op]. *)
  | LiveWrite (s : Z) (n : string) (route : list string) (x : jv)
      (* a write through a LIVE reference to component (s, n) that is not bracketed by the accessor that handed it
         out: get_components(return_copy=False) (never invalidates), a dictionary obtained earlier from
         get_component(.., return_copy=False), the description given to add_component(.., insert_copy=False):
         context = comp; for point in route[:-1]: context = context[point]; context[route[-1]] = x.
         The description changes, the cache is not touched. *)
  | LiveVarWrite (p : string) (var : string) (x : jv)
      (* ref[var] = x where ref was obtained earlier from get_platform_global_variables(p, return_copy=False)
         (the cache was cleared when the reference was handed out, not now) *)
  | Invalidate (s : Z) (n : string)                             (* invalidate_cache_for_component((s, n)) *)
  | ReadOnly (call : string).
      (* any OTHER read-only call of the interface ([call] names it; the harness enumerates them in
         Driver.read_only): get_component_configuration in a mode that is not the fully resolved one (raw=True,
         include_default=False, is_primitive=True or inject_missing_fields=False: need_fully_resolved_flowir is
         False, the cache is neither read nor filled) also through configurationForNode / getOptionForNode of
         conf.py and graph.py, get_component_variable_references, instance(platform, ...), replicate(platform),
         validate(), copy(), the get_*_blueprint accessors, get_environment(s), environments,
         get_stage_description, get_component_identifiers, get_placeholder_identifiers, ...  They layer copies of
         the description (FlowIR.override_object / fill_in work in place, on copies): neither the description nor
         the cache changes, whether the call returns or raises. *)

(* outcome of a query *)
Inductive qr :=
  | QOk (v : jv)
  | QErr (e : err)            (* an error of the resolution (C04 model) or FlowIRComponentUnknown *)
  | QExc (cls : string).      (* FlowIRPlatformUnknown *)

Inductive obs := ODone | OExc (cls : string) | ORes (r : qr).

(* what a mutator does to the cache *)
Inductive action := ANone | AClear | AInval (s : Z) (n : string).

(* ------------------------------------------------------------------ the document side of the mutators *)
Definition with_comps (d : doc) (l : list jv) : doc :=
  {| d_blueprint := d_blueprint d; d_variables := d_variables d; d_components := l |}.
Definition with_vars (d : doc) (v : jv) : doc :=
  {| d_blueprint := d_blueprint d; d_variables := v; d_components := d_components d |}.

(* self.platforms after the constructor: every discovered platform has an entry in `variables` *)
Definition known (d : doc) (p : string) : bool := has_key p (jdict_of (d_variables d)).

Fixpoint upd_comp (s : Z) (n : string) (c' : jv) (l : list jv) : list jv :=
  match l with
  | [] => []
  | c :: r => if is_comp s n c then c' :: r else c :: upd_comp s n c' r
  end.

Fixpoint del_comp (s : Z) (n : string) (l : list jv) : list jv :=
  match l with
  | [] => []
  | c :: r => if is_comp s n c then r else c :: del_comp s n r
  end.

(* an edit of one component dictionary: the new dictionary or the class of the exception raised *)
Definition edit := jv -> jv + string.

(* comp['variables'][var] = val *)
Definition ed_setvar (var : string) (val : jv) : edit := fun c =>
  match c with
  | JDict m => match lookup "variables" m with
               | None => inr "FlowIRInconsistency"
               | Some (JDict vm) => inl (JDict (set_key "variables" (JDict (set_key var val vm)) m))
               | Some _ => inr "TypeError"
               end
  | _ => inr "TypeError"
  end.

(* del comp['variables'][var] *)
Definition ed_delvar (var : string) : edit := fun c =>
  match c with
  | JDict m => match lookup "variables" m with
               | None => inr "FlowIRInconsistency"
               | Some (JDict vm) => if has_key var vm
                                    then inl (JDict (set_key "variables" (JDict (remove_key var vm)) m))
                                    else inr "FlowIRVariableUnknown"
               | Some _ => inr "TypeError"
               end
  | _ => inr "TypeError"
  end.

(* context = comp; for point in route[:-1]: context = context[point]; context[route[-1]] = x
   ('#'.split gives [""] for an empty route) *)
Fixpoint set_route (r : list string) (x : jv) (v : jv) : jv + string :=
  match v with
  | JDict m =>
      match r with
      | [] => inl (JDict (set_key "" x m))
      | k :: r' =>
          match r' with
          | [] => inl (JDict (set_key k x m))
          | _ :: _ => match lookup k m with
                      | Some w => match set_route r' x w with
                                  | inl w' => inl (JDict (set_key k w' m))
                                  | inr e => inr e
                                  end
                      | None => inr "KeyError"
                      end
          end
      end
  | _ => inr "TypeError"
  end.

(* ...; del context[route[-1]] *)
Fixpoint del_route (r : list string) (v : jv) : jv + string :=
  match v with
  | JDict m =>
      match r with
      | [] => if has_key "" m then inl (JDict (remove_key "" m)) else inr "KeyError"
      | k :: r' =>
          match r' with
          | [] => if has_key k m then inl (JDict (remove_key k m)) else inr "KeyError"
          | _ :: _ => match lookup k m with
                      | Some w => match del_route r' w with
                                  | inl w' => inl (JDict (set_key k w' m))
                                  | inr e => inr e
                                  end
                      | None => inr "KeyError"
                      end
          end
      end
  | _ => inr "TypeError"
  end.

(* get_component(comp_id, return_copy=False) [unknown component: raise, nothing else happens; otherwise the labels
   of the component are invalidated BEFORE the edit, which may still raise], then the edit *)
Definition comp_op (d : doc) (s : Z) (n : string) (e : edit) : doc * action * obs :=
  match find_comp d s n with
  | None => (d, ANone, OExc "FlowIRComponentUnknown")
  | Some c => match e c with
              | inl c' => (with_comps d (upd_comp s n c' (d_components d)), AInval s n, ODone)
              | inr cls => (d, AInval s n, OExc cls)
              end
  end.

Definition comp_id (c : jv) : option (Z * string) :=
  match get_path ["stage"] c, get_path ["name"] c with
  | Some (JInt z), Some (JStr n) => Some (z, n)
  | _, _ => None
  end.

(* add_component: inject_default_values_to_component(description, all_values=False) = override {'stage': 0} + isRepeat *)
Definition add_pre (desc : jv) : jv :=
  comp_pre (match get_path ["stage"] desc with
            | None | Some JNull => JDict (set_key "stage" (JInt 0) (jdict_of desc))
            | Some _ => desc
            end).

Definition add_op (d : doc) (desc : jv) : doc * action * obs :=
  let c := add_pre desc in
  match comp_id c with
  | None => (d, ANone, OExc "KeyError")
  | Some (s, n) => match find_comp d s n with
                   | Some _ => (d, ANone, OExc "FlowIRComponentExists")
                   | None => (with_comps d (d_components d ++ [c]), ANone, ODone)
                   end
  end.

Definition ensure_path (p : list string) (v : jv) : jv :=
  match get_path p v with Some _ => v | None => set_path p (JDict []) v end.

(* set_platform_global_variable (after the repair: the platform entry it creates also gets `stages`) *)
Definition set_plat_global (p var : string) (val : jv) (vs : jv) : jv :=
  ensure_path [p; "stages"] (set_path [p; "global"; var] val vs).

Definition mutate (d : doc) (o : op) : doc * action * obs :=
  match o with
  | SetCompVar s n var val => comp_op d s n (ed_setvar var val)
  | DelCompVar s n var => comp_op d s n (ed_delvar var)
  | SetOption s n r val => comp_op d s n (set_route r val)
  | DelOption s n r => comp_op d s n (del_route r)
  | ReplaceComp s n new => comp_op d s n (fun _ => inl new)
  | DelComp s n =>
      match find_comp d s n with
      | None => (d, ANone, OExc "FlowIRComponentUnknown")
      | Some _ => (with_comps d (del_comp s n (d_components d)), AInval s n, ODone)
      end
  | AddComp desc => add_op d desc
  | SetGlobal var val => (with_vars d (set_plat_global "default" var val (d_variables d)), AClear, ODone)
  | SetPlatGlobal p var val => (with_vars d (set_plat_global p var val (d_variables d)), AClear, ODone)
  | SetStage s var val =>
      (* self._flowir['variables']['default']['stages'][s][var] = val ; self._cache.clear() *)
      match get_path ["default"; "stages"; zrepr s] (d_variables d) with
      | Some (JDict _) => (with_vars d (set_path ["default"; "stages"; zrepr s; var] val (d_variables d)), AClear, ODone)
      | Some _ => (d, ANone, OExc "TypeError")
      | None => (d, ANone, OExc "KeyError")
      end
  | SetPlatStage p s var val =>
      (with_vars d (set_path [p; "stages"; zrepr s; var] val (d_variables d)), AClear, ODone)
  | RefPlatGlobal p var val =>
      if known d p then (with_vars d (set_path [p; "global"; var] val (d_variables d)), AClear, ODone)
      else (d, ANone, OExc "FlowIRPlatformUnknown")
  | RefPlatStage p s var val =>
      (* the cache is cleared first; an unknown stage gives a fresh dictionary: the write is lost *)
      match get_path [p] (d_variables d) with
      | None => (d, AClear, OExc "FlowIRPlatformUnknown")
      | Some _ =>
          match get_path [p; "stages"] (d_variables d) with
          | None => (d, AClear, OExc "FlowIRInconsistency")
          | Some _ =>
              match get_path [p; "stages"; zrepr s] (d_variables d) with
              | None => (d, AClear, ODone)
              | Some _ => (with_vars d (set_path [p; "stages"; zrepr s; var] val (d_variables d)), AClear, ODone)
              end
          end
      end
  | Query _ _ _ | MutateResult => (d, ANone, ODone)
  | MutateArg _ _ _ _ => (d, ANone, ODone)
  | ReadOnly _ => (d, ANone, ODone)
  | LiveWrite s n r x => let '(d', _, ob) := comp_op d s n (set_route r x) in (d', ANone, ob)
  | LiveVarWrite p var x =>
      if known d p then (with_vars d (set_path [p; "global"; var] x (d_variables d)), ANone, ODone)
      else (d, ANone, OExc "FlowIRPlatformUnknown")
  | Invalidate s n => (d, AInval s n, ODone)
  end.

(* ------------------------------------------------------------------ aliases *)
(* The pinned mutators (before the repair "mutators store private copies") kept the caller's object inside the
   description: for that code a later in-place change of the object by the caller IS a write through a live
   reference.  A history of the pinned code = the history with every MutateArg read as LiveWrite. *)
Definition pinned_op (o : op) : op :=
  match o with
  | MutateArg s n r x => LiveWrite s n r x
  | _ => o
  end.

(* ------------------------------------------------------------------ from-scratch resolution *)
(* FlowIRConcrete(d, p, {}).get_component_configuration((s, n), include_default=True), minus the `override` field *)
Definition qresolve (dflt : jv) (d : doc) (p : string) (s : Z) (n : string) : qr :=
  match find_comp d s n with
  | None => QErr ENoComponent
  | Some _ => if known d p
              then match resolve dflt d [] p s n with Ok v => QOk v | Err e => QErr e end
              else QExc "FlowIRPlatformUnknown"
  end.

(* ------------------------------------------------------------------ the cached object *)
Section Matcher.
  Variable mt : Z -> string -> string -> bool.
  Variable dflt : jv.

  Definition apply_action (a : action) (c : cache) : cache :=
    match a with
    | ANone => c
    | AClear => []
    | AInval s n => filter (fun kv => negb (mt s n (fst kv))) c
    end.

  (* cache hit: a copy of the stored value; miss: resolve and, on success, store a copy *)
  Definition query (st : state) (p : string) (s : Z) (n : string) : state * obs :=
    let k := key p s n in
    match lookup k (s_cache st) with
    | Some v => (st, ORes (QOk v))
    | None =>
        let r := qresolve dflt (s_doc st) p s n in
        (match r with
         | QOk v => {| s_doc := s_doc st; s_cache := set_key k v (s_cache st) |}
         | _ => st
         end, ORes r)
    end.

  Definition step (st : state) (o : op) : state * obs :=
    match o with
    | Query p s n => query st p s n
    | MutateResult => (st, ODone)       (* results are copies: nothing of the object is reachable from them *)
    | MutateArg _ _ _ _ => (st, ODone)  (* arguments are stored as copies: the same *)
    | ReadOnly _ => (st, ODone)         (* the other read-only calls work on copies and never touch the cache *)
    | _ => let '(d', a, ob) := mutate (s_doc st) o in
           ({| s_doc := d'; s_cache := apply_action a (s_cache st) |}, ob)
    end.

  Fixpoint run (st : state) (ops : list op) : state * list obs :=
    match ops with
    | [] => (st, [])
    | o :: r => let (st1, ob) := step st o in
                let (st2, obs) := run st1 r in (st2, ob :: obs)
    end.

  (* per step: observation, the cache labels afterwards, and (for a failed resolution) every error a leaf gives *)
  Fixpoint trace (st : state) (ops : list op) : list (obs * list string * list err) :=
    match ops with
    | [] => []
    | o :: r => let (st1, ob) := step st o in
                let errs := match o, ob with
                            | Query p s n, ORes (QErr _) => resolve_errors dflt (s_doc st) [] p s n
                            | _, _ => []
                            end in
                (ob, map fst (s_cache st1), errs) :: trace st1 r
    end.
End Matcher.

(* ------------------------------------------------------------------ the active platform *)
(* the object with its active platform (self._platform) *)
Record astate := { a_plat : string; a_st : state }.

Inductive aop :=
  | E (o : op)       (* the call o, its platform argument (if it takes one) written out by the caller *)
  | Im (o : op)      (* the call o with its platform argument omitted (platform=None, or ''): the code reads
                        `platform = platform or self._platform`; the platform written inside o is a placeholder *)
  | ConfigurePlatform (p : option string).   (* configure_platform(p): self._platform = p or 'default' *)

(* `p or FlowIR.LabelDefault` *)
Definition plat_or_default (p : option string) : string :=
  match p with
  | Some EmptyString | None => "default"
  | Some q => q
  end.

(* the call o made for platform a (the calls of the alphabet that take a platform argument; a kept reference -
   LiveVarWrite - names the platform it was obtained for) *)
Definition with_plat (a : string) (o : op) : op :=
  match o with
  | Query _ s n => Query a s n
  | SetPlatGlobal _ var val => SetPlatGlobal a var val
  | SetPlatStage _ s var val => SetPlatStage a s var val
  | RefPlatGlobal _ var val => RefPlatGlobal a var val
  | RefPlatStage _ s var val => RefPlatStage a s var val
  | _ => o
  end.

(* what a call of the larger alphabet means, given the platform that is active when it is made; configure_platform
   is, for document and cache, one more read-only call *)
Definition elab1 (act : string) (a : aop) : op :=
  match a with
  | E o => o
  | Im o => with_plat act o
  | ConfigurePlatform _ => ReadOnly "configure_platform"
  end.

Definition act_next (act : string) (a : aop) : string :=
  match a with
  | ConfigurePlatform p => plat_or_default p
  | _ => act
  end.

Fixpoint elab (act : string) (l : list aop) : list op :=
  match l with
  | [] => []
  | a :: r => elab1 act a :: elab (act_next act a) r
  end.

Fixpoint active_after (act : string) (l : list aop) : string :=
  match l with
  | [] => act
  | a :: r => active_after (act_next act a) r
  end.

Section Active.
  Variable mt : Z -> string -> string -> bool.
  Variable dflt : jv.

  Definition astep (ast : astate) (a : aop) : astate * obs :=
    match a with
    | E o => let (st', ob) := step mt dflt (a_st ast) o in ({| a_plat := a_plat ast; a_st := st' |}, ob)
    | Im o => let (st', ob) := step mt dflt (a_st ast) (with_plat (a_plat ast) o) in
              ({| a_plat := a_plat ast; a_st := st' |}, ob)
    | ConfigurePlatform p => ({| a_plat := plat_or_default p; a_st := a_st ast |}, ODone)
    end.

  Fixpoint arun (ast : astate) (l : list aop) : astate * list obs :=
    match l with
    | [] => (ast, [])
    | a :: r => let (ast1, ob) := astep ast a in
                let (ast2, obs) := arun ast1 r in (ast2, ob :: obs)
    end.

  (* per step: observation, cache labels, leaf errors (as [trace]) - of the history the calls mean *)
  Definition atrace (ast : astate) (l : list aop) : list (obs * list string * list err) :=
    trace mt dflt (a_st ast) (elab (a_plat ast) l).
End Active.

(* the document after a history: the cache plays no role *)
Fixpoint doc_after (d : doc) (ops : list op) : doc :=
  match ops with
  | [] => d
  | o :: r => doc_after (fst (fst (mutate d o))) r
  end.

(* ------------------------------------------------------------------ side conditions of the theorems *)
Definition not_colon (c : ascii) : bool := negb (Ascii.eqb c ":").
(* a platform name without ':' (labels of two different (platform, component) pairs can coincide otherwise) *)
Definition plat_ok (p : string) : bool := all_chars not_colon p.

Definition route_ok (r : list string) : bool :=
  match r with
  | k :: _ => negb (String.eqb k "name") && negb (String.eqb k "stage")
  | [] => true
  end.

Definition op_ok (o : op) : bool :=
  match o with
  | SetOption _ _ r _ | DelOption _ _ r => route_ok r
  | ReplaceComp s n new => is_comp s n new
  | Query p _ _ => plat_ok p
  | LiveWrite _ _ _ _ | LiveVarWrite _ _ _ => false      (* on their own they are outside the interface *)
  | _ => true
  end.

(* [commits s n o]: the call o drops the labels of component (s, n) whenever that component exists:
   invalidate_cache_for_component((s, n)) itself, or a component mutator of (s, n) - they all fetch the definition
   with get_component((s, n), return_copy=False), which invalidates BEFORE the edit (also when the edit then raises);
   update_component and delete_component invalidate after they replaced / removed the definition.
   "Edit the live definition in place, then commit it": the commit is typically update_component((s, n), live) with
   the edited live definition itself as the argument (ARGUMENT IDENTITY: the model takes the argument's VALUE at the
   time of the call, see [hand_back] in Proofs.v). *)
Definition commits (s : Z) (n : string) (o : op) : bool :=
  match o with
  | Invalidate s' n' | SetCompVar s' n' _ _ | DelCompVar s' n' _ | SetOption s' n' _ _ | DelOption s' n' _
  | ReplaceComp s' n' _ | DelComp s' n' => (Z.eqb s s' && String.eqb n n') && op_ok o
  | _ => false
  end.

(* the discipline under which live references to components are safe (the one conf.py follows when it expands the
   references of the components in place): a write through a live reference to (s, n) is followed, before anything
   else happens, by invalidate_cache_for_component((s, n)) - or (round 5) by any other call that [commits] (s, n) *)
Fixpoint ok_hist (ops : list op) : bool :=
  match ops with
  | [] => true
  | LiveWrite s n r _ :: rest =>
      match rest with
      | o2 :: rest' => route_ok r && commits s n o2 && ok_hist rest'
      | [] => false
      end
  | o :: rest => op_ok o && ok_hist rest
  end.

(* ARGUMENT IDENTITY.  A mutator may be handed an object that IS part of the live description (what the caller
   obtained from get_component(.., return_copy=False), get_components(return_copy=False),
   get_platform_global_variables(.., return_copy=False)) or a new dictionary that shares sub-objects with it.  The
   operations above take VALUES: the meaning of such a call is the call with the value the object has at the time of
   the call - [live_value] for the sub-object at route r of component (s, n) ([] = the definition itself).  The
   harness hands the real mutators the live objects themselves and tells the model these values. *)
Definition live_value (d : doc) (s : Z) (n : string) (r : list string) : option jv :=
  match find_comp d s n with
  | Some c => get_path r c
  | None => None
  end.

(* ------------------------------------------------------------------ correspondence checker *)
(* what the implementation showed for one operation *)
Inductive iobs :=
  | IDone
  | IExc (cls detail : string)
  | IVal (v : jv)          (* a query answered with this configuration (minus `override`) *)
  | IPatch (patch : list (list string * option jv))
                           (* the same, written as its difference from a base tree given once per case:
                              (path, Some x) = the subtree at path is x, (path, None) = the key at path is absent *)
  | ISame (j : nat).       (* a query answered with exactly the configuration of the j-th operation of the history *)

Definition apply_patch (base : jv) (patch : list (list string * option jv)) : jv :=
  fold_left (fun v px => match snd px with Some x => set_path (fst px) x v | None => del_path (fst px) v end) patch base.

Definition obs_agrees (base : jv) (all : list (obs * list string * list err)) (m : obs * list string * list err) (i : iobs) : bool :=
  match fst (fst m), i with
  | ODone, IDone => true
  | OExc c, IExc c' _ => String.eqb c c'
  | ORes (QOk v), IVal w => jv_eqb v w
  | ORes (QOk v), IPatch pt => jv_eqb v (apply_patch base pt)
  | ORes (QOk v), ISame j => match nth_error all j with
                             | Some (ORes (QOk w), _, _) => jv_eqb v w
                             | _ => false
                             end
  | ORes (QErr _), IExc c dt => existsb (err_matches c dt) (snd m)
  | ORes (QExc c), IExc c' _ => String.eqb c c'
  | _, _ => false
  end.

Definition keys_agree (mk ik : list string) : bool :=
  Nat.eqb (length mk) (length ik) && forallb (fun k => existsb (String.eqb k) ik) mk.

Fixpoint all_agree (base : jv) (all : list (obs * list string * list err)) (ms : list (obs * list string * list err))
         (is : list (iobs * list string)) : bool :=
  match ms, is with
  | [], [] => true
  | m :: mr, (i, ik) :: ir => obs_agrees base all m i && keys_agree (snd (fst m)) ik && all_agree base all mr ir
  | _, _ => false
  end.

(* case = (dflt, base tree of the patches, (blueprint, variables, components) of the constructed object,
           the platform the object was constructed for (active platform at the start), history,
           what the implementation showed) *)
Definition case := (jv * jv * (jv * jv * list jv) * string * list aop * list (iobs * list string))%type.

Definition init_astate (act : string) (b v : jv) (cs : list jv) : astate :=
  {| a_plat := act; a_st := {| s_doc := {| d_blueprint := b; d_variables := v; d_components := cs |}; s_cache := [] |} |}.

Definition init_state (b v : jv) (cs : list jv) : state :=
  {| s_doc := {| d_blueprint := b; d_variables := v; d_components := cs |}; s_cache := [] |}.

(* the history is evaluated through [atrace] = [trace] of the explicit history it means; Proofs.atrace_obs: its
   observations are those of [arun] *)
Definition check_case (c : case) : bool :=
  let '(dflt, base, (b, v, cs), act, ops, is) := c in
  let tr := atrace lit_matches dflt (init_astate act b v cs) ops in
  all_agree base tr tr is.

(* diagnosis (replays): index of the first operation whose observation or cache labels disagree, with what the
   model shows there *)
Fixpoint first_bad_from (base : jv) (all ms : list (obs * list string * list err)) (is : list (iobs * list string))
         (i : nat) : option (nat * bool * bool * list string) :=
  match ms, is with
  | m :: mr, (io, ik) :: ir =>
      let a := obs_agrees base all m io in
      let b := keys_agree (snd (fst m)) ik in
      if a && b then first_bad_from base all mr ir (S i) else Some (i, a, b, snd (fst m))
  | [], [] => None
  | _, _ => Some (i, false, false, [])
  end.

Definition first_bad (c : case) : option (nat * bool * bool * list string) :=
  let '(dflt, base, (b, v, cs), act, ops, is) := c in
  let tr := atrace lit_matches dflt (init_astate act b v cs) ops in
  first_bad_from base tr tr is 0.

(* the two label matchers against Python's re (harness: the repaired pattern on arbitrary names, the pinned
   pattern on names made of literal characters and single `+` operators) *)
Definition check_matcher (c : bool * Z * string * string * bool) : bool :=
  let '(pinned, s, n, k, expect) := c in
  Bool.eqb ((if pinned then pinned_matches else lit_matches) s n k) expect.
