(* C08 — lemmas: labels, the matcher, the footprint of every mutator, coherence of the cache *)
From Coq Require Import String Ascii List Bool ZArith Arith Lia.
Import ListNotations.
Require Import V.Lib.PyStr V.Lib.JTree V.Conf.Model V.Conf.Proofs V.Cache.Model.
Open Scope string_scope.

(* ================================================================== A. strings and labels *)
Lemma app_inv_head_str a x y : a ++ x = a ++ y -> x = y.
Proof. induction a as [|c a IH]; cbn; intros H; [exact H|]. injection H as H. exact (IH H). Qed.

Lemma not_colon_false : not_colon ":" = false.
Proof. reflexivity. Qed.

(* two texts without ':' followed by ':' and anything: the first ':' splits them the same way *)
Lemma split_colon a : forall b x y,
  all_chars not_colon a = true -> all_chars not_colon b = true ->
  a ++ String ":" x = b ++ String ":" y -> a = b /\ x = y.
Proof.
  induction a as [|c a IH]; intros [|d b] x y Ha Hb H; cbn in *.
  - injection H as H. split; [reflexivity|exact H].
  - injection H as H1 H2. subst d. rewrite not_colon_false in Hb. discriminate.
  - injection H as H1 H2. subst c. rewrite not_colon_false in Ha. discriminate.
  - injection H as H1 H2. subst d.
    apply andb_true_iff in Ha as [_ Ha]. apply andb_true_iff in Hb as [_ Hb].
    destruct (IH b x y Ha Hb H2) as [E1 E2]. subst. split; reflexivity.
Qed.

Definition dig_ok (c : ascii) : bool := not_colon c && negb (Ascii.eqb c "-").

Lemma dig_ok_uint u : all_chars dig_ok (DecimalString.NilEmpty.string_of_uint u) = true.
Proof. induction u; cbn; try rewrite IHu; reflexivity. Qed.

Lemma dig_ok_dec n : all_chars dig_ok (dec n) = true.
Proof.
  unfold dec, DecimalString.NilZero.string_of_uint. destruct (N.to_uint n); try reflexivity; apply dig_ok_uint.
Qed.

Lemma all_chars_weaken (P Q : ascii -> bool) s :
  (forall c, P c = true -> Q c = true) -> all_chars P s = true -> all_chars Q s = true.
Proof.
  intros HPQ. induction s as [|c s IH]; cbn; [reflexivity|]. intros H.
  apply andb_true_iff in H as [H1 H2]. rewrite (HPQ _ H1), (IH H2). reflexivity.
Qed.

Lemma not_colon_zrepr z : all_chars not_colon (zrepr z) = true.
Proof.
  unfold zrepr. destruct (z <? 0)%Z.
  - cbn. apply all_chars_weaken with (P := dig_ok); [|apply dig_ok_dec].
    intros c H. unfold dig_ok in H. apply andb_true_iff in H as [H _]. exact H.
  - apply all_chars_weaken with (P := dig_ok); [|apply dig_ok_dec].
    intros c H. unfold dig_ok in H. apply andb_true_iff in H as [H _]. exact H.
Qed.

Lemma dec_no_minus n r : dec n = String "-" r -> False.
Proof.
  intros H. pose proof (dig_ok_dec n) as D. rewrite H in D. cbn in D. discriminate.
Qed.

Lemma zrepr_inj z z' : zrepr z = zrepr z' -> z = z'.
Proof.
  unfold zrepr. destruct (z <? 0)%Z eqn:E; destruct (z' <? 0)%Z eqn:E'; intros H.
  - cbn in H. injection H as H. apply dec_inj in H.
    apply Z.ltb_lt in E. apply Z.ltb_lt in E'.
    assert (Z.of_N (Z.to_N (- z)) = Z.of_N (Z.to_N (- z'))) as A by (rewrite H; reflexivity).
    rewrite !Z2N.id in A by lia. lia.
  - cbn in H. symmetry in H. exfalso. exact (dec_no_minus _ _ H).
  - cbn in H. exfalso. exact (dec_no_minus _ _ H).
  - apply dec_inj in H. apply Z.ltb_ge in E. apply Z.ltb_ge in E'.
    assert (Z.of_N (Z.to_N z) = Z.of_N (Z.to_N z')) as A by (rewrite H; reflexivity).
    rewrite !Z2N.id in A by lia. exact A.
Qed.

(* labels of two (platform, component) pairs coincide only for the same pair — when platform names hold no ':' *)
Lemma key_inj p s n p' s' n' :
  plat_ok p = true -> plat_ok p' = true -> key p s n = key p' s' n' -> p = p' /\ s = s' /\ n = n'.
Proof.
  unfold plat_ok, key. intros Hp Hp' H.
  apply app_inv_head_str in H.
  change (":stage" ++ zrepr s ++ ":" ++ n) with (String ":" ("stage" ++ zrepr s ++ ":" ++ n)) in H.
  change (":stage" ++ zrepr s' ++ ":" ++ n') with (String ":" ("stage" ++ zrepr s' ++ ":" ++ n')) in H.
  destruct (split_colon _ _ _ _ Hp Hp' H) as [E1 E2]. subst p'.
  apply app_inv_head_str in E2.
  change (":" ++ n) with (String ":" n) in E2. change (":" ++ n') with (String ":" n') in E2.
  destruct (split_colon _ _ _ _ (not_colon_zrepr s) (not_colon_zrepr s') E2) as [E3 E4].
  apply zrepr_inj in E3. subst. repeat split.
Qed.

(* the repaired pattern always matches the labels of the component it is built for, on every platform *)
Lemma lit_complete p s n : lit_matches s n (key p s n) = true.
Proof.
  unfold lit_matches, key. apply andb_true_iff. split.
  - apply prefixb_refl.
  - change (drop 10 ("component:" ++ p ++ ":stage" ++ zrepr s ++ ":" ++ n)) with (p ++ needle s n).
    apply occurs_spec. exists p, "". rewrite append_nil_r. reflexivity.
Qed.

(* ================================================================== B. dictionaries and component lists *)
Lemma lookup_remove_key_other {A} k k' (m : list (string * A)) :
  String.eqb k k' = false -> lookup k (remove_key k' m) = lookup k m.
Proof.
  intros E. induction m as [|[k0 v0] r IH]; cbn; [reflexivity|].
  destruct (String.eqb k' k0) eqn:E0.
  - apply String.eqb_eq in E0. subst k0. rewrite E. exact IH.
  - cbn. destruct (String.eqb k k0); [reflexivity|exact IH].
Qed.

Lemma is_comp_dict s n c : is_comp s n c = true -> exists m, c = JDict m.
Proof. destruct c; cbn; try discriminate. eexists; reflexivity. Qed.

(* is_comp only reads the keys stage and name of the dictionary *)
Lemma is_comp_same_keys s n m m' :
  lookup "stage" m' = lookup "stage" m -> lookup "name" m' = lookup "name" m ->
  is_comp s n (JDict m') = is_comp s n (JDict m).
Proof. intros H1 H2. unfold is_comp. cbn. rewrite H1, H2. reflexivity. Qed.

Lemma is_comp_set_key s n k x m :
  String.eqb "stage" k = false -> String.eqb "name" k = false ->
  is_comp s n (JDict (set_key k x m)) = is_comp s n (JDict m).
Proof. intros H1 H2. apply is_comp_same_keys; rewrite lookup_set_key; [rewrite H1|rewrite H2]; reflexivity. Qed.

Lemma is_comp_remove_key s n k m :
  String.eqb "stage" k = false -> String.eqb "name" k = false ->
  is_comp s n (JDict (remove_key k m)) = is_comp s n (JDict m).
Proof. intros H1 H2. apply is_comp_same_keys; apply lookup_remove_key_other; assumption. Qed.

(* a component has one identity *)
Lemma is_comp_unique s n s' n' c : is_comp s n c = true -> is_comp s' n' c = true -> s = s' /\ n = n'.
Proof.
  unfold is_comp. destruct (get_path ["stage"] c) as [[]|]; try discriminate.
  destruct (get_path ["name"] c) as [[]|]; try discriminate.
  intros H1 H2. apply andb_true_iff in H1 as [A1 B1]. apply andb_true_iff in H2 as [A2 B2].
  apply Z.eqb_eq in A1, A2. apply String.eqb_eq in B1, B2. subst. split; reflexivity.
Qed.

Lemma is_comp_other s n s' n' c : is_comp s n c = true -> (s', n') <> (s, n) -> is_comp s' n' c = false.
Proof.
  intros H Hne. destruct (is_comp s' n' c) eqn:E; [|reflexivity].
  destruct (is_comp_unique _ _ _ _ _ H E) as [-> ->]. congruence.
Qed.

Lemma find_upd_other s n s' n' c' l :
  is_comp s n c' = true -> (s', n') <> (s, n) ->
  List.find (is_comp s' n') (upd_comp s n c' l) = List.find (is_comp s' n') l.
Proof.
  intros Hc Hne. induction l as [|x r IH]; cbn; [reflexivity|].
  destruct (is_comp s n x) eqn:E; cbn.
  - rewrite (is_comp_other _ _ _ _ _ Hc Hne), (is_comp_other _ _ _ _ _ E Hne). reflexivity.
  - destruct (is_comp s' n' x); [reflexivity|exact IH].
Qed.

Lemma find_del_other s n s' n' l :
  (s', n') <> (s, n) -> List.find (is_comp s' n') (del_comp s n l) = List.find (is_comp s' n') l.
Proof.
  intros Hne. induction l as [|x r IH]; cbn; [reflexivity|].
  destruct (is_comp s n x) eqn:E; cbn.
  - rewrite (is_comp_other _ _ _ _ _ E Hne). reflexivity.
  - destruct (is_comp s' n' x); [reflexivity|exact IH].
Qed.

Lemma find_upd_same s n c c' l :
  List.find (is_comp s n) l = Some c -> is_comp s n c' = true ->
  List.find (is_comp s n) (upd_comp s n c' l) = Some c'.
Proof.
  intros F Hc'. induction l as [|x r IH]; cbn in *; [discriminate|].
  destruct (is_comp s n x) eqn:E; cbn.
  - rewrite Hc'. reflexivity.
  - rewrite E. exact (IH F).
Qed.

(* putting back the definition that is there changes nothing *)
Lemma upd_comp_same s n c l : List.find (is_comp s n) l = Some c -> upd_comp s n c l = l.
Proof.
  induction l as [|x r IH]; cbn; [reflexivity|].
  destruct (is_comp s n x) eqn:E.
  - intros H. injection H as ->. reflexivity.
  - intros H. rewrite (IH H). reflexivity.
Qed.

Lemma find_app_some {A} (f : A -> bool) l x y : List.find f l = Some y -> List.find f (l ++ [x])%list = Some y.
Proof.
  induction l as [|a r IH]; cbn; [discriminate|]. destruct (f a); [trivial|exact IH].
Qed.

(* ================================================================== C. the edits keep the identity *)
Lemma ed_setvar_id s n var val c c' : ed_setvar var val c = inl c' -> is_comp s n c' = is_comp s n c.
Proof.
  unfold ed_setvar. destruct c as [| | | | | |m]; try discriminate.
  destruct (lookup "variables" m) as [[| | | | | |vm]|]; try discriminate.
  intros H. injection H as <-. apply is_comp_set_key; reflexivity.
Qed.

Lemma ed_delvar_id s n var c c' : ed_delvar var c = inl c' -> is_comp s n c' = is_comp s n c.
Proof.
  unfold ed_delvar. destruct c as [| | | | | |m]; try discriminate.
  destruct (lookup "variables" m) as [[| | | | | |vm]|]; try discriminate.
  destruct (has_key var vm); try discriminate.
  intros H. injection H as <-. apply is_comp_set_key; reflexivity.
Qed.

Lemma route_ok_head k r : route_ok (k :: r) = true -> String.eqb "stage" k = false /\ String.eqb "name" k = false.
Proof.
  cbn. intros H. apply andb_true_iff in H as [H1 H2].
  apply negb_true_iff in H1, H2. rewrite String.eqb_sym in H1. rewrite String.eqb_sym in H2. split; assumption.
Qed.

Lemma set_route_id s n r x c c' :
  route_ok r = true -> set_route r x c = inl c' -> is_comp s n c' = is_comp s n c.
Proof.
  intros Hr. destruct c as [| | | | | |m]; destruct r as [|k r']; cbn; try discriminate.
  - intros H. injection H as <-. apply is_comp_set_key; reflexivity.
  - destruct (route_ok_head _ _ Hr) as [H1 H2].
    destruct r' as [|k2 r2].
    + intros H. injection H as <-. apply is_comp_set_key; assumption.
    + destruct (lookup k m) as [w|]; try discriminate.
      destruct (set_route (k2 :: r2) x w) as [w'|e]; try discriminate.
      intros H. injection H as <-. apply is_comp_set_key; assumption.
Qed.

Lemma del_route_id s n r c c' :
  route_ok r = true -> del_route r c = inl c' -> is_comp s n c' = is_comp s n c.
Proof.
  intros Hr. destruct c as [| | | | | |m]; destruct r as [|k r']; cbn; try discriminate.
  - destruct (has_key "" m); try discriminate.
    intros H. injection H as <-. apply is_comp_remove_key; reflexivity.
  - destruct (route_ok_head _ _ Hr) as [H1 H2].
    destruct r' as [|k2 r2].
    + destruct (has_key k m); try discriminate.
      intros H. injection H as <-. apply is_comp_remove_key; assumption.
    + destruct (lookup k m) as [w|]; try discriminate.
      destruct (del_route (k2 :: r2) w) as [w'|e]; try discriminate.
      intros H. injection H as <-. apply is_comp_set_key; assumption.
Qed.

(* ================================================================== D. what a resolution reads *)
(* the from-scratch answer for (p, s, n) reads the blueprints, the variables and the ONE component (s, n) *)
Lemma qresolve_ext dflt d d' p s n :
  d_blueprint d' = d_blueprint d -> d_variables d' = d_variables d ->
  find_comp d' s n = find_comp d s n ->
  qresolve dflt d' p s n = qresolve dflt d p s n.
Proof.
  destruct d as [b v cs], d' as [b' v' cs']. cbn. intros -> -> H.
  unfold qresolve, resolve, known, find_comp in *. cbn in *. rewrite H.
  destruct (List.find (is_comp s n) cs); reflexivity.
Qed.

Lemma qresolve_ok_find dflt d p s n v : qresolve dflt d p s n = QOk v -> exists c, find_comp d s n = Some c.
Proof.
  unfold qresolve. destruct (find_comp d s n) as [c|]; [eexists; reflexivity|discriminate].
Qed.

(* ================================================================== E. one lemma per mutator *)
(* does a label survive the cache action? *)
Definition survives (mt : Z -> string -> string -> bool) (a : action) (k : string) : bool :=
  match a with ANone => true | AClear => false | AInval s n => negb (mt s n k) end.

Section Coherence.
  Variable mt : Z -> string -> string -> bool.
  Variable dflt : jv.
  (* the only fact about the matcher the proofs use: the pattern built for (s, n) matches the label of (s, n)
     on every platform.  (It may match more: over-invalidation is harmless.) *)
  Hypothesis mt_complete : forall p s n, mt s n (key p s n) = true.

  Lemma survives_inval s n p s' n' : survives mt (AInval s n) (key p s' n') = true -> (s', n') <> (s, n).
  Proof.
    unfold survives. intros H E. injection E as -> ->. rewrite mt_complete in H. discriminate.
  Qed.

  (* component operations: every other component resolves as before *)
  Lemma comp_op_keeps d s n e d' a ob p s' n' :
    (forall c c', is_comp s n c = true -> e c = inl c' -> is_comp s n c' = true) ->
    comp_op d s n e = (d', a, ob) ->
    survives mt a (key p s' n') = true ->
    qresolve dflt d' p s' n' = qresolve dflt d p s' n'.
  Proof.
    intros He. unfold comp_op. destruct (find_comp d s n) as [c|] eqn:F.
    - destruct (e c) as [c'|cls] eqn:Ec; intros H; injection H as <- <- <-; intros Hs; [|reflexivity].
      apply survives_inval in Hs.
      apply qresolve_ext; try reflexivity. unfold find_comp. cbn.
      apply find_upd_other; [|exact Hs].
      unfold find_comp in F. apply find_some in F. exact (He _ _ (proj2 F) Ec).
    - intros H. injection H as <- <- <-. reflexivity.
  Qed.

  (* the same without reference to the cache action: the other components resolve as before *)
  Lemma comp_op_other d s n e d' a ob p s' n' :
    (forall c c', is_comp s n c = true -> e c = inl c' -> is_comp s n c' = true) ->
    comp_op d s n e = (d', a, ob) -> (s', n') <> (s, n) ->
    qresolve dflt d' p s' n' = qresolve dflt d p s' n'.
  Proof.
    intros He. unfold comp_op. destruct (find_comp d s n) as [c|] eqn:F.
    - destruct (e c) as [c'|cls] eqn:Ec; intros H; injection H as <- <- <-; intros Hs; [|reflexivity].
      apply qresolve_ext; try reflexivity. unfold find_comp. cbn.
      apply find_upd_other; [|exact Hs].
      unfold find_comp in F. apply find_some in F. exact (He _ _ (proj2 F) Ec).
    - intros H. injection H as <- <- <-. reflexivity.
  Qed.

  Lemma comp_op_inval d s n e c : find_comp d s n = Some c -> snd (fst (comp_op d s n e)) = AInval s n.
  Proof. unfold comp_op. intros ->. destruct (e c); reflexivity. Qed.

  Lemma commits_inv s n o : commits s n o = true ->
    op_ok o = true /\
    (o = Invalidate s n \/ (exists var val, o = SetCompVar s n var val) \/ (exists var, o = DelCompVar s n var) \/
     (exists r val, o = SetOption s n r val) \/ (exists r, o = DelOption s n r) \/
     (exists new, o = ReplaceComp s n new) \/ o = DelComp s n).
  Proof.
    destruct o; cbn [commits]; try discriminate; intros H;
      apply andb_true_iff in H as [H Hok]; apply andb_true_iff in H as [Hs Hn];
      apply Z.eqb_eq in Hs; apply String.eqb_eq in Hn; subst; (split; [exact Hok|]).
    - right; left; eauto.
    - right; right; left; eauto.
    - right; right; right; left; eauto.
    - right; right; right; right; left; eauto.
    - right; right; right; right; right; left; eauto.
    - right; right; right; right; right; right; reflexivity.
    - left; reflexivity.
  Qed.

  (* a call that commits (s, n): every other component resolves as before, and when (s, n) exists its labels go *)
  Lemma commit_other d s n o d' a ob p s' n' :
    commits s n o = true -> mutate d o = (d', a, ob) -> (s', n') <> (s, n) ->
    qresolve dflt d' p s' n' = qresolve dflt d p s' n'.
  Proof.
    intros Hc Hm Hne. destruct (commits_inv _ _ _ Hc) as [Hok Hcase].
    destruct Hcase as [->|[(var & val & ->)|[(var & ->)|[(r & val & ->)|[(r & ->)|[(new & ->)| ->]]]]]];
      unfold mutate in Hm; cbn in Hok.
    - injection Hm as <- <- <-. reflexivity.
    - eapply comp_op_other; [|exact Hm|exact Hne]. intros c c' Hcc E; erewrite ed_setvar_id; eassumption.
    - eapply comp_op_other; [|exact Hm|exact Hne]. intros c c' Hcc E; erewrite ed_delvar_id; eassumption.
    - eapply comp_op_other; [|exact Hm|exact Hne]. intros c c' Hcc E; erewrite set_route_id; eassumption.
    - eapply comp_op_other; [|exact Hm|exact Hne]. intros c c' Hcc E; erewrite del_route_id; eassumption.
    - eapply comp_op_other; [|exact Hm|exact Hne]. intros c c' _ E. injection E as <-. exact Hok.
    - destruct (find_comp d s n); injection Hm as <- <- <-; [|reflexivity].
      apply qresolve_ext; try reflexivity. unfold find_comp. cbn. apply find_del_other. exact Hne.
  Qed.

  Lemma commit_inval d s n o c : commits s n o = true -> find_comp d s n = Some c ->
    snd (fst (mutate d o)) = AInval s n.
  Proof.
    intros Hc F. destruct (commits_inv _ _ _ Hc) as [_ Hcase].
    destruct Hcase as [->|[(var & val & ->)|[(var & ->)|[(r & val & ->)|[(r & ->)|[(new & ->)| ->]]]]]];
      unfold mutate; try (apply comp_op_inval with (c := c); exact F).
    - reflexivity.
    - rewrite F. reflexivity.
  Qed.

  Lemma commits_not_query s n o : commits s n o = true -> forall p s' n', o <> Query p s' n'.
  Proof. intros H p s' n' ->. discriminate. Qed.

  (* THE per-operation lemma: a configuration that resolved before the mutator and whose label survives the
     mutator's cache action resolves to the same value afterwards *)
  Lemma mutate_keeps d o d' a ob p s n v :
    op_ok o = true ->
    mutate d o = (d', a, ob) ->
    qresolve dflt d p s n = QOk v ->
    survives mt a (key p s n) = true ->
    qresolve dflt d' p s n = QOk v.
  Proof.
    intros Hok Hm Hq Hs. destruct o; unfold mutate in Hm; cbn in Hok.
    - (* SetCompVar *) rewrite <- Hq. eapply comp_op_keeps; [|exact Hm|exact Hs]. intros c c' Hc E; erewrite ed_setvar_id; eassumption.
    - (* DelCompVar *) rewrite <- Hq. eapply comp_op_keeps; [|exact Hm|exact Hs]. intros c c' Hc E; erewrite ed_delvar_id; eassumption.
    - (* SetOption *) rewrite <- Hq. eapply comp_op_keeps; [|exact Hm|exact Hs]. intros c c' Hc E; erewrite set_route_id; eassumption.
    - (* DelOption *) rewrite <- Hq. eapply comp_op_keeps; [|exact Hm|exact Hs]. intros c c' Hc E; erewrite del_route_id; eassumption.
    - (* SetGlobal *) injection Hm as <- <- <-. discriminate.
    - (* SetStage *)
      destruct (get_path ["default"; "stages"; zrepr s0] (d_variables d)) as [[]|];
        injection Hm as <- <- <-; try exact Hq; discriminate.
    - (* SetPlatGlobal *) injection Hm as <- <- <-. discriminate.
    - (* SetPlatStage *) injection Hm as <- <- <-. discriminate.
    - (* RefPlatGlobal *) destruct (known d p0); injection Hm as <- <- <-; [discriminate|exact Hq].
    - (* RefPlatStage *)
      destruct (get_path [p0] (d_variables d)); [|injection Hm as <- <- <-; discriminate].
      destruct (get_path [p0; "stages"] (d_variables d)); [|injection Hm as <- <- <-; discriminate].
      destruct (get_path [p0; "stages"; zrepr s0] (d_variables d)); injection Hm as <- <- <-; discriminate.
    - (* AddComp *)
      unfold add_op in Hm. destruct (comp_id (add_pre desc)) as [[s0 n0]|]; [|injection Hm as <- <- <-; exact Hq].
      destruct (find_comp d s0 n0); injection Hm as <- <- <-; [exact Hq|].
      rewrite <- Hq. apply qresolve_ext; try reflexivity.
      destruct (qresolve_ok_find _ _ _ _ _ _ Hq) as [c Fc]. unfold find_comp in *. cbn. rewrite Fc.
      apply find_app_some. exact Fc.
    - (* ReplaceComp *) rewrite <- Hq. eapply comp_op_keeps; [|exact Hm|exact Hs].
      intros c c' _ E. injection E as <-. exact Hok.
    - (* DelComp *)
      destruct (find_comp d s0 n0); injection Hm as <- <- <-; [|exact Hq].
      rewrite <- Hq. apply survives_inval in Hs. apply qresolve_ext; try reflexivity.
      unfold find_comp. cbn. apply find_del_other. exact Hs.
    - (* Query *) injection Hm as <- <- <-. exact Hq.
    - (* MutateResult *) injection Hm as <- <- <-. exact Hq.
    - (* MutateArg *) injection Hm as <- <- <-. exact Hq.
    - (* LiveWrite *) discriminate.
    - (* LiveVarWrite *) discriminate.
    - (* Invalidate *) injection Hm as <- <- <-. exact Hq.
    - (* ReadOnly *) injection Hm as <- <- <-. exact Hq.
  Qed.

  (* ================================================================== F. coherence of the cache *)
  (* every cached value is the from-scratch answer for the pair its label names *)
  Definition entry_ok (d : doc) (kv : string * jv) : Prop :=
    exists p s n, fst kv = key p s n /\ plat_ok p = true /\ qresolve dflt d p s n = QOk (snd kv).
  Definition coherent (st : state) : Prop := forall kv, In kv (s_cache st) -> entry_ok (s_doc st) kv.

  Lemma in_apply_action a c kv : In kv (apply_action mt a c) -> In kv c /\ survives mt a (fst kv) = true.
  Proof.
    destruct a; cbn.
    - intros H. split; [exact H|reflexivity].
    - intros [].
    - intros H. apply filter_In in H. exact H.
  Qed.

  Lemma in_set_key {A} k (v : A) m kv : In kv (set_key k v m) -> kv = (k, v) \/ In kv m.
  Proof.
    induction m as [|[k0 v0] r IH]; cbn.
    - intros [H|[]]. left. symmetry. exact H.
    - destruct (String.eqb k k0); cbn.
      + intros [H|H]; [left; symmetry; exact H|right; right; exact H].
      + intros [H|H]; [right; left; exact H|]. destruct (IH H) as [E|E]; [left; exact E|right; right; exact E].
  Qed.

  Lemma lookup_in {A} k (m : list (string * A)) v : lookup k m = Some v -> In (k, v) m.
  Proof.
    induction m as [|[k0 v0] r IH]; cbn; [discriminate|].
    destruct (String.eqb k k0) eqn:E.
    - apply String.eqb_eq in E. subst k0. intros H. injection H as ->. left. reflexivity.
    - intros H. right. exact (IH H).
  Qed.

  Lemma step_generic st o : (forall p s n, o <> Query p s n) ->
    step mt dflt st o = let '(d', a, ob) := mutate (s_doc st) o in
                        ({| s_doc := d'; s_cache := apply_action mt a (s_cache st) |}, ob).
  Proof.
    intros H. destruct st as [d c]. destruct o; try reflexivity. exfalso. exact (H _ _ _ eq_refl).
  Qed.

  Lemma query_coherent st p s n : plat_ok p = true -> coherent st -> coherent (fst (query dflt st p s n)).
  Proof.
    intros Hp Hc. unfold query. destruct (lookup (key p s n) (s_cache st)) as [v|]; [exact Hc|].
    destruct (qresolve dflt (s_doc st) p s n) as [v|e|cls] eqn:Q; cbn; try exact Hc.
    intros kv Hin. cbn in Hin. apply in_set_key in Hin as [->|Hin].
    - exists p, s, n. cbn. repeat split; assumption.
    - exact (Hc kv Hin).
  Qed.

  Lemma step_coherent st o : op_ok o = true -> coherent st -> coherent (fst (step mt dflt st o)).
  Proof.
    intros Hok Hc.
    assert (G : (forall p s n, o <> Query p s n) -> coherent (fst (step mt dflt st o))).
    { intros Hn. rewrite (step_generic st o Hn).
      destruct (mutate (s_doc st) o) as [[d' a] ob] eqn:Hm. cbn.
      intros kv Hin. cbn in Hin. apply in_apply_action in Hin as [Hin Hs].
      destruct (Hc kv Hin) as (p & s & n & Hk & Hp & Hq).
      exists p, s, n. cbn. repeat split; try assumption.
      rewrite Hk in Hs. exact (mutate_keeps _ _ _ _ _ _ _ _ _ Hok Hm Hq Hs). }
    destruct o; try (apply G; intros; discriminate).
    cbn in Hok. cbn. apply query_coherent; assumption.
  Qed.

  Lemma run_coherent ops : forall st, forallb op_ok ops = true -> coherent st -> coherent (fst (run mt dflt st ops)).
  Proof.
    induction ops as [|o r IH]; intros st Hok Hc; cbn; [exact Hc|].
    cbn in Hok. apply andb_true_iff in Hok as [H1 H2].
    pose proof (step_coherent st o H1 Hc) as Hc1.
    destruct (step mt dflt st o) as [st1 ob]. cbn in Hc1.
    pose proof (IH st1 H2 Hc1) as Hc2.
    destruct (run mt dflt st1 r) as [st2 obs]. exact Hc2.
  Qed.

  (* a query on a coherent state answers what the current document resolves to *)
  Lemma query_fresh st p s n : plat_ok p = true -> coherent st ->
    snd (query dflt st p s n) = ORes (qresolve dflt (s_doc st) p s n).
  Proof.
    intros Hp Hc. unfold query. destruct (lookup (key p s n) (s_cache st)) as [v|] eqn:L; [|reflexivity].
    cbn. apply lookup_in in L. destruct (Hc _ L) as (p' & s' & n' & Hk & Hp' & Hq). cbn in Hk, Hq.
    destruct (key_inj _ _ _ _ _ _ Hp Hp' Hk) as (-> & -> & ->). rewrite Hq. reflexivity.
  Qed.

  (* ================================================================== G. histories *)
  Lemma step_doc st o : s_doc (fst (step mt dflt st o)) = fst (fst (mutate (s_doc st) o)).
  Proof.
    destruct o; try (rewrite step_generic by (intros; discriminate);
                     destruct (mutate (s_doc st) _) as [[d' a] ob]; reflexivity).
    cbn. unfold query. destruct (lookup _ _); [reflexivity|].
    destruct (qresolve _ _ _ _ _); reflexivity.
  Qed.

  Lemma run_doc ops : forall st, s_doc (fst (run mt dflt st ops)) = doc_after (s_doc st) ops.
  Proof.
    induction ops as [|o r IH]; intros st; cbn; [reflexivity|].
    pose proof (step_doc st o) as Hd. destruct (step mt dflt st o) as [st1 ob]. cbn in Hd.
    specialize (IH st1). destruct (run mt dflt st1 r) as [st2 obs]. cbn in *. rewrite IH, Hd. reflexivity.
  Qed.

  Lemma run_app a : forall st b,
    fst (run mt dflt st (a ++ b)%list) = fst (run mt dflt (fst (run mt dflt st a)) b) /\
    snd (run mt dflt st (a ++ b)%list) = (snd (run mt dflt st a) ++ snd (run mt dflt (fst (run mt dflt st a)) b))%list.
  Proof.
    induction a as [|o r IH]; intros st b; cbn; [split; reflexivity|].
    destruct (step mt dflt st o) as [st1 ob]. specialize (IH st1 b).
    destruct (run mt dflt st1 (r ++ b)%list) as [st2 obs]. destruct (run mt dflt st1 r) as [st3 obs3]. cbn in *.
    destruct IH as [E1 E2]. split; [exact E1|]. rewrite E2. reflexivity.
  Qed.

  Lemma run_length ops : forall st, length (snd (run mt dflt st ops)) = length ops.
  Proof.
    induction ops as [|o r IH]; intros st; cbn; [reflexivity|].
    destruct (step mt dflt st o) as [st1 ob]. specialize (IH st1).
    destruct (run mt dflt st1 r) as [st2 obs]. cbn in *. rewrite IH. reflexivity.
  Qed.

  (* every query of every history, whatever precedes and follows it *)
  Lemma history_fresh st pre p s n post :
    coherent st -> forallb op_ok pre = true -> plat_ok p = true ->
    nth_error (snd (run mt dflt st (pre ++ Query p s n :: post)%list)) (length pre)
    = Some (ORes (qresolve dflt (doc_after (s_doc st) pre) p s n)).
  Proof.
    intros Hc Hok Hp.
    destruct (run_app pre st (Query p s n :: post)) as [_ E]. rewrite E.
    rewrite nth_error_app2 by (rewrite run_length; lia). rewrite run_length, Nat.sub_diag.
    pose proof (run_coherent pre st Hok Hc) as Hc'. pose proof (run_doc pre st) as Hd.
    set (st' := fst (run mt dflt st pre)) in *.
    cbn. pose proof (query_fresh st' p s n Hp Hc') as Q.
    destruct (query dflt st' p s n) as [st1 ob]. cbn in Q.
    destruct (run mt dflt st1 post) as [st2 obs]. cbn. rewrite Q, Hd. reflexivity.
  Qed.

  (* ================================================================== H. results are private copies *)
  Lemma mutate_result_noop st : step mt dflt st MutateResult = (st, ODone).
  Proof. reflexivity. Qed.

  Lemma history_private st pre post :
    fst (run mt dflt st (pre ++ MutateResult :: post)%list) = fst (run mt dflt st (pre ++ post)%list) /\
    snd (run mt dflt st (pre ++ MutateResult :: post)%list)
    = (snd (run mt dflt st pre) ++ ODone :: snd (run mt dflt (fst (run mt dflt st pre)) post))%list.
  Proof.
    destruct (run_app pre st (MutateResult :: post)) as [E1 E2].
    destruct (run_app pre st post) as [F1 _].
    rewrite E1, E2, F1. cbn. destruct (run mt dflt (fst (run mt dflt st pre)) post). split; reflexivity.
  Qed.

  (* asking again gives the same answer: a hit is a copy of what was stored, and storing does not alter the document *)
  Lemma query_twice st p s n :
    snd (step mt dflt (fst (step mt dflt st (Query p s n))) (Query p s n)) = snd (step mt dflt st (Query p s n)) /\
    s_doc (fst (step mt dflt st (Query p s n))) = s_doc st.
  Proof.
    unfold step, query. destruct (lookup (key p s n) (s_cache st)) as [v|] eqn:L; cbn [fst snd s_cache s_doc].
    - rewrite L. split; reflexivity.
    - destruct (qresolve dflt (s_doc st) p s n) as [v|e|cls] eqn:Q; cbn [fst snd s_cache s_doc].
      + rewrite lookup_set_key, String.eqb_refl. split; reflexivity.
      + rewrite L, Q. split; reflexivity.
      + rewrite L, Q. split; reflexivity.
  Qed.
  (* ================================================================== I. live references under the discipline *)
  Lemma comp_op_action d s n e d' a ob : comp_op d s n e = (d', a, ob) -> a = ANone \/ a = AInval s n.
  Proof.
    unfold comp_op. destruct (find_comp d s n); [destruct (e j)|]; intros H; injection H as <- <- <-; auto.
  Qed.

  (* write through a live reference, then a call that commits the component (invalidate_cache_for_component, or a
     mutator of that component - e.g. update_component handed the edited live definition): together they keep the
     cache coherent *)
  Lemma live_commit_coherent st s n r x o2 : route_ok r = true -> commits s n o2 = true -> coherent st ->
    coherent (fst (step mt dflt (fst (step mt dflt st (LiveWrite s n r x))) o2)).
  Proof.
    intros Hr Hcm Hc. destruct (commits_inv _ _ _ Hcm) as [Hok2 _].
    destruct st as [d c].
    assert (Same : coherent (fst (step mt dflt {| s_doc := d; s_cache := c |} o2)))
      by (apply step_coherent; assumption).
    assert (L : step mt dflt {| s_doc := d; s_cache := c |} (LiveWrite s n r x)
                = (let '(d', _, ob) := comp_op d s n (set_route r x) in ({| s_doc := d'; s_cache := c |}, ob))).
    { cbn. destruct (comp_op d s n (set_route r x)) as [[d' a'] ob']. reflexivity. }
    rewrite L. clear L. unfold comp_op.
    destruct (find_comp d s n) as [c0|] eqn:F; [|exact Same].
    destruct (set_route r x c0) as [c'|cls] eqn:Er; [|exact Same].
    cbn [fst apply_action s_doc s_cache].
    set (d1 := with_comps d (upd_comp s n c' (d_components d))).
    assert (Hc' : is_comp s n c' = true).
    { unfold find_comp in F. pose proof (find_some _ _ F) as [_ Hi]. erewrite set_route_id; eassumption. }
    assert (F1 : find_comp d1 s n = Some c').
    { unfold find_comp, d1. cbn. apply find_upd_same with (c := c0); assumption. }
    rewrite (step_generic _ o2 (commits_not_query _ _ _ Hcm)). cbn [s_doc s_cache].
    pose proof (commit_inval d1 s n o2 c' Hcm F1) as Ha.
    destruct (mutate d1 o2) as [[d2 a2] ob2] eqn:Hm. cbn in Ha. subst a2. cbn [fst].
    intros kv Hin. cbn in Hin. apply filter_In in Hin as [Hin Hs].
    destruct (Hc kv Hin) as (p & s' & n' & Hk & Hp & Hq). cbn in Hq.
    exists p, s', n'. cbn. repeat split; try assumption.
    assert (Hne : (s', n') <> (s, n)).
    { apply survives_inval with (p := p). unfold survives. rewrite <- Hk. exact Hs. }
    rewrite (commit_other _ _ _ _ _ _ _ p s' n' Hcm Hm Hne).
    rewrite <- Hq. apply qresolve_ext; try reflexivity. unfold find_comp, d1. cbn.
    apply find_upd_other; assumption.
  Qed.

  (* ARGUMENT IDENTITY (value semantics): update_component((s, n), X) where X is the live definition of (s, n) itself -
     i.e. the value the description holds for (s, n) at the time of the call: the description stays as it is, the
     labels of the component are dropped *)
  Lemma hand_back st s n c : find_comp (s_doc st) s n = Some c ->
    op_ok (ReplaceComp s n c) = true /\
    step mt dflt st (ReplaceComp s n c)
    = ({| s_doc := s_doc st; s_cache := apply_action mt (AInval s n) (s_cache st) |}, ODone).
  Proof.
    intros F. split.
    - unfold find_comp in F. exact (proj2 (find_some _ _ F)).
    - destruct st as [d cch]. cbn [step mutate s_doc s_cache] in *. unfold comp_op. rewrite F.
      unfold find_comp in F. rewrite (upd_comp_same _ _ _ _ F). destruct d; reflexivity.
  Qed.

  Lemma ok_hist_cons o r : (forall s n rt x, o <> LiveWrite s n rt x) -> ok_hist (o :: r) = op_ok o && ok_hist r.
  Proof. intros H. destruct o; try reflexivity. exfalso. exact (H _ _ _ _ eq_refl). Qed.

  Lemma run_coherent_ok k : forall ops st, length ops <= k -> ok_hist ops = true -> coherent st ->
    coherent (fst (run mt dflt st ops)).
  Proof.
    induction k as [|k IH]; intros ops st Hl Hok Hc.
    - destruct ops; [exact Hc|cbn in Hl; lia].
    - destruct ops as [|o r]; [exact Hc|]. cbn in Hl.
      assert (G : (forall s n rt x, o <> LiveWrite s n rt x) -> coherent (fst (run mt dflt st (o :: r)))).
      { intros Hn. rewrite (ok_hist_cons o r Hn) in Hok. apply andb_true_iff in Hok as [H1 H2].
        pose proof (step_coherent st o H1 Hc) as Hc1. cbn.
        destruct (step mt dflt st o) as [st1 ob]. cbn in Hc1.
        assert (Hl' : length r <= k) by lia.
        pose proof (IH r st1 Hl' H2 Hc1) as Hc2.
        destruct (run mt dflt st1 r) as [st2 obs]. exact Hc2. }
      destruct o; try (apply G; intros; discriminate).
      (* LiveWrite: the next operation is the invalidation *)
      destruct r as [|o2 r']; [discriminate|].
      cbn [ok_hist] in Hok.
      apply andb_true_iff in Hok as [Hok H4]. apply andb_true_iff in Hok as [H1 H2].
      pose proof (live_commit_coherent st s n route x o2 H1 H2 Hc) as Hc1.
      cbn [run]. destruct (step mt dflt st (LiveWrite s n route x)) as [st1 ob1]. cbn [fst] in Hc1.
      destruct (step mt dflt st1 o2) as [st2 ob2]. cbn [fst] in Hc1.
      cbn in Hl. assert (Hl' : length r' <= k) by lia.
      pose proof (IH r' st2 Hl' H4 Hc1) as Hc2.
      destruct (run mt dflt st2 r') as [st3 obs]. exact Hc2.
  Qed.

  Lemma op_ok_ok_hist ops : forallb op_ok ops = true -> ok_hist ops = true.
  Proof.
    induction ops as [|o r IH]; [reflexivity|]. cbn [forallb]. intros H. apply andb_true_iff in H as [H1 H2].
    destruct o; try (cbn [ok_hist]; rewrite H1, (IH H2); reflexivity). discriminate.
  Qed.

  Lemma history_fresh_ok st pre p s n post :
    coherent st -> ok_hist pre = true -> plat_ok p = true ->
    nth_error (snd (run mt dflt st (pre ++ Query p s n :: post)%list)) (length pre)
    = Some (ORes (qresolve dflt (doc_after (s_doc st) pre) p s n)).
  Proof.
    intros Hc Hok Hp.
    destruct (run_app pre st (Query p s n :: post)) as [_ E]. rewrite E.
    rewrite nth_error_app2 by (rewrite run_length; lia). rewrite run_length, Nat.sub_diag.
    pose proof (run_coherent_ok (length pre) pre st (le_n _) Hok Hc) as Hc'. pose proof (run_doc pre st) as Hd.
    set (st' := fst (run mt dflt st pre)) in *.
    cbn. pose proof (query_fresh st' p s n Hp Hc') as Q.
    destruct (query dflt st' p s n) as [st1 ob]. cbn in Q.
    destruct (run mt dflt st1 post) as [st2 obs]. cbn. rewrite Q, Hd. reflexivity.
  Qed.

  (* ================================================================== J. arguments are private copies *)
  Lemma history_args_private st pre post s n r x :
    fst (run mt dflt st (pre ++ MutateArg s n r x :: post)%list) = fst (run mt dflt st (pre ++ post)%list) /\
    snd (run mt dflt st (pre ++ MutateArg s n r x :: post)%list)
    = (snd (run mt dflt st pre) ++ ODone :: snd (run mt dflt (fst (run mt dflt st pre)) post))%list.
  Proof.
    destruct (run_app pre st (MutateArg s n r x :: post)) as [E1 E2].
    destruct (run_app pre st post) as [F1 _].
    rewrite E1, E2, F1. cbn. destruct (run mt dflt (fst (run mt dflt st pre)) post). split; reflexivity.
  Qed.

  (* ================================================================== K. the other read-only calls *)
  (* any operation that is a no-op of [step] in every state can be dropped from a history: same final state, same
     observations of the others *)
  Lemma history_noop o st pre post :
    (forall st', step mt dflt st' o = (st', ODone)) ->
    fst (run mt dflt st (pre ++ o :: post)%list) = fst (run mt dflt st (pre ++ post)%list) /\
    snd (run mt dflt st (pre ++ o :: post)%list)
    = (snd (run mt dflt st pre) ++ ODone :: snd (run mt dflt (fst (run mt dflt st pre)) post))%list.
  Proof.
    intros Hn.
    destruct (run_app pre st (o :: post)) as [E1 E2].
    destruct (run_app pre st post) as [F1 _].
    rewrite E1, E2, F1. cbn [run]. rewrite Hn. destruct (run mt dflt (fst (run mt dflt st pre)) post). split; reflexivity.
  Qed.

  Lemma doc_after_noop o pre post : (forall d, fst (fst (mutate d o)) = d) ->
    forall d, doc_after d (pre ++ o :: post)%list = doc_after d (pre ++ post)%list.
  Proof.
    intros Hn. induction pre as [|o' pre IH]; intros d; cbn; [rewrite Hn; reflexivity|apply IH].
  Qed.

  Lemma history_readonly st pre post c d :
    step mt dflt st (ReadOnly c) = (st, ODone) /\
    doc_after d (pre ++ ReadOnly c :: post)%list = doc_after d (pre ++ post)%list /\
    fst (run mt dflt st (pre ++ ReadOnly c :: post)%list) = fst (run mt dflt st (pre ++ post)%list) /\
    snd (run mt dflt st (pre ++ ReadOnly c :: post)%list)
    = (snd (run mt dflt st pre) ++ ODone :: snd (run mt dflt (fst (run mt dflt st pre)) post))%list.
  Proof.
    split; [reflexivity|]. split; [apply doc_after_noop; reflexivity|].
    apply history_noop. reflexivity.
  Qed.

  (* ================================================================== L. the active platform *)
  Lemma elab_app act a : forall b, elab act (a ++ b)%list = (elab act a ++ elab (active_after act a) b)%list.
  Proof.
    revert act. induction a as [|x r IH]; intros act b; cbn; [reflexivity|]. rewrite IH. reflexivity.
  Qed.

  Lemma elab_length l : forall act, length (elab act l) = length l.
  Proof. induction l as [|x r IH]; intros act; cbn; [reflexivity|]. rewrite IH. reflexivity. Qed.

  Lemma active_after_app a : forall act b, active_after act (a ++ b)%list = active_after (active_after act a) b.
  Proof. induction a as [|x r IH]; intros act b; cbn; [reflexivity|]. apply IH. Qed.

  (* one call of the larger alphabet = the explicit call it means, and the next active platform *)
  Lemma astep_elab ast a :
    astep mt dflt ast a
    = ({| a_plat := act_next (a_plat ast) a; a_st := fst (step mt dflt (a_st ast) (elab1 (a_plat ast) a)) |},
       snd (step mt dflt (a_st ast) (elab1 (a_plat ast) a))).
  Proof.
    destruct ast as [act st]. destruct a as [o|o|p]; cbn [astep elab1 act_next a_plat a_st].
    - destruct (step mt dflt st o); reflexivity.
    - destruct (step mt dflt st (with_plat act o)); reflexivity.
    - reflexivity.
  Qed.

  (* a history with implicit-platform calls and platform switches IS the history of explicit calls [elab] writes *)
  Lemma arun_elab l : forall ast,
    arun mt dflt ast l
    = ({| a_plat := active_after (a_plat ast) l; a_st := fst (run mt dflt (a_st ast) (elab (a_plat ast) l)) |},
       snd (run mt dflt (a_st ast) (elab (a_plat ast) l))).
  Proof.
    induction l as [|a r IH]; intros ast; cbn [arun elab active_after run].
    - destruct ast; reflexivity.
    - rewrite astep_elab. rewrite IH. cbn [a_plat a_st].
      destruct (step mt dflt (a_st ast) (elab1 (a_plat ast) a)) as [st1 ob]. cbn [fst snd].
      destruct (run mt dflt st1 (elab (act_next (a_plat ast) a) r)) as [st2 obs]. reflexivity.
  Qed.

  Lemma trace_obs ops : forall st,
    map (fun t : obs * list string * list err => fst (fst t)) (trace mt dflt st ops) = snd (run mt dflt st ops).
  Proof.
    induction ops as [|o r IH]; intros st; cbn [trace run]; [reflexivity|].
    destruct (step mt dflt st o) as [st1 ob]. specialize (IH st1).
    destruct (run mt dflt st1 r) as [st2 obs]. cbn [map fst snd] in *. rewrite IH. reflexivity.
  Qed.

  (* what the correspondence run evaluates (atrace) shows the observations of arun *)
  Lemma atrace_obs ast l :
    map (fun t : obs * list string * list err => fst (fst t)) (atrace mt dflt ast l) = snd (arun mt dflt ast l).
  Proof. unfold atrace. rewrite trace_obs, arun_elab. reflexivity. Qed.

  Lemma arun_coherent ast l : ok_hist (elab (a_plat ast) l) = true -> coherent (a_st ast) ->
    coherent (a_st (fst (arun mt dflt ast l))).
  Proof.
    intros Hok Hc. rewrite arun_elab. cbn [fst a_st].
    exact (run_coherent_ok _ _ _ (le_n _) Hok Hc).
  Qed.

  (* every IMPLICIT query of every history answers what the description produced by the preceding mutators resolves
     to from scratch ON THE PLATFORM THAT IS ACTIVE WHEN IT IS ASKED *)
  Lemma history_fresh_active st act pre x s n post :
    coherent st -> ok_hist (elab act pre) = true -> plat_ok (active_after act pre) = true ->
    nth_error (snd (arun mt dflt {| a_plat := act; a_st := st |} (pre ++ Im (Query x s n) :: post)%list)) (length pre)
    = Some (ORes (qresolve dflt (doc_after (s_doc st) (elab act pre)) (active_after act pre) s n)).
  Proof.
    intros Hc Hok Hp. rewrite arun_elab. cbn [snd a_plat a_st].
    rewrite elab_app. cbn [elab elab1 with_plat]. rewrite <- (elab_length pre act).
    apply history_fresh_ok; assumption.
  Qed.

  (* ... and every EXPLICIT query what it resolves to on the platform the caller names, whatever platform is active *)
  Lemma history_fresh_explicit st act pre p s n post :
    coherent st -> ok_hist (elab act pre) = true -> plat_ok p = true ->
    nth_error (snd (arun mt dflt {| a_plat := act; a_st := st |} (pre ++ E (Query p s n) :: post)%list)) (length pre)
    = Some (ORes (qresolve dflt (doc_after (s_doc st) (elab act pre)) p s n)).
  Proof.
    intros Hc Hok Hp. rewrite arun_elab. cbn [snd a_plat a_st].
    rewrite elab_app. cbn [elab elab1]. rewrite <- (elab_length pre act).
    apply history_fresh_ok; assumption.
  Qed.

  (* configure_platform: the active platform changes, document and cache do not; the document the queries are
     measured against does not move *)
  Lemma history_configure ast p act pre post d :
    astep mt dflt ast (ConfigurePlatform p) = ({| a_plat := plat_or_default p; a_st := a_st ast |}, ODone) /\
    doc_after d (elab act (pre ++ ConfigurePlatform p :: post)%list)
    = doc_after d (elab act pre ++ elab (plat_or_default p) post)%list /\
    active_after act (pre ++ ConfigurePlatform p :: post)%list = active_after (plat_or_default p) post.
  Proof.
    split; [reflexivity|]. split.
    - rewrite elab_app. cbn [elab elab1 act_next]. apply doc_after_noop. reflexivity.
    - rewrite active_after_app. reflexivity.
  Qed.

  (* calls that name their platform do not depend on the active one: a history without implicit calls means the
     same explicit history whatever platform the object was constructed for *)
  Definition explicit_only (l : list aop) : bool :=
    forallb (fun a => match a with Im _ => false | _ => true end) l.

  Lemma explicit_indep l : forall act act', explicit_only l = true -> elab act l = elab act' l.
  Proof.
    induction l as [|a r IH]; intros act act' H; cbn; [reflexivity|].
    cbn in H. apply andb_true_iff in H as [H1 H2].
    destruct a as [o|o|p]; cbn; try discriminate.
    - rewrite (IH act act' H2). reflexivity.
    - reflexivity.
  Qed.
End Coherence.

Lemma coherent_empty dflt d : coherent dflt {| s_doc := d; s_cache := [] |}.
Proof. intros kv []. Qed.
