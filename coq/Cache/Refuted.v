(* C08 — parts of the full statement that are false: of the pinned code (repaired, kept as witnesses) and of the
   current code outside the hypotheses of the theorems. *)
From Coq Require Import String Ascii List Bool ZArith Arith.
Import ListNotations.
Require Import V.Lib.PyStr V.Lib.JTree V.Conf.Model V.Cache.Model.
Open Scope string_scope.

Definition r_comp (n : string) (s : Z) (args x : string) : jv :=
  JDict [("name", JStr n); ("stage", JInt s);
         ("command", JDict [("executable", JStr "e"); ("arguments", JStr args)]);
         ("variables", JDict [("x", JStr x)])].
Definition r_vars (ps : list (string * string)) : jv :=
  JDict (map (fun pg => (fst pg, JDict [("global", JDict [("g", JStr (snd pg))]); ("stages", JDict [])])) ps).
Definition r_doc (ps : list (string * string)) (cs : list jv) : doc :=
  {| d_blueprint := JDict []; d_variables := r_vars ps; d_components := cs |}.
Definition start (d : doc) : state := {| s_doc := d; s_cache := [] |}.

(* F8 (repaired by b0741d3): with the pattern of the pinned code — the component name used as a regular
   expression — the well-formed history  query; set_component_variable; query  on component `a+b` answers the
   second query with the configuration cached before the update: the pattern `...:a+b` does not match the label
   `...:a+b`, so the entry is never invalidated. *)
Theorem C08_regex_refuted : exists (d : doc) (pre : list op) (p : string) (s : Z) (n : string),
  forallb op_ok pre = true /\ plat_ok p = true /\
  pinned_matches s n (key p s n) = false /\
  nth_error (snd (run pinned_matches (JDict []) (start d) (pre ++ [Query p s n]))) (length pre)
  <> Some (ORes (qresolve (JDict []) (doc_after d pre) p s n)).
Proof.
  exists (r_doc [("default", "G"); ("p", "GP")] [r_comp "a+b" 0 "%(x)s %(g)s" "1"]),
         [Query "p" 0 "a+b"; SetCompVar 0 "a+b" "x" (JStr "2")], "p", 0%Z, "a+b".
  vm_compute. repeat split; congruence.
Qed.
Print Assumptions C08_regex_refuted.

(* F8b (open): the hypothesis plat_ok of C08_fresh cannot be dropped.  Platform `p:stage0:x` with component
   (1, y) and platform `p` with component (0, x:stage1:y) share the label component:p:stage0:x:stage1:y: the
   second query is answered with the configuration of the first. *)
Theorem C08_key_collision_refuted : exists (d : doc) (pre : list op) (p : string) (s : Z) (n : string),
  forallb op_ok pre = true /\
  nth_error (snd (run lit_matches (JDict []) (start d) (pre ++ [Query p s n]))) (length pre)
  <> Some (ORes (qresolve (JDict []) (doc_after d pre) p s n)).
Proof.
  exists (r_doc [("default", "G"); ("p", "GP"); ("p:stage0:x", "GX")]
                [r_comp "x:stage1:y" 0 "%(g)s first" "1"; r_comp "y" 1 "%(g)s second" "1"]),
         [Query "p" 0 "x:stage1:y"], "p:stage0:x", 1%Z, "y".
  vm_compute. split; congruence.
Qed.
Print Assumptions C08_key_collision_refuted.

(* The hypothesis op_ok cannot be dropped either: update_component with a definition that carries another name
   leaves the object answering for an identity the description no longer contains (the caller broke the
   interface; not a finding). *)
Theorem C08_rename_refuted : exists (d : doc) (pre : list op) (p : string) (s : Z) (n : string),
  plat_ok p = true /\
  nth_error (snd (run lit_matches (JDict []) (start d) (pre ++ [Query p s n]))) (length pre)
  <> Some (ORes (qresolve (JDict []) (doc_after d pre) p s n)).
Proof.
  exists (r_doc [("default", "G"); ("p", "GP")] [r_comp "foo" 0 "%(x)s" "1"; r_comp "bar" 0 "%(x)s" "b"]),
         [Query "p" 0 "bar"; ReplaceComp 0 "foo" (r_comp "bar" 0 "%(x)s" "renamed")], "p", 0%Z, "bar".
  vm_compute. split; congruence.
Qed.
Print Assumptions C08_rename_refuted.

(* F8e (repaired: the mutators store private copies): for the pinned code, which kept the caller's object inside
   the description, a later in-place change of that object by the caller is a write through a live reference
   ([pinned_op]).  History: query; update_component(new); query; the caller sets new['command']['arguments'];
   query — the last answer is the configuration cached before the caller's change although the description the
   object now holds resolves to another one.  (For the repaired code the same history is covered by
   C08_fresh_from / C08_args_private: MutateArg is not an operation on the object.) *)
Theorem C08_alias_refuted : exists (d : doc) (pre : list op) (p : string) (s : Z) (n : string),
  ok_hist pre = true /\ plat_ok p = true /\
  let st := fst (run lit_matches (JDict []) (start d) (map pinned_op pre)) in
  snd (step lit_matches (JDict []) st (Query p s n)) <> ORes (qresolve (JDict []) (s_doc st) p s n).
Proof.
  exists (r_doc [("default", "G"); ("p", "GP")] [r_comp "foo" 0 "%(x)s %(g)s" "1"]),
         [Query "p" 0 "foo"; ReplaceComp 0 "foo" (r_comp "foo" 0 "A %(x)s" "2"); Query "p" 0 "foo";
          MutateArg 0 "foo" ["command"; "arguments"] (JStr "B")], "p", 0%Z, "foo".
  vm_compute. repeat split; congruence.
Qed.
Print Assumptions C08_alias_refuted.

(* The discipline [ok_hist] of C08_fresh_from cannot be dropped: a write through a live reference
   (get_components(return_copy=False), or a dictionary obtained from get_component(.., return_copy=False) BEFORE
   the query) that is not followed by invalidate_cache_for_component leaves the cached configuration in place.
   return_copy=False asks for "the actual dictionary": by design, the caller's responsibility — not a finding. *)
Theorem C08_live_ref_refuted : exists (d : doc) (pre : list op) (p : string) (s : Z) (n : string),
  plat_ok p = true /\
  nth_error (snd (run lit_matches (JDict []) (start d) (pre ++ [Query p s n]))) (length pre)
  <> Some (ORes (qresolve (JDict []) (doc_after d pre) p s n)).
Proof.
  exists (r_doc [("default", "G"); ("p", "GP")] [r_comp "foo" 0 "%(x)s %(g)s" "1"]),
         [Query "p" 0 "foo"; LiveWrite 0 "foo" ["command"; "arguments"] (JStr "B")], "p", 0%Z, "foo".
  vm_compute. split; congruence.
Qed.
Print Assumptions C08_live_ref_refuted.

(* The same for a reference to the global variables of a platform kept across a query
   (get_platform_global_variables(p, return_copy=False) clears the cache when it hands the dictionary out, not
   when the caller writes into it). *)
Theorem C08_live_var_refuted : exists (d : doc) (pre : list op) (p : string) (s : Z) (n : string),
  plat_ok p = true /\
  nth_error (snd (run lit_matches (JDict []) (start d) (pre ++ [Query p s n]))) (length pre)
  <> Some (ORes (qresolve (JDict []) (doc_after d pre) p s n)).
Proof.
  exists (r_doc [("default", "G"); ("p", "GP")] [r_comp "foo" 0 "%(x)s %(g)s" "1"]),
         [Query "p" 0 "foo"; LiveVarWrite "p" "g" (JStr "B")], "p", 0%Z, "foo".
  vm_compute. split; congruence.
Qed.
Print Assumptions C08_live_var_refuted.
