(* C17 — ONE FlowIRExperimentConfiguration object that is asked several times while its inputs change.

   Executable model (definitions only) of what the configuration object holds after
     FlowIRExperimentConfiguration(concrete=FlowIRConcrete(document, platform), platform, primitive,
       system_vars)                                                              conf.py __init__
     parametrize(platform, systemvars, primitive): self._concrete is REBUILT from
       self._original_flowir_0 (the document the object was created from) for the new platform,
       replicated again when not primitive; self._system_vars replaced           conf.py parametrize/_load_concrete
     add_environment(name, environment, platform=None) -> FlowIRConcrete.add_environment: the name is
       lower-cased; FlowIREnvironmentExists when the target platform already files it (or the name is
       "none"), else filed in the table of the target platform of the object's CURRENT FlowIRConcrete
       (so a later parametrize() drops it)                                        frontends/flowir.py
     a changed launch environment (os.environ is read when the environment is built)
   and of the questions environmentForNode / environmentWithName / defaultEnvironment, which are the
   functions of Env.Model / Env.InstModel applied to the CURRENT state: nothing of an earlier state. *)
From Coq Require Import String Ascii List Bool ZArith.
Import ListNotations.
Require Import V.Lib.PyStr V.Env.Model V.Env.InstModel.
Open Scope string_scope.
Open Scope list_scope.

(* the package document: environments and global variables per platform *)
Record doc3 := { envs3 : list (string * envtab); globs3 : list (string * rctx) }.

Definition tab_of (d : doc3) (p : string) : envtab :=
  match lookup p (envs3 d) with Some t => t | None => [] end.
Definition glob_of (d : doc3) (p : string) : rctx :=
  match lookup p (globs3 d) with Some t => t | None => [] end.

(* the document seen from one platform *)
Definition view (d : doc3) (sv : map) (plat : string) : vcfg :=
  {| base := {| is_default := String.eqb plat "default"; denvs := tab_of d "default";
                penvs := tab_of d plat; sysv := sv |};
     dglob := glob_of d "default"; pglob := glob_of d plat |}.

(* what a configuration object holds right after __init__ / parametrize *)
Definition configure (d : doc3) (plat : string) (np : bool) (sv : map) : vcfg := route np (view d sv plat).

Definition with_envs (v : vcfg) (de pe : envtab) : vcfg :=
  {| base := {| is_default := is_default (base v); denvs := de; penvs := pe; sysv := sysv (base v) |};
     dglob := dglob v; pglob := pglob v |}.

(* add_environment(name, e, platform): on_default = the target is platform default (explicitly);
   otherwise the target is the active platform.  None = FlowIREnvironmentExists.
   The tables written are the ones FlowIRConcrete holds (after from_dict: D / P). *)
Definition add_environment (v : vcfg) (on_default : bool) (name : string) (e : rawenv) : option vcfg :=
  let c := base v in
  let n := lower name in
  if on_default || is_default c then
    match gpe (D c) n with
    | Some _ => None
    | None => Some (with_envs v (set n e (D c)) (if is_default c then set n e (D c) else penvs c))
    end
  else
    match gpe (P c) n with
    | Some _ => None
    | None => Some (with_envs v (denvs c) (set n e (P c)))
    end.

(* ------------------------------------------------------------------ the object over time *)
Record cstate := { st_cfg : vcfg; st_launch : map }.

Inductive change :=
| ChParam (plat : string) (np : bool) (sv : map)                (* parametrize(platform, systemvars, primitive) *)
| ChAdd (on_default : bool) (name : string) (e : rawenv)        (* add_environment (an Exists error changes nothing) *)
| ChLaunch (l : map).                                           (* os.environ replaced *)

Definition apply_change (d : doc3) (s : cstate) (ch : change) : cstate :=
  match ch with
  | ChParam plat np sv => {| st_cfg := configure d plat np sv; st_launch := st_launch s |}
  | ChAdd od name e => {| st_cfg := match add_environment (st_cfg s) od name e with Some v => v | None => st_cfg s end;
                          st_launch := st_launch s |}
  | ChLaunch l => {| st_cfg := st_cfg s; st_launch := l |}
  end.

Definition run_changes (d : doc3) (s : cstate) (chs : list change) : cstate := fold_left (apply_change d) chs s.

Definition init_state (d : doc3) (plat : string) (np : bool) (sv launch : map) : cstate :=
  {| st_cfg := configure d plat np sv; st_launch := launch |}.

(* the questions, answered from the current state only *)
Definition ask_node (s : cstate) (name : option string) (interp_ : bool) : res3 :=
  env_for_node_v (st_cfg s) (st_launch s) name interp_.
Definition ask_name (s : cstate) (name : option string) (expand : bool) : res3 :=
  match env_with_name_c (base (st_cfg s)) (st_launch s) name expand with
  | ErrUnknown => ErrEnv
  | Ok env => Ok3 env
  end.
Definition ask_default (s : cstate) : map := default_environment (base (st_cfg s)) (st_launch s).

(* ------------------------------------------------------------------ comparison with the implementation *)
Inductive question :=
| QNode (name : option string) (interp_ : bool) (full unexp : res3)   (* environmentForNode(component) + environmentWithName(its name, expand=False) *)
| QName (name : option string) (expanded : res3)                      (* environmentWithName(name) *)
| QDefault (out : map)                                                (* defaultEnvironment() *)
| QAdd (on_default : bool) (name : string) (e : rawenv) (stored : bool).  (* did add_environment store it (false = FlowIREnvironmentExists) *)

(* one question of one long-lived object: the document it was created from, how it was created, the
   changes made before the question, the question with the implementation's answer *)
Definition check_conf_answer (k : doc3 * (string * bool * map * map) * list change * question) : bool :=
  let '(d, (plat, np, sv, launch), chs, q) := k in
  let s := run_changes d (init_state d plat np sv launch) chs in
  match q with
  | QNode name i full unexp => res3_eqb full (ask_node s name i) && res3_eqb unexp (ask_name s name false)
  | QName name out => res3_eqb out (ask_name s name true)
  | QDefault out => map_eqb out (ask_default s)
  | QAdd od name e stored =>
      Bool.eqb stored (match add_environment (st_cfg s) od name e with Some _ => true | None => false end)
  end.
