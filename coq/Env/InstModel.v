(* C17 — the NON-PRIMITIVE route and the %(variable)s references inside environment values.

   Executable model (definitions only) of
     FlowIR.interpolate / FlowIR.fill_in on the fragment "literal text without '%' and '[' +
       %(name)s references, names without '.', no cyclic definitions"          frontends/flowir.py
     the environment part of FlowIRConcrete.instance() (and so replicate()):
       global variables of the platform, layering of the environments of the selected platform
       over platform default, interpolation of every environment                frontends/flowir.py
     FlowIRExperimentConfiguration.replicate(): the configuration is rebuilt from the replicated
       document                                                                 conf.py
     the FlowIR.fill_in at the end of environmentForNode (context: global variables + the built
       environment), which may raise FlowIRVariableUnknown                       conf.py
   read line by line from the pinned code.

   The interpolation context of an environment is the global variables of the platform (platform
   default's, overridden by the selected platform's) updated by THAT environment's own variables:
   nothing of any other environment ([fill_env]). *)
From Coq Require Import String Ascii List Bool ZArith.
Import ListNotations.
Require Import V.Lib.PyStr V.Env.Model.
Open Scope string_scope.
Open Scope list_scope.

Definition rctx := list (string * raw).          (* an interpolation context: name -> YAML scalar *)

(* ------------------------------------------------------------------ %(name)s scanning
   FlowIR.VariablePattern = %\([a-zA-Z0-9_.-]+\)s ; the character class is greedy and excludes ")",
   so there is nothing to backtrack to. *)
Definition var_char (a : ascii) : bool := id_char a || Ascii.eqb a "."%char || Ascii.eqb a "-"%char.

Definition pct_look (r : string) : option (tok * nat) :=
  match r with
  | EmptyString => None
  | String c r' =>
      if Ascii.eqb c "("%char then
        let name := take_while var_char r' in
        if negb (String.eqb name "") && prefixb ")s" (drop (String.length name) r')
        then Some (TRef name ("%(" ++ name ++ ")s")%string, String.length name + 3) else None
      else None
  end.

(* like Model.scan, the trigger character is "%" *)
Fixpoint pscan (skip : nat) (s : string) : list tok :=
  match s with
  | EmptyString => []
  | String c r =>
      match skip with
      | S k => pscan k r
      | O => if Ascii.eqb c "%"%char then
               match pct_look r with
               | Some (t, n) => t :: pscan n r
               | None => TChar "%"%char :: pscan 0 r
               end
             else TChar c :: pscan 0 r
      end
  end.

(* all references resolved, or None (FlowIRVariableUnknown raised) *)
Fixpoint render_strict (res : string -> option string) (ts : list tok) : option string :=
  match ts with
  | [] => Some ""
  | TChar c :: r => option_map (String c) (render_strict res r)
  | TRef n _ :: r => match res n, render_strict res r with
                     | Some v, Some t => Some (v ++ t)%string
                     | _, _ => None
                     end
  end.

(* ignore_errors=True: a reference that cannot be resolved stays as it was written *)
Fixpoint render_lenient (res : string -> option string) (ts : list tok) : string :=
  match ts with
  | [] => ""
  | TChar c :: r => String c (render_lenient res r)
  | TRef n w :: r => ((match res n with Some v => v | None => w end) ++ render_lenient res r)%string
  end.

(* resolve_using_symbol_table: the value of the variable, itself interpolated (strictly) in the same
   context; numbers and booleans by repr().  A null value raises FlowIRVariableInvalid in the code:
   outside the fragment, None here. *)
Definition resolve_with (rec : string -> option string) (ctx : rctx) (name : string) : option string :=
  match lookup name ctx with
  | None => None
  | Some RNull => None
  | Some (RStr v) => rec v
  | Some r => Some (to_str r)
  end.

(* FlowIR.interpolate(s, ctx) with ignore_errors=False.  fuel bounds the depth of the chain of
   definitions (the code recurses without bound: a cyclic definition is a RecursionError there) *)
Fixpoint interp (fuel : nat) (ctx : rctx) (s : string) : option string :=
  match fuel with
  | O => None
  | S f => render_strict (resolve_with (interp f ctx) ctx) (pscan 0 s)
  end.

(* FlowIR.interpolate(s, ctx) with ignore_errors=True: nested definitions are still resolved strictly *)
Definition interp_ign (fuel : nat) (ctx : rctx) (s : string) : string :=
  render_lenient (resolve_with (interp fuel ctx) ctx) (pscan 0 s).

Definition FUEL : nat := 40.

(* FlowIR.fill_in of one scalar of a dictionary: only strings are interpolated *)
Definition fill_keep (ctx : rctx) (r : raw) : raw :=      (* interpolate(); on FlowIRVariableUnknown keep *)
  match r with
  | RStr v => match interp FUEL ctx v with Some t => RStr t | None => r end
  | _ => r
  end.
Definition fill_ign (ctx : rctx) (r : raw) : raw :=       (* fill_in(ignore_errors=True) *)
  match r with
  | RStr v => RStr (interp_ign FUEL ctx v)
  | _ => r
  end.

(* ------------------------------------------------------------------ configuration with variables *)
Record vcfg := {
  base : cfg;
  dglob : rctx;          (* variables.default.global *)
  pglob : rctx           (* variables.<selected platform>.global (ignored when the platform is default) *)
}.

(* instance(): global_variables = default's (if platform != default) updated by the platform's; each
   interpolated strictly in that dictionary (kept when unknown); later FlowIR.fill_in(ignore_errors) *)
Definition inst_globals (v : vcfg) : rctx :=
  let g0 := if is_default (base v) then update [] (dglob v) else update (dglob v) (pglob v) in
  let g1 := List.map (fun kv => (fst kv, fill_keep g0 (snd kv))) g0 in
  List.map (fun kv => (fst kv, fill_ign g1 (snd kv))) g1.

(* environments = default_environments; for name in platform_environments:
     both dictionaries -> environments[name].update(platform_environments[name]) else environments[name] = ... *)
Definition layer_step (acc : envtab) (ne : string * rawenv) : envtab :=
  match lookup (fst ne) acc with
  | Some d => set (fst ne) (update d (snd ne)) acc
  | None => set (fst ne) (snd ne) acc
  end.
Definition inst_layer (c : cfg) : envtab :=
  fold_left layer_step (P c) (if is_default c then [] else D c).

(* for env_name in environments: env_variables = global_variables.copy(); env_variables.update(environment)
   fill_in(environment, context=environment, ignore_errors=True); fill_in(environment, context=env_variables)
   (with ignore_errors=True as replicate() does; on the fragment the two passes are one lenient pass
   in the context "globals updated by this environment") *)
Definition fill_env (g : rctx) (e : rawenv) : rawenv :=
  let ctx := update g e in List.map (fun kv => (fst kv, fill_ign ctx (snd kv))) e.

(* instance(platform)[environments][default] *)
Definition inst_envs (v : vcfg) : envtab :=
  List.map (fun ne => (fst ne, fill_env (inst_globals v) (snd ne))) (inst_layer (base v)).

(* FlowIRExperimentConfiguration.replicate(): FlowIRConcrete(replicated document): the environments
   and the global variables live on platform default only *)
Definition replicated (v : vcfg) : vcfg :=
  {| base := {| is_default := is_default (base v); denvs := inst_envs v; penvs := []; sysv := sysv (base v) |};
     dglob := inst_globals v;
     pglob := [] |}.

(* ------------------------------------------------------------------ environmentForNode with fill_in *)
Inductive res3 := Ok3 (m : map) | ErrEnv | ErrVar.   (* FlowIREnvironmentUnknown / FlowIRVariableUnknown *)

Fixpoint fill_all (ctx : rctx) (env : map) : option map :=
  match env with
  | [] => Some []
  | (k, s) :: r => match interp FUEL ctx s, fill_all ctx r with
                   | Some t, Some r' => Some ((k, t) :: r')
                   | _, _ => None
                   end
  end.

(* context = {}; update(default globals); update(globals of the active platform); update(env) *)
Definition node_ctx (v : vcfg) (env : map) : rctx :=
  update (update (update [] (dglob v)) (if is_default (base v) then dglob v else pglob v))
         (List.map (fun kv => (fst kv, RStr (snd kv))) env).

Definition env_for_node_v (v : vcfg) (launch : map) (name : option string) (interp_ : bool) : res3 :=
  match env_with_name_c (base v) launch name true with
  | ErrUnknown => ErrEnv
  | Ok env =>
      match fill_all (node_ctx v env) env with
      | None => ErrVar
      | Some env' => Ok3 (if interp_ then update env' (interp_vars PATH_VARS launch env') else env')
      end
  end.

Definition env_with_name_v (v : vcfg) (launch : map) (name : option string) : res3 :=
  match env_with_name_c (base v) launch name false with
  | ErrUnknown => ErrEnv
  | Ok env => Ok3 env
  end.

(* the two routes of a FlowIRExperimentConfiguration built for the selected platform *)
Definition route (nonprim : bool) (v : vcfg) : vcfg := if nonprim then replicated v else v.

(* ------------------------------------------------------------------ comparison with the implementation *)
Definition raw_eqb (a b : raw) : bool :=
  match a, b with
  | RNull, RNull => true
  | RStr s, RStr t => String.eqb s t
  | RInt x, RInt y => Z.eqb x y
  | RBool x, RBool y => Bool.eqb x y
  | _, _ => false
  end.
Fixpoint sub_raw (a b : rawenv) : bool :=
  match a with
  | [] => true
  | (k, v) :: r => match lookup k b with Some v' => raw_eqb v v' | None => false end && sub_raw r b
  end.
Definition rawenv_eqb (a b : rawenv) : bool := Nat.eqb (length a) (length b) && sub_raw a b && sub_raw b a.
Fixpoint sub_tab (a b : envtab) : bool :=
  match a with
  | [] => true
  | (n, e) :: r => match lookup n b with Some e' => rawenv_eqb e e' | None => false end && sub_tab r b
  end.
Definition tab_eqb (a b : envtab) : bool := Nat.eqb (length a) (length b) && sub_tab a b && sub_tab b a.

Definition res3_eqb (impl model : res3) : bool :=
  match impl, model with
  | Ok3 a, Ok3 b => map_eqb a b
  | ErrEnv, ErrEnv => true
  | ErrVar, ErrVar => true
  | _, _ => false
  end.

(* one answer of one object (the configuration is the ORIGINAL document seen from the platform of the question) *)
Inductive answer :=
| AInst (out : envtab)                                      (* instance()/replicate() [environments][default] *)
| AGet (name : string) (out : option map)                   (* get_environment(name, platform) *)
| ANode (nonprim : bool) (name : option string) (interp_ : bool) (full unexp : res3).

Definition check_answer (k : vcfg * map * answer) : bool :=
  let '(v, launch, a) := k in
  match a with
  | AInst out => tab_eqb out (inst_envs v)
  | AGet name out => res_eqb out (get_environment (base v) name)
  | ANode np name i full unexp =>
      res3_eqb full (env_for_node_v (route np v) launch name i) &&
      res3_eqb unexp (env_with_name_v (route np v) launch name)
  end.
