(* C17 — what the two substitution functions (Model.tm_sub = string.Template.safe_substitute,
   Model.os_expand = posixpath.expandvars) do to the references the property talks about, and on which
   launch variables the task environment can depend at all. *)
From Coq Require Import String Ascii List Bool Lia.
Import ListNotations.
Require Import V.Lib.PyStr V.Env.Model V.Env.Proofs.
Open Scope list_scope.
Open Scope string_scope.

Definition nodollar (s : string) : bool := all_chars (fun c => negb (Ascii.eqb c "$"%char)) s.
Definition nobrace (s : string) : bool := all_chars (fun c => negb (Ascii.eqb c "}"%char)) s.
(* the text after a $NAME reference does not continue the name *)
Definition ends_name (post : string) : bool :=
  match post with EmptyString => true | String c _ => negb (id_char c) end.

(* ------------------------------------------------------------------ the scanner *)
Lemma scan_skip look a : forall n b, String.length a = n -> scan look n (a ++ b) = scan look 0 b.
Proof.
  induction a as [|c a IH]; intros n b H; cbn in H; subst n; [reflexivity|].
  cbn [append scan]. apply IH. reflexivity.
Qed.

Lemma scan_dollar look r :
  scan look 0 (String "$"%char r) =
  match look r with
  | Some (t, n) => t :: scan look n r
  | None => TChar "$"%char :: scan look 0 r
  end.
Proof. reflexivity. Qed.

Lemma render_all_app m (a b : list tok) : render_all m (a ++ b)%list = render_all m a ++ render_all m b.
Proof. induction a as [|t a IH]; cbn [app render_all]; [reflexivity|]. rewrite IH, append_assoc. reflexivity. Qed.

(* text without "$" goes through unchanged, whatever follows it *)
Lemma expand_lit_prefix look m pre s : nodollar pre = true ->
  render_all m (scan look 0 (pre ++ s)) = pre ++ render_all m (scan look 0 s).
Proof.
  induction pre as [|c pre IH]; intros H; [reflexivity|].
  cbn in H. apply andb_true_iff in H as [Hc Hp]. apply negb_true_iff in Hc.
  cbn [append scan]. rewrite Hc. cbn [render_all render append]. rewrite IH by exact Hp. reflexivity.
Qed.

Lemma expand_literal look m s : nodollar s = true -> render_all m (scan look 0 s) = s.
Proof.
  intros H. pose proof (expand_lit_prefix look m s "" H) as E. rewrite append_nil_r in E.
  rewrite E. cbn. apply append_nil_r.
Qed.

Lemma take_while_app p X t : all_chars p X = true ->
  match t with EmptyString => true | String c _ => negb (p c) end = true ->
  take_while p (X ++ t) = X.
Proof.
  intros HX Ht. induction X as [|a X IH]; cbn [append take_while].
  - destruct t as [|c t]; [reflexivity|]. cbn. apply negb_true_iff in Ht. rewrite Ht. reflexivity.
  - cbn in HX. apply andb_true_iff in HX as [Ha HX]. rewrite Ha, IH by exact HX. reflexivity.
Qed.

Lemma drop_app X t : drop (String.length X) (X ++ t) = t.
Proof. induction X as [|a X IH]; cbn; [reflexivity|exact IH]. Qed.

Lemma all_chars_impl (p q : ascii -> bool) s :
  (forall c, p c = true -> q c = true) -> all_chars p s = true -> all_chars q s = true.
Proof.
  intros Hi. induction s as [|a s IH]; cbn; [reflexivity|].
  intros H. apply andb_true_iff in H as [Ha Hs]. rewrite (Hi a Ha), IH by exact Hs. reflexivity.
Qed.

Lemma id_char_not_special c : id_char c = true ->
  Ascii.eqb c "$"%char = false /\ Ascii.eqb c "{"%char = false /\ Ascii.eqb c "}"%char = false.
Proof. destruct c as [[] [] [] [] [] [] [] []]; cbn; intros H; try discriminate H; repeat split. Qed.

Lemma is_ident_chars X : is_ident X = true -> all_chars id_char X = true /\ X <> "".
Proof.
  destruct X as [|a r]; cbn; [discriminate|]. intros H. apply andb_true_iff in H as [Ha Hr].
  split; [|discriminate]. unfold id_char at 1. rewrite Ha, Hr. reflexivity.
Qed.

Lemma upto_close_app X post : nobrace X = true -> upto_close (X ++ String "}"%char post) = Some X.
Proof.
  induction X as [|a X IH]; cbn [append upto_close]; intros H.
  - reflexivity.
  - cbn in H. apply andb_true_iff in H as [Ha HX]. apply negb_true_iff in Ha. rewrite Ha, IH by exact HX. reflexivity.
Qed.

Definition val (m : map) (X raw : string) : string := match lookup X m with Some v => v | None => raw end.

(* ------------------------------------------------------------------ string.Template.safe_substitute *)
Lemma braced_split X post : String "{"%char (X ++ String "}"%char post) = (String "{"%char (X ++ "}")) ++ post.
Proof. cbn [append]. rewrite append_assoc. reflexivity. Qed.

Lemma braced_len X : String.length (String "{"%char (X ++ "}")) = String.length X + 2.
Proof. cbn [String.length]. rewrite length_append. cbn. lia. Qed.

Lemma tm_braced m X post : is_ident X = true ->
  tm_sub m ("${" ++ X ++ "}" ++ post) = val m X ("${" ++ X ++ "}") ++ tm_sub m post.
Proof.
  intros H. destruct (is_ident_chars X H) as [Hc _]. unfold tm_sub.
  change ("${" ++ X ++ "}" ++ post) with (String "$"%char (String "{"%char (X ++ String "}"%char post))).
  rewrite scan_dollar.
  assert (L : tm_look (String "{"%char (X ++ String "}"%char post)) =
              Some (TRef X ("${" ++ X ++ "}"), String.length X + 2)).
  { unfold tm_look. change (Ascii.eqb "{"%char "$"%char) with false. change (Ascii.eqb "{"%char "{"%char) with true.
    cbv iota zeta. rewrite take_while_app by (try exact Hc; reflexivity).
    rewrite H, drop_app. reflexivity. }
  rewrite L. cbn [render_all render]. fold (val m X ("${" ++ X ++ "}")).
  rewrite braced_split, (scan_skip tm_look _ _ post (braced_len X)). reflexivity.
Qed.

Lemma tm_named m X post : is_ident X = true -> ends_name post = true ->
  tm_sub m ("$" ++ X ++ post) = val m X ("$" ++ X) ++ tm_sub m post.
Proof.
  intros H Hp. destruct (is_ident_chars X H) as [Hc Hne]. unfold tm_sub.
  change ("$" ++ X ++ post) with (String "$"%char (X ++ post)).
  rewrite scan_dollar.
  assert (L : tm_look (X ++ post) = Some (TRef X ("$" ++ X), String.length X)).
  { assert (T : take_while id_char (X ++ post) = X).
    { apply take_while_app; [exact Hc|]. destruct post; [reflexivity|exact Hp]. }
    destruct X as [|a r]; [contradiction|]. cbn [append] in *. unfold tm_look.
    cbn in Hc. apply andb_true_iff in Hc as [Ha _]. destruct (id_char_not_special a Ha) as [E1 [E2 _]].
    rewrite E1, E2. cbv zeta. rewrite T, H. reflexivity. }
  rewrite L. cbn [render_all render]. fold (val m X ("$" ++ X)).
  rewrite (scan_skip tm_look X _ post eq_refl). reflexivity.
Qed.

Lemma tm_escape m post : tm_sub m ("$$" ++ post) = "$" ++ tm_sub m post.
Proof. reflexivity. Qed.

(* ------------------------------------------------------------------ posixpath.expandvars *)
Lemma os_braced m X post : nobrace X = true ->
  os_expand m ("${" ++ X ++ "}" ++ post) = val m X ("${" ++ X ++ "}") ++ os_expand m post.
Proof.
  intros H. unfold os_expand.
  change ("${" ++ X ++ "}" ++ post) with (String "$"%char (String "{"%char (X ++ String "}"%char post))).
  rewrite scan_dollar.
  assert (L : os_look (String "{"%char (X ++ String "}"%char post)) =
              Some (TRef X ("${" ++ X ++ "}"), String.length X + 2)).
  { unfold os_look. change (Ascii.eqb "{"%char "{"%char) with true. cbv iota.
    rewrite upto_close_app by exact H. reflexivity. }
  rewrite L. cbn [render_all render]. fold (val m X ("${" ++ X ++ "}")).
  rewrite braced_split, (scan_skip os_look _ _ post (braced_len X)). reflexivity.
Qed.

Lemma os_named m X post : all_chars id_char X = true -> X <> "" -> ends_name post = true ->
  os_expand m ("$" ++ X ++ post) = val m X ("$" ++ X) ++ os_expand m post.
Proof.
  intros Hc Hne Hp. unfold os_expand.
  change ("$" ++ X ++ post) with (String "$"%char (X ++ post)).
  rewrite scan_dollar.
  assert (L : os_look (X ++ post) = Some (TRef X ("$" ++ X), String.length X)).
  { assert (T : take_while id_char (X ++ post) = X).
    { apply take_while_app; [exact Hc|]. destruct post; [reflexivity|exact Hp]. }
    destruct X as [|a r]; [contradiction|]. cbn [append] in *. unfold os_look.
    cbn in Hc. apply andb_true_iff in Hc as [Ha _]. destruct (id_char_not_special a Ha) as [_ [E2 _]].
    rewrite E2. cbv zeta. rewrite T. reflexivity. }
  rewrite L. cbn [render_all render]. fold (val m X ("$" ++ X)).
  rewrite (scan_skip os_look X _ post eq_refl). reflexivity.
Qed.

(* "$$" is not an escape for expandvars: the first "$" stays, the second starts afresh *)
Lemma os_dollar_dollar m post : os_expand m ("$$" ++ post) = "$" ++ os_expand m ("$" ++ post).
Proof. reflexivity. Qed.

Lemma is_ident_nobrace X : is_ident X = true -> nobrace X = true.
Proof.
  intros H. destruct (is_ident_chars X H) as [Hc _]. unfold nobrace.
  apply (all_chars_impl id_char); [|exact Hc]. intros c Hcc.
  destruct (id_char_not_special c Hcc) as [_ [_ E]]. rewrite E. reflexivity.
Qed.

(* ------------------------------------------------------------------ the order of expansion *)
(* A value  pre ${X} post  (pre without "$"): X is taken from the environment itself when it defines X
   (its unexpanded value, which expandvars then scans together with what follows; the launch value of X
   plays no role); otherwise from the launch environment, verbatim; otherwise the reference stays. *)
Lemma reference_order env launch pre X post : nodollar pre = true -> is_ident X = true ->
  os_expand launch (tm_sub env (pre ++ "${" ++ X ++ "}" ++ post)) =
  match lookup X env with
  | Some v => pre ++ os_expand launch (v ++ tm_sub env post)
  | None => pre ++ val launch X ("${" ++ X ++ "}") ++ os_expand launch (tm_sub env post)
  end.
Proof.
  intros Hp HX. unfold tm_sub at 1. rewrite expand_lit_prefix by exact Hp. fold (tm_sub env ("${" ++ X ++ "}" ++ post)).
  rewrite tm_braced by exact HX. unfold val at 1. destruct (lookup X env) as [v|].
  - unfold os_expand at 1. rewrite expand_lit_prefix by exact Hp. reflexivity.
  - unfold os_expand at 1. rewrite expand_lit_prefix by exact Hp.
    fold (os_expand launch (("${" ++ X ++ "}") ++ tm_sub env post)).
    assert (A : ("${" ++ X ++ "}") ++ tm_sub env post = "${" ++ X ++ "}" ++ tm_sub env post)
      by (cbn [append]; rewrite append_assoc; reflexivity).
    rewrite A, os_braced by (apply is_ident_nobrace; exact HX). reflexivity.
Qed.

Lemma literal_value env launch v : nodollar v = true -> os_expand launch (tm_sub env v) = v.
Proof.
  intros H. unfold tm_sub. rewrite expand_literal by exact H. unfold os_expand. apply expand_literal. exact H.
Qed.

(* ------------------------------------------------------------------ which launch variables matter *)
Fixpoint refs (ts : list tok) : list string :=
  match ts with
  | [] => []
  | TChar _ :: r => refs r
  | TRef n _ :: r => n :: refs r
  end.
(* the names posixpath.expandvars looks up while expanding s *)
Definition os_refs (s : string) : list string := refs (scan os_look 0 s).

Definition agree_on (names : list string) (l l' : map) : Prop := forall n, In n names -> lookup n l = lookup n l'.

Lemma render_ext m m' ts : agree_on (refs ts) m m' -> render_all m ts = render_all m' ts.
Proof.
  induction ts as [|t r IH]; intros H; cbn [render_all]; [reflexivity|].
  destruct t as [c|n raw]; cbn [refs] in H.
  - rewrite IH by exact H. reflexivity.
  - cbn [render]. rewrite (H n (or_introl eq_refl)), IH; [reflexivity|].
    intros x Hx. apply H. right. exact Hx.
Qed.

Lemma os_expand_ext l l' s : agree_on (os_refs s) l l' -> os_expand l s = os_expand l' s.
Proof. apply render_ext. Qed.

Lemma apply_defaults_ext tsub names l l' env : agree_on names l l' ->
  apply_defaults tsub names l env = apply_defaults tsub names l' env.
Proof.
  revert env. induction names as [|v r IH]; intros env H; cbn [apply_defaults]; [reflexivity|].
  rewrite <- (H v (or_introl eq_refl)).
  assert (Hr : agree_on r l l') by (intros x Hx; apply H; right; exact Hx).
  destruct (lookup v l); [|apply IH; exact Hr]. apply IH. exact Hr.
Qed.

Lemma defaults_step_ext tsub l l' env : agree_on (defaults_names env) l l' ->
  defaults_step tsub l env = defaults_step tsub l' env.
Proof.
  intros H. unfold defaults_step. destruct (lookup LBL_DEFAULTS env); [|reflexivity].
  rewrite (apply_defaults_ext tsub _ l l' env H). reflexivity.
Qed.

Lemma interp_vars_ext vars l l' env : agree_on vars l l' -> interp_vars vars l env = interp_vars vars l' env.
Proof.
  induction vars as [|v r IH]; intros H; cbn [interp_vars]; [reflexivity|].
  rewrite <- (H v (or_introl eq_refl)), IH; [reflexivity|]. intros x Hx. apply H. right. exact Hx.
Qed.

Lemma expand_step_ext l l' env :
  (forall k v, In (k, v) env -> agree_on (os_refs (tm_sub env v)) l l') ->
  expand_step tm_sub os_expand l env = expand_step tm_sub os_expand l' env.
Proof.
  intros H. unfold expand_step. apply map_ext_in. intros [k v] Hin. apply filter_In in Hin as [Hin _].
  cbn [fst snd]. rewrite (os_expand_ext l l' _ (H k v Hin)). reflexivity.
Qed.

(* Two launch environments that give the same selected environment and agree on (a) the names the
   environment imports through DEFAULTS, (b) the four search-path variables when the component has an
   interpreter, (c) the names expandvars looks up in the values (after the environment's own
   substitution) build the same task environment: no other launch variable can reach it, neither as
   a variable nor inside a value. *)
Lemma launch_independence fillin c l l' name interp sel :
  selected c l name = Ok sel -> selected c l' name = Ok sel ->
  agree_on (defaults_names (update (sysv c) sel)) l l' ->
  (interp = true -> agree_on PATH_VARS l l') ->
  (forall env k v, env_with_name tm_sub os_expand c l name false = Ok env -> In (k, v) env ->
                   agree_on (os_refs (tm_sub env v)) l l') ->
  env_with_name tm_sub os_expand c l name false = env_with_name tm_sub os_expand c l' name false /\
  env_for_node tm_sub os_expand fillin c l name interp = env_for_node tm_sub os_expand fillin c l' name interp.
Proof.
  intros Hs Hs' Hd Hp Hv.
  assert (E0 : defaults_step tm_sub l (update (sysv c) sel) = defaults_step tm_sub l' (update (sysv c) sel))
    by (apply defaults_step_ext; exact Hd).
  assert (E1 : env_with_name tm_sub os_expand c l name false = Ok (defaults_step tm_sub l (update (sysv c) sel)))
    by (unfold env_with_name; rewrite Hs; reflexivity).
  split.
  - rewrite E1. unfold env_with_name. rewrite Hs', E0. reflexivity.
  - unfold env_for_node, env_with_name. rewrite Hs, Hs', <- E0.
    rewrite (expand_step_ext l l' _ (fun k v => Hv _ k v E1)).
    destruct interp; [|reflexivity]. rewrite (interp_vars_ext PATH_VARS l l' _ (Hp eq_refl)). reflexivity.
Qed.

(* when the selected environment does not depend on the launch environment at all: every case except
   "no selection and no platform declares the default environment" *)
Lemma selected_launch_free c l l' name :
  get_environment c "environment" <> ErrUnknown \/ ~ (norm_name name = "" \/ norm_name name = "environment") ->
  selected c l name = selected c l' name.
Proof.
  intros H. unfold selected, default_environment.
  destruct (String.eqb_spec (norm_name name) "") as [E1|E1];
    destruct (String.eqb_spec (norm_name name) "environment") as [E2|E2]; cbn [orb];
    try reflexivity;
    (destruct (get_environment c "environment"); [reflexivity|]);
    destruct H as [H|H]; try (exfalso; apply H; reflexivity);
    exfalso; apply H; tauto.
Qed.

(* the order of expansion, on a variable of the task environment *)
Lemma reference_in_env c launch name env k pre X post :
  NoDup (keys (sysv c)) ->
  env_with_name tm_sub os_expand c launch name false = Ok env ->
  lookup k env = Some (pre ++ "${" ++ X ++ "}" ++ post) ->
  nodollar pre = true -> is_ident X = true ->
  exists res, env_with_name tm_sub os_expand c launch name true = Ok res /\
    lookup k res = Some match lookup X env with
                        | Some v => pre ++ os_expand launch (v ++ tm_sub env post)
                        | None => pre ++ val launch X ("${" ++ X ++ "}") ++ os_expand launch (tm_sub env post)
                        end.
Proof.
  intros Hs He Hk Hp HX. destruct (expanded_value tm_sub os_expand c launch name env Hs He) as [res [Hr Hl]].
  exists res. split; [exact Hr|]. rewrite Hl, Hk.
  assert (Hne : String.eqb (pre ++ "${" ++ X ++ "}" ++ post) "" = false).
  { destruct pre; reflexivity. }
  rewrite Hne, reference_order by assumption. reflexivity.
Qed.
