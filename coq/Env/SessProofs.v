(* C17 — proofs about one configuration object whose inputs change (Env.SessModel). *)
From Coq Require Import String Ascii List Bool ZArith Lia.
Import ListNotations.
Require Import V.Lib.PyStr V.Env.Model V.Env.Proofs V.Env.Lower V.Env.InstModel V.Env.SessModel.
Open Scope string_scope.
Open Scope list_scope.

(* ------------------------------------------------------------------ from_dict on a table that is already filed *)
Lemma fold_lower_noop ks : (forall k, In k ks -> lower k = k) -> forall acc, fold_left lower_step ks acc = acc.
Proof.
  induction ks as [|n r IH]; intros H acc; cbn [fold_left]; [reflexivity|].
  unfold lower_step at 2. rewrite (H n (or_introl eq_refl)), String.eqb_refl.
  apply IH. intros k Hk. apply H. right. exact Hk.
Qed.

Lemma lower_names_lowered E : (forall k, In k (keys E) -> lower k = k) -> lower_names E = E.
Proof. intros H. unfold lower_names. apply fold_lower_noop. exact H. Qed.

Lemma lower_names_set E n (e : rawenv) : NoDup (keys E) -> lower n = n ->
  lower_names (set n e (lower_names E)) = set n e (lower_names E).
Proof.
  intros Hnd Hn. apply lower_names_lowered. intros k Hk. apply In_keys_set in Hk as [->|Hk]; [exact Hn|].
  eapply held_lower; eassumption.
Qed.

(* ------------------------------------------------------------------ add_environment *)
Definition target_tab (v : vcfg) (od : bool) : envtab :=
  if od || is_default (base v) then D (base v) else P (base v).

Lemma gpe_lower T name : gpe T (lower name) = gpe T name.
Proof. unfold gpe. rewrite lower_idem. reflexivity. Qed.

(* FlowIREnvironmentExists exactly when the target platform already files the name (or the name is "none") *)
Lemma add_exists v od name e :
  add_environment v od name e = None <-> gpe (target_tab v od) name <> None.
Proof.
  unfold add_environment, target_tab. destruct (od || is_default (base v)).
  - rewrite gpe_lower. destruct (gpe (D (base v)) name); split; intros H; try discriminate; try congruence.
  - rewrite gpe_lower. destruct (gpe (P (base v)) name); split; intros H; try discriminate; try congruence.
Qed.

(* what the object holds after a successful add_environment: the target table gained the lower-cased name,
   everything else is as before *)
Lemma add_stored v od name e v' :
  NoDup (keys (denvs (base v))) -> NoDup (keys (penvs (base v))) ->
  add_environment v od name e = Some v' ->
  is_default (base v') = is_default (base v) /\ sysv (base v') = sysv (base v) /\
  dglob v' = dglob v /\ pglob v' = pglob v /\
  (if od || is_default (base v)
   then D (base v') = set (lower name) e (D (base v)) /\ (is_default (base v) = false -> P (base v') = P (base v))
   else D (base v') = D (base v) /\ P (base v') = set (lower name) e (P (base v))).
Proof.
  intros Hd Hp. unfold add_environment.
  destruct (od || is_default (base v)) eqn:Et.
  - destruct (gpe (D (base v)) (lower name)); [discriminate|]. intros [= <-]. cbn.
    do 4 (split; [reflexivity|]). split.
    + unfold D. cbn. apply lower_names_set; [exact Hd|apply lower_idem].
    + intros Hf. unfold P. cbn. rewrite Hf. reflexivity.
  - apply orb_false_iff in Et as [_ Ef].
    destruct (gpe (P (base v)) (lower name)); [discriminate|]. intros [= <-]. cbn.
    do 4 (split; [reflexivity|]). split; [reflexivity|].
    unfold P. cbn. rewrite Ef. apply lower_names_set; [exact Hp|apply lower_idem].
Qed.

Lemma gpe_set_other T n (e : rawenv) m : lower m <> n -> gpe (set n e T) m = gpe T m.
Proof. intros H. unfold gpe. rewrite lookup_set_neq by exact H. reflexivity. Qed.

Lemma gpe_set_same T n (e : rawenv) m : lower m = n -> n <> "none" ->
  gpe (set n e T) m = Some (update [] (List.map (fun kv => (fst kv, to_str (snd kv))) e)).
Proof.
  intros H Hn. unfold gpe. rewrite H. destruct (String.eqb_spec n "none") as [E|_]; [contradiction|].
  rewrite lookup_set_eq. reflexivity.
Qed.

(* an added environment changes the environment of no other name *)
Lemma add_other_names v od name e v' :
  NoDup (keys (denvs (base v))) -> NoDup (keys (penvs (base v))) ->
  add_environment v od name e = Some v' ->
  forall m, lower m <> lower name -> get_environment (base v') m = get_environment (base v) m.
Proof.
  intros Hd Hp Ha m Hm. destruct (add_stored _ _ _ _ _ Hd Hp Ha) as [Ei [_ [_ [_ Ht]]]].
  unfold get_environment. rewrite Ei.
  destruct (is_default (base v)) eqn:Edef.
  - rewrite orb_true_r in Ht. destruct Ht as [HD _].
    assert (EP : P (base v') = D (base v')) by (unfold P; rewrite Ei; reflexivity).
    assert (EP0 : P (base v) = D (base v)) by (unfold P; rewrite Edef; reflexivity).
    rewrite EP, EP0, HD, gpe_set_other by exact Hm. reflexivity.
  - rewrite orb_false_r in Ht. destruct od.
    + destruct Ht as [HD HP]. rewrite (HP eq_refl), HD, gpe_set_other by exact Hm. reflexivity.
    + destruct Ht as [HD HP]. rewrite HD, HP, gpe_set_other by exact Hm. reflexivity.
Qed.

(* the added environment is visible under every spelling of its name *)
Lemma add_found v od name e v' :
  NoDup (keys (denvs (base v))) -> NoDup (keys (penvs (base v))) ->
  add_environment v od name e = Some v' ->
  forall m, lower m = lower name -> exists env, get_environment (base v') m = Ok env.
Proof.
  intros Hd Hp Ha m Hm. destruct (add_stored _ _ _ _ _ Hd Hp Ha) as [Ei [_ [_ [_ Ht]]]].
  assert (Hnone : lower name <> "none").
  { intros E. unfold add_environment in Ha. unfold gpe in Ha. rewrite lower_idem, E in Ha. cbn in Ha.
    destruct (od || is_default (base v)); discriminate. }
  unfold get_environment. rewrite Ei.
  destruct (is_default (base v)) eqn:Edef.
  - rewrite orb_true_r in Ht. destruct Ht as [HD _].
    assert (EP : P (base v') = D (base v')) by (unfold P; rewrite Ei; reflexivity).
    rewrite EP, HD, (gpe_set_same _ _ _ _ Hm Hnone). eexists. reflexivity.
  - rewrite orb_false_r in Ht. destruct od.
    + destruct Ht as [HD _]. rewrite HD, (gpe_set_same _ _ _ _ Hm Hnone).
      destruct (gpe (P (base v')) m); eexists; reflexivity.
    + destruct Ht as [_ HP]. rewrite HP, (gpe_set_same _ _ _ _ Hm Hnone).
      destruct (gpe (D (base v')) m); eexists; reflexivity.
Qed.

(* once the package has gained a default environment nothing of the launch environment is selected any more *)
Lemma added_default_environment v od name e v' :
  NoDup (keys (denvs (base v))) -> NoDup (keys (penvs (base v))) ->
  add_environment v od name e = Some v' -> lower name = "environment" ->
  exists env, get_environment (base v') "environment" = Ok env /\
    forall launch, default_environment (base v') launch = env /\
                   forall sel, norm_name sel = "environment" -> selected (base v') launch sel = Ok env.
Proof.
  intros Hd Hp Ha Hn.
  destruct (add_found _ _ _ _ _ Hd Hp Ha "environment") as [env He].
  { rewrite Hn. reflexivity. }
  exists env. split; [exact He|]. intros launch.
  assert (Hdef : default_environment (base v') launch = env) by (unfold default_environment; rewrite He; reflexivity).
  split; [exact Hdef|]. intros sel Hs. unfold selected. rewrite Hs. cbn. rewrite Hdef. reflexivity.
Qed.

(* ------------------------------------------------------------------ the object over time *)
Lemma run_changes_snoc d s chs ch : run_changes d s (chs ++ [ch]) = apply_change d (run_changes d s chs) ch.
Proof. unfold run_changes. rewrite fold_left_app. reflexivity. Qed.

(* parametrize(): whatever happened before - other platforms, add_environment, other system variables - the object
   holds the configuration of the document it was created from for the new platform; the launch environment is
   whatever it is now *)
Lemma parametrize_resets d s chs plat np sv :
  st_cfg (run_changes d s (chs ++ [ChParam plat np sv])) = configure d plat np sv /\
  st_launch (run_changes d s (chs ++ [ChParam plat np sv])) = st_launch (run_changes d s chs).
Proof. rewrite run_changes_snoc. split; reflexivity. Qed.

Lemma launch_replaces d s chs l :
  st_cfg (run_changes d s (chs ++ [ChLaunch l])) = st_cfg (run_changes d s chs) /\
  st_launch (run_changes d s (chs ++ [ChLaunch l])) = l.
Proof. rewrite run_changes_snoc. split; reflexivity. Qed.

(* the answers after a parametrize() are those of a NEW object created for that platform under the current
   launch environment: two histories cannot be told apart *)
Lemma parametrize_fresh d s chs plat np sv name i :
  let s' := run_changes d s (chs ++ [ChParam plat np sv]) in
  ask_node s' name i = ask_node (init_state d plat np sv (st_launch s')) name i /\
  ask_default s' = ask_default (init_state d plat np sv (st_launch s')) /\
  forall expand, ask_name s' name expand = ask_name (init_state d plat np sv (st_launch s')) name expand.
Proof.
  cbn zeta. destruct (parametrize_resets d s chs plat np sv) as [Hc Hl].
  unfold ask_node, ask_default, ask_name. rewrite Hc. cbn [init_state st_cfg st_launch].
  repeat split; reflexivity.
Qed.
