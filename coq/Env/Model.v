(* C17 — Component environments are built only from their declared sources.

   Executable model of
     FlowIR.from_dict (lower-casing of declared environment names)        frontends/flowir.py
     FlowIRConcrete.get_platform_environment / get_environment             frontends/flowir.py
     FlowIRExperimentConfiguration.defaultEnvironment / environmentWithName /
       environmentForNode                                                  conf.py
   read line by line from the pinned code.

   Python dicts are association lists with the dict update discipline: an existing key keeps its
   position and gets the new value, a new key is appended ([set]); lookups return the first binding.

   Section variables of the environment model (the theorems about it hold for every instance):
     tsub   : string.Template(v).safe_substitute(m)     (flowir.expand_vars)      [model: tm_sub]
     osexp  : os.path.expandvars(v) under os.environ = m                        [model: os_expand]
     fillin : FlowIR.fill_in of one value (%(workflow-variable)s interpolation; its context is the
              global/platform variables and the environment)
   The correspondence instantiates tsub and osexp with the executable models [tm_sub] and [os_expand]
   below (all of "$$", "$NAME", "${NAME}", malformed and unterminated references) and fillin with the
   identity. *)
From Coq Require Import String Ascii List Bool ZArith.
Import ListNotations.
Require Import V.Lib.PyStr.
Open Scope string_scope.
Open Scope list_scope.

(* ------------------------------------------------------------------ dictionaries *)
Definition map := list (string * string).

Fixpoint lookup {V} (k : string) (m : list (string * V)) : option V :=
  match m with
  | [] => None
  | (k', v) :: r => if String.eqb k k' then Some v else lookup k r
  end.

Definition mem {V} (k : string) (m : list (string * V)) : bool :=
  match lookup k m with Some _ => true | None => false end.

Definition keys {V} (m : list (string * V)) : list string := List.map fst m.

(* d[k] = v *)
Fixpoint set {V} (k : string) (v : V) (m : list (string * V)) : list (string * V) :=
  match m with
  | [] => [(k, v)]
  | (k', v') :: r => if String.eqb k k' then (k', v) :: r else (k', v') :: set k v r
  end.

(* del d[k] / d.pop(k) *)
Fixpoint remove {V} (k : string) (m : list (string * V)) : list (string * V) :=
  match m with
  | [] => []
  | (k', v') :: r => if String.eqb k k' then remove k r else (k', v') :: remove k r
  end.

(* d1.update(d2) *)
Definition update {V} (m1 m2 : list (string * V)) : list (string * V) :=
  fold_left (fun acc kv => set (fst kv) (snd kv) acc) m2 m1.

(* ------------------------------------------------------------------ YAML scalars of an environment *)
Inductive raw := RNull | RStr (s : string) | RInt (z : Z) | RBool (b : bool).

(* get_platform_environment.env_value_to_string: None -> "", otherwise str(value) *)
Definition z_to_str (z : Z) : string :=
  match z with
  | Z0 => "0"
  | Zpos p => dec (Npos p)
  | Zneg p => "-" ++ dec (Npos p)
  end.
Definition to_str (r : raw) : string :=
  match r with
  | RNull => ""
  | RStr s => s
  | RInt z => z_to_str z
  | RBool true => "True"
  | RBool false => "False"
  end.

Definition rawenv := list (string * raw).
Definition envtab := list (string * rawenv).      (* environments of one platform: name -> variables *)

(* FlowIR.from_dict: for name in list(keys): if name != name.lower():
       envs[name.lower()] = envs[name]; del envs[name] *)
Definition lower_step (acc : envtab) (n : string) : envtab :=
  if String.eqb n (lower n) then acc
  else match lookup n acc with
       | Some v => remove n (set (lower n) v acc)
       | None => acc            (* unreachable for a dict: keys are unique *)
       end.
Definition lower_names (E : envtab) : envtab := fold_left lower_step (keys E) E.

(* ------------------------------------------------------------------ configuration *)
Record cfg := {
  is_default : bool;      (* the selected platform is "default" *)
  denvs : envtab;         (* environments declared for platform default (as written in the document) *)
  penvs : envtab;         (* environments declared for the selected platform (= denvs when is_default) *)
  sysv : map              (* system variables the runtime adds itself (FlowIRExperimentConfiguration._system_vars) *)
}.

Inductive res (A : Type) := Ok (a : A) | ErrUnknown.     (* FlowIREnvironmentUnknown *)
Arguments Ok {A} a.
Arguments ErrUnknown {A}.

(* the flowir held by FlowIRConcrete went through from_dict *)
Definition D (c : cfg) : envtab := lower_names (denvs c).
Definition P (c : cfg) : envtab := if is_default c then lower_names (denvs c) else lower_names (penvs c).

(* get_platform_environment(name, platform), on the environments E of that platform:
   None = FlowIREnvironmentUnknown *)
Definition gpe (E : envtab) (name : string) : option map :=
  let name := lower name in
  if String.eqb name "none" then Some []
  else match lookup name E with
       | None => None
       | Some e => Some (update [] (List.map (fun kv => (fst kv, to_str (snd kv))) e))
       end.

(* get_environment(name, platform=None): the selected platform's environment layered over the
   same-named environment of platform default *)
Definition get_environment (c : cfg) (name : string) : res map :=
  if is_default c then
    match gpe (P c) name with
    | Some pe => Ok (update [] pe)
    | None => ErrUnknown
    end
  else
    match gpe (P c) name, gpe (D c) name with
    | None, None => ErrUnknown
    | pe, de => Ok (update (match de with Some d => d | None => [] end)
                           (match pe with Some p => p | None => [] end))
    end.

(* get_environment(name, platform="default") *)
Definition get_environment_default (c : cfg) (name : string) : res map :=
  match gpe (D c) name with
  | Some pe => Ok (update [] pe)
  | None => ErrUnknown
  end.

(* defaultEnvironment(): environment "environment", or the launch environment when the package
   defines none *)
Definition default_environment (c : cfg) (launch : map) : map :=
  match get_environment c "environment" with
  | Ok e => e
  | ErrUnknown => launch
  end.

Definition LBL_DEFAULTS : string := "DEFAULTS".
Definition PATH_VARS : list string := ["PATH"; "PYTHONPATH"; "PYTHONHOME"; "LD_LIBRARY_PATH"].

(* names listed by the DEFAULTS key of an environment: environment[DEFAULTS].split(':') *)
Definition defaults_names (env : map) : list string :=
  match lookup LBL_DEFAULTS env with
  | None => []
  | Some d => split_on ":" d
  end.

(* if not environment_name: environment_name = 'environment'; environment_name = environment_name.lower() *)
Definition norm_name (name : option string) : string :=
  lower (match name with
         | None => "environment"
         | Some "" => "environment"
         | Some n => n
         end).

(* the environment selected by name, before system variables / DEFAULTS / expansion *)
Definition selected (c : cfg) (launch : map) (name : option string) : res map :=
  let n := norm_name name in
  if String.eqb n "" || String.eqb n "environment" then Ok (default_environment c launch)
  else if String.eqb n "none" then Ok []
  else match get_environment c n with
       | Ok e => Ok e
       | ErrUnknown => if is_default c then ErrUnknown else get_environment_default c n
       end.

(* the interpreter branch of environmentForNode:
   {key: active_shell[key] for key in copy_from if key in active_shell and key not in env} *)
Fixpoint interp_vars (vars : list string) (launch env : map) : map :=
  match vars with
  | [] => []
  | k :: r =>
      match lookup k launch with
      | Some v => if mem k env then interp_vars r launch env else (k, v) :: interp_vars r launch env
      | None => interp_vars r launch env
      end
  end.

Section Expansion.
  Variable tsub : map -> string -> string.
  Variable osexp : map -> string -> string.
  Variable fillin : string -> string.

  (* the loop over environment[DEFAULTS].split(':') *)
  Fixpoint apply_defaults (names : list string) (launch env : map) : map :=
    match names with
    | [] => env
    | v :: r =>
        match lookup v launch with
        | None => apply_defaults r launch env
        | Some lv =>
            let env' := match lookup v env with
                        | None => set v lv env
                        | Some ev => set v (tsub [(v, lv)] ev) env
                        end in
            apply_defaults r launch env'
        end
    end.

  Definition defaults_step (launch env : map) : map :=
    match lookup LBL_DEFAULTS env with
    | None => env
    | Some d => remove LBL_DEFAULTS (apply_defaults (defaults_names env) launch env)
    end.

  (* {key: os.path.expandvars(expand_vars(environment[key], environment)) for key in environment
      if environment[key]} *)
  Definition expand_step (launch env : map) : map :=
    List.map (fun kv => (fst kv, osexp launch (tsub env (snd kv))))
             (filter (fun kv => negb (String.eqb (snd kv) "")) env).

  (* environmentWithName(name, expand, remove_defaults_key=True) *)
  Definition env_with_name (c : cfg) (launch : map) (name : option string) (expand : bool) : res map :=
    match selected c launch name with
    | ErrUnknown => ErrUnknown
    | Ok e =>
        let env := defaults_step launch (update (sysv c) e) in
        Ok (if expand then expand_step launch env else env)
    end.

  (* environmentForNode(node): name = command.environment of the component,
     interp = bool(command.interpreter) *)
  Definition env_for_node (c : cfg) (launch : map) (name : option string) (interp : bool) : res map :=
    match env_with_name c launch name true with
    | ErrUnknown => ErrUnknown
    | Ok env =>
        let env := List.map (fun kv => (fst kv, fillin (snd kv))) env in
        Ok (if interp then update env (interp_vars PATH_VARS launch env) else env)
    end.
End Expansion.

(* ------------------------------------------------------------------ executable models of the two
   substitution functions (on byte strings; the harness generates ASCII):
     tm_sub m s    = string.Template(s).safe_substitute(m)      (Lib/string.py, Python 3.12)
     os_expand m s = posixpath.expandvars(s) under os.environ = m (Lib/posixpath.py, Python 3.12)
   Both are one left-to-right pass that never rescans what it has substituted, so both are
   "tokenise, then render each token": they differ in what may follow a "$".
     Template  pattern: "$" then one of  "$"  |  ID  |  "{" ID "}"  |  nothing,  ID = [_a-z][_a-z0-9]* , IGNORECASE, ASCII
               "$$" -> "$"; "$name" / "${name}" -> m[name], unchanged when m has no such key;
               any other "$" stays and scanning resumes right after it.
     expandvars pattern: "$" then one of  \w+  |  "{" [^}]* "}" , ASCII; "$word" (a word may start with a digit) and
               "${anything without }}" -> environ[name], unchanged when not set; a "$" followed by
               neither stays and scanning resumes right after it ("$$X" -> "$" + value of X). *)
Definition is_lower_c (a : ascii) : bool := let n := nat_of_ascii a in Nat.leb 97 n && Nat.leb n 122.
Definition id_start (a : ascii) : bool := is_upper a || is_lower_c a || Ascii.eqb a "_"%char.
Definition id_char (a : ascii) : bool := id_start a || is_digit a.          (* \w under re.ASCII *)
Definition is_ident (s : string) : bool :=
  match s with EmptyString => false | String a r => id_start a && all_chars id_char r end.

(* a token: one literal character, or a reference (the name looked up, and the text it was written as) *)
Inductive tok := TChar (c : ascii) | TRef (name raw : string).

Definition render (m : map) (t : tok) : string :=
  match t with
  | TChar c => String c ""
  | TRef n raw => match lookup n m with Some v => v | None => raw end
  end.
Fixpoint render_all (m : map) (ts : list tok) : string :=
  match ts with [] => "" | t :: r => render m t ++ render_all m r end.

(* longest prefix of characters satisfying p *)
Fixpoint take_while (p : ascii -> bool) (s : string) : string :=
  match s with
  | EmptyString => ""
  | String c r => if p c then String c (take_while p r) else ""
  end.

(* the text before the first "}", None when there is no "}" *)
Fixpoint upto_close (s : string) : option string :=
  match s with
  | EmptyString => None
  | String c r => if Ascii.eqb c "}"%char then Some "" else option_map (String c) (upto_close r)
  end.

(* [look r]: what the text r after a "$" makes of that "$": a token and the number of characters of r
   it consumes; None = the "$" is literal.  [skip] counts characters of a match still to be dropped. *)
Fixpoint scan (look : string -> option (tok * nat)) (skip : nat) (s : string) : list tok :=
  match s with
  | EmptyString => []
  | String c r =>
      match skip with
      | S k => scan look k r
      | O => if Ascii.eqb c "$"%char then
               match look r with
               | Some (t, n) => t :: scan look n r
               | None => TChar "$"%char :: scan look 0 r
               end
             else TChar c :: scan look 0 r
      end
  end.

Definition tm_look (r : string) : option (tok * nat) :=
  match r with
  | EmptyString => None
  | String c r' =>
      if Ascii.eqb c "$"%char then Some (TChar "$"%char, 1)
      else if Ascii.eqb c "{"%char then
        let name := take_while id_char r' in
        if is_ident name && prefixb "}" (drop (String.length name) r')
        then Some (TRef name ("${" ++ name ++ "}"), String.length name + 2) else None
      else
        let name := take_while id_char r in
        if is_ident name then Some (TRef name ("$" ++ name), String.length name) else None
  end.

Definition os_look (r : string) : option (tok * nat) :=
  match r with
  | EmptyString => None
  | String c r' =>
      if Ascii.eqb c "{"%char then
        match upto_close r' with
        | Some name => Some (TRef name ("${" ++ name ++ "}"), String.length name + 2)
        | None => None
        end
      else
        let name := take_while id_char r in
        if String.eqb name "" then None else Some (TRef name ("$" ++ name), String.length name)
  end.

Definition tm_sub (m : map) (s : string) : string := render_all m (scan tm_look 0 s).
Definition os_expand (m : map) (s : string) : string := render_all m (scan os_look 0 s).

Definition id_fill (s : string) : string := s.

Definition env_for_node_c := env_for_node tm_sub os_expand id_fill.
Definition env_with_name_c := env_with_name tm_sub os_expand.

(* ------------------------------------------------------------------ comparison with the implementation *)
Fixpoint sub_map (a b : map) : bool :=
  match a with
  | [] => true
  | (k, v) :: r => match lookup k b with Some v' => String.eqb v v' | None => false end && sub_map r b
  end.
Definition map_eqb (a b : map) : bool := Nat.eqb (length a) (length b) && sub_map a b && sub_map b a.

Definition res_eqb (impl : option map) (model : res map) : bool :=
  match impl, model with
  | None, ErrUnknown => true
  | Some a, Ok b => map_eqb a b
  | _, _ => false
  end.

(* one case: (cfg, launch, name, interp) and what the implementation returned for
   environmentForNode(node) and environmentWithName(name, expand=False) (None = FlowIREnvironmentUnknown) *)
Definition check_case (k : cfg * map * option string * bool * (option map * option map)) : bool :=
  let '(c, launch, name, interp, (full, unexp)) := k in
  res_eqb full (env_for_node_c c launch name interp) &&
  res_eqb unexp (env_with_name_c c launch name false).

(* FlowIR.from_dict alone: declared names -> names held by FlowIRConcrete (with their variable keys) *)
Definition check_lower (k : envtab * list (string * list string)) : bool :=
  let '(E, out) := k in
  let m := List.map (fun ne => (fst ne, keys (snd ne))) (lower_names E) in
  Nat.eqb (length m) (length out) &&
  forallb (fun ne => match lookup (fst ne) out with
                     | Some ks => if list_eq_dec string_dec ks (snd ne) then true else false
                     | None => false end) m.

(* the two substitution functions alone: (mapping, text, (flowir.expand_vars(text, mapping),
   os.path.expandvars(text) under os.environ = mapping)) *)
Definition check_subst (k : map * string * (string * string)) : bool :=
  let '(m, s, (t, o)) := k in String.eqb (tm_sub m s) t && String.eqb (os_expand m s) o.
