(* C17 — Component environments are built only from their declared sources.

   Executable model of
     FlowIR.from_dict (lower-casing of declared environment names)        frontends/flowir.py
     FlowIRConcrete.get_platform_environment / get_environment             frontends/flowir.py
     FlowIRExperimentConfiguration.defaultEnvironment / environmentWithName /
       environmentForNode                                                  conf.py
   read line by line from the pinned code.

   Python dicts are association lists with the dict update discipline: an existing key keeps its
   position and gets the new value, a new key is appended ([set]); lookups return the first binding.

   NOT modelled (they enter as Section variables, the theorems hold for every instance):
     tsub   : string.Template(v).safe_substitute(m)     (flowir.expand_vars)
     osexp  : os.path.expandvars(v) under os.environ = m
     fillin : FlowIR.fill_in of one value (%(workflow-variable)s interpolation; its context is the
              global/platform variables and the environment)
   The correspondence instantiates tsub and osexp with [subst] below (the common fragment of the two:
   $NAME and ${NAME}, NAME an identifier, single pass, unknown names left as they are) and fillin with
   the identity; the generator stays inside that fragment. *)
From Coq Require Import String Ascii List Bool ZArith.
Import ListNotations.
Require Import V.Lib.PyStr.
Open Scope string_scope.
Open Scope list_scope.

(* ------------------------------------------------------------------ dictionaries *)
Definition map := list (string * string).

Fixpoint lookup {V} (k : string) (m : list (string * V)) : option V :=
  match m with
  | [] => None
  | (k', v) :: r => if String.eqb k k' then Some v else lookup k r
  end.

Definition mem {V} (k : string) (m : list (string * V)) : bool :=
  match lookup k m with Some _ => true | None => false end.

Definition keys {V} (m : list (string * V)) : list string := List.map fst m.

(* d[k] = v *)
Fixpoint set {V} (k : string) (v : V) (m : list (string * V)) : list (string * V) :=
  match m with
  | [] => [(k, v)]
  | (k', v') :: r => if String.eqb k k' then (k', v) :: r else (k', v') :: set k v r
  end.

(* del d[k] / d.pop(k) *)
Fixpoint remove {V} (k : string) (m : list (string * V)) : list (string * V) :=
  match m with
  | [] => []
  | (k', v') :: r => if String.eqb k k' then remove k r else (k', v') :: remove k r
  end.

(* d1.update(d2) *)
Definition update {V} (m1 m2 : list (string * V)) : list (string * V) :=
  fold_left (fun acc kv => set (fst kv) (snd kv) acc) m2 m1.

(* ------------------------------------------------------------------ YAML scalars of an environment *)
Inductive raw := RNull | RStr (s : string) | RInt (z : Z) | RBool (b : bool).

(* get_platform_environment.env_value_to_string: None -> "", otherwise str(value) *)
Definition z_to_str (z : Z) : string :=
  match z with
  | Z0 => "0"
  | Zpos p => dec (Npos p)
  | Zneg p => "-" ++ dec (Npos p)
  end.
Definition to_str (r : raw) : string :=
  match r with
  | RNull => ""
  | RStr s => s
  | RInt z => z_to_str z
  | RBool true => "True"
  | RBool false => "False"
  end.

Definition rawenv := list (string * raw).
Definition envtab := list (string * rawenv).      (* environments of one platform: name -> variables *)

(* FlowIR.from_dict: for name in list(keys): if name != name.lower():
       envs[name.lower()] = envs[name]; del envs[name] *)
Definition lower_step (acc : envtab) (n : string) : envtab :=
  if String.eqb n (lower n) then acc
  else match lookup n acc with
       | Some v => remove n (set (lower n) v acc)
       | None => acc            (* unreachable for a dict: keys are unique *)
       end.
Definition lower_names (E : envtab) : envtab := fold_left lower_step (keys E) E.

(* ------------------------------------------------------------------ configuration *)
Record cfg := {
  is_default : bool;      (* the selected platform is "default" *)
  denvs : envtab;         (* environments declared for platform default (as written in the document) *)
  penvs : envtab;         (* environments declared for the selected platform (= denvs when is_default) *)
  sysv : map              (* system variables the runtime adds itself (FlowIRExperimentConfiguration._system_vars) *)
}.

Inductive res (A : Type) := Ok (a : A) | ErrUnknown.     (* FlowIREnvironmentUnknown *)
Arguments Ok {A} a.
Arguments ErrUnknown {A}.

(* the flowir held by FlowIRConcrete went through from_dict *)
Definition D (c : cfg) : envtab := lower_names (denvs c).
Definition P (c : cfg) : envtab := if is_default c then lower_names (denvs c) else lower_names (penvs c).

(* get_platform_environment(name, platform), on the environments E of that platform:
   None = FlowIREnvironmentUnknown *)
Definition gpe (E : envtab) (name : string) : option map :=
  let name := lower name in
  if String.eqb name "none" then Some []
  else match lookup name E with
       | None => None
       | Some e => Some (update [] (List.map (fun kv => (fst kv, to_str (snd kv))) e))
       end.

(* get_environment(name, platform=None): the selected platform's environment layered over the
   same-named environment of platform default *)
Definition get_environment (c : cfg) (name : string) : res map :=
  if is_default c then
    match gpe (P c) name with
    | Some pe => Ok (update [] pe)
    | None => ErrUnknown
    end
  else
    match gpe (P c) name, gpe (D c) name with
    | None, None => ErrUnknown
    | pe, de => Ok (update (match de with Some d => d | None => [] end)
                           (match pe with Some p => p | None => [] end))
    end.

(* get_environment(name, platform="default") *)
Definition get_environment_default (c : cfg) (name : string) : res map :=
  match gpe (D c) name with
  | Some pe => Ok (update [] pe)
  | None => ErrUnknown
  end.

(* defaultEnvironment(): environment "environment", or the launch environment when the package
   defines none *)
Definition default_environment (c : cfg) (launch : map) : map :=
  match get_environment c "environment" with
  | Ok e => e
  | ErrUnknown => launch
  end.

Definition LBL_DEFAULTS : string := "DEFAULTS".
Definition PATH_VARS : list string := ["PATH"; "PYTHONPATH"; "PYTHONHOME"; "LD_LIBRARY_PATH"].

(* names listed by the DEFAULTS key of an environment: environment[DEFAULTS].split(':') *)
Definition defaults_names (env : map) : list string :=
  match lookup LBL_DEFAULTS env with
  | None => []
  | Some d => split_on ":" d
  end.

(* if not environment_name: environment_name = 'environment'; environment_name = environment_name.lower() *)
Definition norm_name (name : option string) : string :=
  lower (match name with
         | None => "environment"
         | Some "" => "environment"
         | Some n => n
         end).

(* the environment selected by name, before system variables / DEFAULTS / expansion *)
Definition selected (c : cfg) (launch : map) (name : option string) : res map :=
  let n := norm_name name in
  if String.eqb n "" || String.eqb n "environment" then Ok (default_environment c launch)
  else if String.eqb n "none" then Ok []
  else match get_environment c n with
       | Ok e => Ok e
       | ErrUnknown => if is_default c then ErrUnknown else get_environment_default c n
       end.

(* the interpreter branch of environmentForNode:
   {key: active_shell[key] for key in copy_from if key in active_shell and key not in env} *)
Fixpoint interp_vars (vars : list string) (launch env : map) : map :=
  match vars with
  | [] => []
  | k :: r =>
      match lookup k launch with
      | Some v => if mem k env then interp_vars r launch env else (k, v) :: interp_vars r launch env
      | None => interp_vars r launch env
      end
  end.

Section Expansion.
  Variable tsub : map -> string -> string.
  Variable osexp : map -> string -> string.
  Variable fillin : string -> string.

  (* the loop over environment[DEFAULTS].split(':') *)
  Fixpoint apply_defaults (names : list string) (launch env : map) : map :=
    match names with
    | [] => env
    | v :: r =>
        match lookup v launch with
        | None => apply_defaults r launch env
        | Some lv =>
            let env' := match lookup v env with
                        | None => set v lv env
                        | Some ev => set v (tsub [(v, lv)] ev) env
                        end in
            apply_defaults r launch env'
        end
    end.

  Definition defaults_step (launch env : map) : map :=
    match lookup LBL_DEFAULTS env with
    | None => env
    | Some d => remove LBL_DEFAULTS (apply_defaults (defaults_names env) launch env)
    end.

  (* {key: os.path.expandvars(expand_vars(environment[key], environment)) for key in environment
      if environment[key]} *)
  Definition expand_step (launch env : map) : map :=
    List.map (fun kv => (fst kv, osexp launch (tsub env (snd kv))))
             (filter (fun kv => negb (String.eqb (snd kv) "")) env).

  (* environmentWithName(name, expand, remove_defaults_key=True) *)
  Definition env_with_name (c : cfg) (launch : map) (name : option string) (expand : bool) : res map :=
    match selected c launch name with
    | ErrUnknown => ErrUnknown
    | Ok e =>
        let env := defaults_step launch (update (sysv c) e) in
        Ok (if expand then expand_step launch env else env)
    end.

  (* environmentForNode(node): name = command.environment of the component,
     interp = bool(command.interpreter) *)
  Definition env_for_node (c : cfg) (launch : map) (name : option string) (interp : bool) : res map :=
    match env_with_name c launch name true with
    | ErrUnknown => ErrUnknown
    | Ok env =>
        let env := List.map (fun kv => (fst kv, fillin (snd kv))) env in
        Ok (if interp then update env (interp_vars PATH_VARS launch env) else env)
    end.
End Expansion.

(* ------------------------------------------------------------------ concrete substitution used by the
   correspondence: $NAME and ${NAME}; one left-to-right pass; unknown names are left untouched *)
Definition is_lower_c (a : ascii) : bool := let n := nat_of_ascii a in Nat.leb 97 n && Nat.leb n 122.
Definition id_start (a : ascii) : bool := is_upper a || is_lower_c a || Ascii.eqb a "_"%char.
Definition id_char (a : ascii) : bool := id_start a || is_digit a.
Definition is_ident (s : string) : bool :=
  match s with EmptyString => false | String a r => id_start a && all_chars id_char r end.

Inductive smode := MLit | MDollar | MName (acc : string) | MBrace (acc : string).

Definition emit_name (m : map) (acc : string) : string :=
  match lookup acc m with Some v => v | None => "$" ++ acc end.
Definition emit_brace (m : map) (acc : string) : string :=
  match (if is_ident acc then lookup acc m else None) with Some v => v | None => "${" ++ acc ++ "}" end.

Fixpoint subst_go (m : map) (md : smode) (s : string) : string :=
  match s with
  | EmptyString =>
      match md with
      | MLit => ""
      | MDollar => "$"
      | MName acc => emit_name m acc
      | MBrace acc => "${" ++ acc
      end
  | String c r =>
      match md with
      | MLit => if Ascii.eqb c "$"%char then subst_go m MDollar r else String c (subst_go m MLit r)
      | MDollar =>
          if Ascii.eqb c "{"%char then subst_go m (MBrace "") r
          else if id_start c then subst_go m (MName (String c "")) r
          else if Ascii.eqb c "$"%char then "$" ++ subst_go m MDollar r
          else String "$"%char (String c (subst_go m MLit r))
      | MName acc =>
          if id_char c then subst_go m (MName (acc ++ String c "")) r
          else emit_name m acc ++
               (if Ascii.eqb c "$"%char then subst_go m MDollar r else String c (subst_go m MLit r))
      | MBrace acc =>
          if Ascii.eqb c "}"%char then emit_brace m acc ++ subst_go m MLit r
          else subst_go m (MBrace (acc ++ String c "")) r
      end
  end.
Definition subst (m : map) (s : string) : string := subst_go m MLit s.

Definition id_fill (s : string) : string := s.

Definition env_for_node_c := env_for_node subst subst id_fill.
Definition env_with_name_c := env_with_name subst subst.

(* ------------------------------------------------------------------ comparison with the implementation *)
Fixpoint sub_map (a b : map) : bool :=
  match a with
  | [] => true
  | (k, v) :: r => match lookup k b with Some v' => String.eqb v v' | None => false end && sub_map r b
  end.
Definition map_eqb (a b : map) : bool := Nat.eqb (length a) (length b) && sub_map a b && sub_map b a.

Definition res_eqb (impl : option map) (model : res map) : bool :=
  match impl, model with
  | None, ErrUnknown => true
  | Some a, Ok b => map_eqb a b
  | _, _ => false
  end.

(* one case: (cfg, launch, name, interp) and what the implementation returned for
   environmentForNode(node) and environmentWithName(name, expand=False) (None = FlowIREnvironmentUnknown) *)
Definition check_case (k : cfg * map * option string * bool * (option map * option map)) : bool :=
  let '(c, launch, name, interp, (full, unexp)) := k in
  res_eqb full (env_for_node_c c launch name interp) &&
  res_eqb unexp (env_with_name_c c launch name false).

(* FlowIR.from_dict alone: declared names -> names held by FlowIRConcrete (with their variable keys) *)
Definition check_lower (k : envtab * list (string * list string)) : bool :=
  let '(E, out) := k in
  let m := List.map (fun ne => (fst ne, keys (snd ne))) (lower_names E) in
  Nat.eqb (length m) (length out) &&
  forallb (fun ne => match lookup (fst ne) out with
                     | Some ks => if list_eq_dec string_dec ks (snd ne) then true else false
                     | None => false end) m.
