(* C17 — lemmas and proofs. *)
From Coq Require Import String Ascii List Bool ZArith Lia.
Import ListNotations.
Require Import V.Lib.PyStr V.Env.Model.
Open Scope string_scope.
Open Scope list_scope.

Lemma NoDup_snoc {A} (l : list A) x : NoDup l -> ~ In x l -> NoDup (l ++ [x]).
Proof.
  induction l as [|a l IH]; cbn; intros Hd Hn.
  - constructor; [intros []|constructor].
  - inversion Hd as [|? ? Ha Hd']; subst. constructor.
    + rewrite in_app_iff. cbn. intros [H|[H|[]]]; [contradiction|]. apply Hn. left. symmetry. exact H.
    + apply IH; [exact Hd'|]. intros H. apply Hn. right. exact H.
Qed.

(* ------------------------------------------------------------------ dictionaries *)
Section Maps.
  Context {V : Type}.
  Implicit Types m : list (string * V).

  Lemma keys_cons k (v : V) m : keys ((k, v) :: m) = k :: keys m.
  Proof. reflexivity. Qed.

  Lemma lookup_None_iff k m : lookup k m = None <-> ~ In k (keys m).
  Proof.
    induction m as [|[k' v] r IH]; cbn.
    - split; [intros _ []|reflexivity].
    - destruct (String.eqb_spec k k') as [->|Hne].
      + split; [discriminate|intros H; exfalso; apply H; left; reflexivity].
      + rewrite IH. split.
        * intros H [E|E]; [congruence|contradiction].
        * intros H E. apply H. right. exact E.
  Qed.

  Lemma lookup_Some_In k v m : lookup k m = Some v -> In k (keys m).
  Proof.
    intros H. destruct (in_dec string_dec k (keys m)) as [i|n]; [exact i|].
    apply lookup_None_iff in n. congruence.
  Qed.

  Lemma lookup_Some_In_pair k v m : lookup k m = Some v -> In (k, v) m.
  Proof.
    induction m as [|[k' v'] r IH]; cbn; [discriminate|].
    destruct (String.eqb_spec k k') as [->|Hne].
    - intros [= ->]. left. reflexivity.
    - intros H. right. apply IH. exact H.
  Qed.

  Lemma In_keys_lookup k m : In k (keys m) -> exists v, lookup k m = Some v.
  Proof.
    intros H. destruct (lookup k m) eqn:E; [eexists; reflexivity|].
    apply lookup_None_iff in E. contradiction.
  Qed.

  Lemma mem_true_iff k m : mem k m = true <-> In k (keys m).
  Proof.
    unfold mem. destruct (lookup k m) eqn:E.
    - split; [intros _; eapply lookup_Some_In; eassumption|reflexivity].
    - split; [discriminate|]. intros H. apply lookup_None_iff in E. contradiction.
  Qed.

  Lemma lookup_set_eq k v m : lookup k (set k v m) = Some v.
  Proof.
    induction m as [|[k' v'] r IH]; cbn.
    - rewrite String.eqb_refl. reflexivity.
    - destruct (String.eqb_spec k k') as [->|Hne]; cbn.
      + rewrite String.eqb_refl. reflexivity.
      + destruct (String.eqb_spec k k'); [contradiction|]. exact IH.
  Qed.

  Lemma lookup_set_neq k k' v m : k' <> k -> lookup k' (set k v m) = lookup k' m.
  Proof.
    intros Hne. induction m as [|[k2 v2] r IH]; cbn.
    - destruct (String.eqb_spec k' k); [contradiction|reflexivity].
    - destruct (String.eqb_spec k k2) as [->|H2]; cbn.
      + destruct (String.eqb_spec k' k2); [contradiction|reflexivity].
      + destruct (String.eqb_spec k' k2); [reflexivity|exact IH].
  Qed.

  Lemma keys_set_in k v m : In k (keys m) -> keys (set k v m) = keys m.
  Proof.
    unfold keys. induction m as [|[k' v'] r IH]; cbn; [intros []|].
    destruct (String.eqb_spec k k') as [->|Hne]; cbn; [reflexivity|].
    intros [E|E]; [congruence|]. rewrite IH by exact E. reflexivity.
  Qed.

  Lemma keys_set_notin k v m : ~ In k (keys m) -> keys (set k v m) = keys m ++ [k].
  Proof.
    unfold keys. induction m as [|[k' v'] r IH]; cbn; [reflexivity|].
    intros H. destruct (String.eqb_spec k k') as [->|Hne]; cbn.
    - exfalso. apply H. left. reflexivity.
    - rewrite IH; [reflexivity|]. intros E. apply H. right. exact E.
  Qed.

  Lemma In_keys_set k' k v m : In k' (keys (set k v m)) <-> k' = k \/ In k' (keys m).
  Proof.
    destruct (in_dec string_dec k (keys m)) as [i|n].
    - rewrite keys_set_in by exact i. split; [intros H; right; exact H|intros [->|H]; assumption].
    - rewrite keys_set_notin by exact n. rewrite in_app_iff. cbn. split.
      + intros [H|[H|[]]]; [right; exact H|left; symmetry; exact H].
      + intros [->|H]; [right; left; reflexivity|left; exact H].
  Qed.

  Lemma NoDup_keys_set k v m : NoDup (keys m) -> NoDup (keys (set k v m)).
  Proof.
    intros H. destruct (in_dec string_dec k (keys m)) as [i|n].
    - rewrite keys_set_in by exact i. exact H.
    - rewrite keys_set_notin by exact n. apply NoDup_snoc; assumption.
  Qed.

  Lemma In_keys_update k m1 m2 : In k (keys (update m1 m2)) <-> In k (keys m1) \/ In k (keys m2).
  Proof.
    unfold update. revert m1. induction m2 as [|[k2 v2] r IH]; intros m1; cbn [fold_left fst snd].
    - cbn. split; [intros H; left; exact H|intros [H|[]]; exact H].
    - rewrite IH, In_keys_set, keys_cons. cbn [In]. split.
      + intros [[->|H]|H]; [right; left; reflexivity|left; exact H|right; right; exact H].
      + intros [H|[<-|H]]; [left; right; exact H|left; left; reflexivity|right; exact H].
  Qed.

  Lemma NoDup_keys_update m1 m2 : NoDup (keys m1) -> NoDup (keys (update m1 m2)).
  Proof.
    unfold update. revert m1. induction m2 as [|[k2 v2] r IH]; intros m1 H; cbn; [exact H|].
    apply IH. apply NoDup_keys_set. exact H.
  Qed.

  (* a dictionary with unique keys, layered over another: its bindings win *)
  Lemma lookup_update k m1 m2 : NoDup (keys m2) ->
    lookup k (update m1 m2) = match lookup k m2 with Some v => Some v | None => lookup k m1 end.
  Proof.
    unfold update. revert m1. induction m2 as [|[k2 v2] r IH]; intros m1 Hnd; cbn; [reflexivity|].
    inversion Hnd as [|? ? Hnotin Hnd']; subst.
    rewrite IH by exact Hnd'. destruct (String.eqb_spec k k2) as [->|Hne].
    - assert (E : lookup k2 r = None) by (apply lookup_None_iff; exact Hnotin).
      rewrite E. apply lookup_set_eq.
    - rewrite lookup_set_neq by exact Hne. reflexivity.
  Qed.

  Lemma In_keys_remove k' k m : In k' (keys (remove k m)) <-> k' <> k /\ In k' (keys m).
  Proof.
    induction m as [|[k2 v2] r IH]; cbn; [tauto|].
    destruct (String.eqb_spec k k2) as [->|Hne]; cbn.
    - rewrite IH. split; [intros [H1 H2]; split; [exact H1|right; exact H2]|].
      intros [H1 [H2|H2]]; [congruence|split; assumption].
    - rewrite IH. split.
      + intros [<-|[H1 H2]]; [split; [congruence|left; reflexivity]|split; [exact H1|right; exact H2]].
      + intros [H1 [H2|H2]]; [left; exact H2|right; split; assumption].
  Qed.

  Lemma lookup_remove_neq k' k m : k' <> k -> lookup k' (remove k m) = lookup k' m.
  Proof.
    intros Hne. induction m as [|[k2 v2] r IH]; cbn; [reflexivity|].
    destruct (String.eqb_spec k k2) as [->|H2]; cbn.
    - destruct (String.eqb_spec k' k2); [contradiction|exact IH].
    - destruct (String.eqb_spec k' k2); [reflexivity|exact IH].
  Qed.

  Lemma NoDup_keys_remove k m : NoDup (keys m) -> NoDup (keys (remove k m)).
  Proof.
    induction m as [|[k2 v2] r IH]; cbn; [intros H; exact H|].
    intros H. inversion H as [|? ? Hn Hd]; subst.
    destruct (String.eqb k k2); cbn; [apply IH; exact Hd|].
    constructor; [|apply IH; exact Hd].
    intros E. apply In_keys_remove in E as [_ E]. contradiction.
  Qed.

  Lemma In_remove_sub (x : string * V) k m : In x (remove k m) -> In x m.
  Proof.
    induction m as [|[k2 v2] r IH]; cbn; [intros []|].
    destruct (String.eqb k k2); cbn; [intros H; right; apply IH; exact H|].
    intros [H|H]; [left; exact H|right; apply IH; exact H].
  Qed.

  Lemma In_set_sub (x : string * V) k v m : In x (set k v m) -> x = (k, v) \/ In x m.
  Proof.
    induction m as [|[k2 v2] r IH]; cbn.
    - intros [H|[]]. left. symmetry. exact H.
    - destruct (String.eqb_spec k k2) as [->|Hne]; cbn.
      + intros [H|H]; [left; symmetry; exact H|right; right; exact H].
      + intros [H|H]; [right; left; exact H|]. destruct (IH H) as [E|E]; [left; exact E|right; right; exact E].
  Qed.
End Maps.

Lemma keys_map_val {A B} (f : string * A -> B) (m : list (string * A)) :
  keys (List.map (fun kv => (fst kv, f kv)) m) = keys m.
Proof. unfold keys. rewrite map_map. cbn. reflexivity. Qed.

Lemma lookup_map_val {A B} (f : A -> B) k (m : list (string * A)) :
  lookup k (List.map (fun kv => (fst kv, f (snd kv))) m) = option_map f (lookup k m).
Proof.
  induction m as [|[k' v] r IH]; cbn; [reflexivity|].
  destruct (String.eqb k k'); [reflexivity|exact IH].
Qed.

Lemma lookup_map_filter (f : string -> string) (env : map) k : NoDup (keys env) ->
  lookup k (List.map (fun kv => (fst kv, f (snd kv))) (filter (fun kv => negb (String.eqb (snd kv) "")) env)) =
  match lookup k env with
  | Some v => if String.eqb v "" then None else Some (f v)
  | None => None
  end.
Proof.
  induction env as [|[k' v] r IH]; intros Hnd; cbn [filter lookup snd]; [reflexivity|].
  rewrite keys_cons in Hnd. inversion Hnd as [|? ? Hnotin Hnd']; subst.
  destruct (String.eqb_spec k k') as [->|Hne].
  - destruct (String.eqb v "") eqn:Ev; cbn [negb List.map lookup fst snd].
    + rewrite IH by exact Hnd'. assert (E : lookup k' r = None) by (apply lookup_None_iff; exact Hnotin).
      rewrite E. reflexivity.
    + rewrite String.eqb_refl. reflexivity.
  - destruct (String.eqb v ""); cbn [negb List.map lookup fst snd].
    + apply IH. exact Hnd'.
    + destruct (String.eqb_spec k k'); [contradiction|]. apply IH. exact Hnd'.
Qed.

  Lemma In_keys_interp_vars vars launch env k :
    In k (keys (interp_vars vars launch env)) <-> In k vars /\ In k (keys launch) /\ ~ In k (keys env).
  Proof.
    induction vars as [|v r IH]; cbn [interp_vars]; [cbn; tauto|].
    destruct (lookup v launch) as [lv|] eqn:El.
    - assert (Hv : In v (keys launch)) by (eapply lookup_Some_In; eassumption).
      destruct (mem v env) eqn:Em.
      + apply mem_true_iff in Em. rewrite IH. cbn [In]. split.
        * intros [H1 H2]. split; [right; exact H1|exact H2].
        * intros [[<-|H1] [H2 H3]]; [contradiction|split; [exact H1|split; assumption]].
      + assert (Hn : ~ In v (keys env)).
        { intros H. apply mem_true_iff in H. congruence. }
        cbn [keys List.map fst In]. fold (keys (interp_vars r launch env)). rewrite IH. split.
        * intros [<-|[H1 H2]]; [split; [left; reflexivity|split; assumption]|split; [right; exact H1|exact H2]].
        * intros [[<-|H1] H2]; [left; reflexivity|right; split; assumption].
    - rewrite IH. cbn [In]. split.
      + intros [H1 H2]. split; [right; exact H1|exact H2].
      + intros [[<-|H1] [H2 H3]]; [|split; [exact H1|split; assumption]].
        apply lookup_None_iff in El. contradiction.
  Qed.


(* ------------------------------------------------------------------ steps of environmentWithName *)
Section Steps.
  Variable tsub : map -> string -> string.
  Variable osexp : map -> string -> string.
  Variable fillin : string -> string.

  Lemma In_keys_apply_defaults names launch env k :
    In k (keys (apply_defaults tsub names launch env)) <->
    In k (keys env) \/ (In k names /\ In k (keys launch)).
  Proof.
    revert env. induction names as [|v r IH]; intros env; cbn [apply_defaults].
    - cbn. tauto.
    - destruct (lookup v launch) as [lv|] eqn:El.
      + rewrite IH. assert (Hv : In v (keys launch)) by (eapply lookup_Some_In; eassumption).
        destruct (lookup v env) as [ev|] eqn:Ee; rewrite In_keys_set; cbn [In]; split.
        * intros [[->|H]|[H1 H2]]; [right; split; [left; reflexivity|exact Hv]|left; exact H|right; split; [right; exact H1|exact H2]].
        * intros [H|[[<-|H1] H2]]; [left; right; exact H|left; left; reflexivity|right; split; assumption].
        * intros [[->|H]|[H1 H2]]; [right; split; [left; reflexivity|exact Hv]|left; exact H|right; split; [right; exact H1|exact H2]].
        * intros [H|[[<-|H1] H2]]; [left; right; exact H|left; left; reflexivity|right; split; assumption].
      + rewrite IH. cbn [In]. split.
        * intros [H|[H1 H2]]; [left; exact H|right; split; [right; exact H1|exact H2]].
        * intros [H|[[<-|H1] H2]]; [left; exact H| |right; split; assumption].
          apply lookup_None_iff in El. contradiction.
  Qed.

  Lemma NoDup_keys_apply_defaults names launch env :
    NoDup (keys env) -> NoDup (keys (apply_defaults tsub names launch env)).
  Proof.
    revert env. induction names as [|v r IH]; intros env H; cbn [apply_defaults]; [exact H|].
    destruct (lookup v launch); [|apply IH; exact H].
    apply IH. destruct (lookup v env); apply NoDup_keys_set; exact H.
  Qed.

  (* a variable that is not imported (not listed, or not in the launch environment) keeps its value *)
  Lemma lookup_apply_defaults_other names launch env k :
    ~ (In k names /\ In k (keys launch)) ->
    lookup k (apply_defaults tsub names launch env) = lookup k env.
  Proof.
    revert env. induction names as [|v r IH]; intros env H; cbn [apply_defaults]; [reflexivity|].
    assert (Hr : ~ (In k r /\ In k (keys launch))) by (intros [H1 H2]; apply H; split; [right; exact H1|exact H2]).
    destruct (lookup v launch) as [lv|] eqn:El; [|apply IH; exact Hr].
    rewrite IH by exact Hr.
    assert (Hne : k <> v).
    { intros ->. apply H. split; [left; reflexivity|eapply lookup_Some_In; eassumption]. }
    destruct (lookup v env); apply lookup_set_neq; exact Hne.
  Qed.

  (* a listed launch variable the environment does not define is imported with its launch value, when
     it is listed once *)
  Lemma lookup_apply_defaults_import names launch env k lv :
    lookup k launch = Some lv -> lookup k env = None -> In k names -> NoDup names ->
    lookup k (apply_defaults tsub names launch env) = Some lv.
  Proof.
    revert env. induction names as [|v r IH]; intros env Hl He Hin Hnd; [destruct Hin|].
    inversion Hnd as [|? ? Hnotin Hnd']; subst. cbn [apply_defaults].
    destruct (string_dec v k) as [->|Hne].
    - rewrite Hl, He. rewrite lookup_apply_defaults_other.
      + apply lookup_set_eq.
      + intros [H _]. contradiction.
    - destruct Hin as [E|Hin]; [contradiction|].
      destruct (lookup v launch) as [lv'|]; [|apply IH; assumption].
      apply IH; try assumption.
      destruct (lookup v env); rewrite lookup_set_neq by congruence; exact He.
  Qed.

  Lemma In_keys_defaults_step launch env k :
    In k (keys (defaults_step tsub launch env)) ->
    In k (keys env) \/ (In k (defaults_names env) /\ In k (keys launch)).
  Proof.
    unfold defaults_step. destruct (lookup LBL_DEFAULTS env) eqn:E; [|intros H; left; exact H].
    intros H. apply In_keys_remove in H as [_ H]. apply In_keys_apply_defaults in H. exact H.
  Qed.

  Lemma NoDup_keys_defaults_step launch env :
    NoDup (keys env) -> NoDup (keys (defaults_step tsub launch env)).
  Proof.
    intros H. unfold defaults_step. destruct (lookup LBL_DEFAULTS env); [|exact H].
    apply NoDup_keys_remove. apply NoDup_keys_apply_defaults. exact H.
  Qed.

  Lemma lookup_defaults_step_other launch env k :
    k <> LBL_DEFAULTS -> ~ (In k (defaults_names env) /\ In k (keys launch)) ->
    lookup k (defaults_step tsub launch env) = lookup k env.
  Proof.
    intros Hne H. unfold defaults_step. destruct (lookup LBL_DEFAULTS env) eqn:E; [|reflexivity].
    rewrite lookup_remove_neq by exact Hne. apply lookup_apply_defaults_other. exact H.
  Qed.

  Lemma defaults_step_no_label launch env : ~ In LBL_DEFAULTS (keys (defaults_step tsub launch env)).
  Proof.
    unfold defaults_step. destruct (lookup LBL_DEFAULTS env) eqn:E.
    - intros H. apply In_keys_remove in H as [H _]. congruence.
    - apply lookup_None_iff. exact E.
  Qed.

  Lemma In_keys_expand_step launch env k :
    In k (keys (expand_step tsub osexp launch env)) -> In k (keys env).
  Proof.
    unfold expand_step, keys. rewrite map_map. cbn. intros H.
    apply in_map_iff in H as [[k' v] [<- H]]. apply filter_In in H as [H _].
    apply in_map_iff. exists (k', v). split; [reflexivity|exact H].
  Qed.

  (* the value a variable has after expansion: empty values vanish, the others are expanded first
     from the environment itself and then from the launch environment *)
  Lemma lookup_expand_step launch env k : NoDup (keys env) ->
    lookup k (expand_step tsub osexp launch env) =
    match lookup k env with
    | Some v => if String.eqb v "" then None else Some (osexp launch (tsub env v))
    | None => None
    end.
  Proof.
    intros H. unfold expand_step. exact (lookup_map_filter (fun v => osexp launch (tsub env v)) env k H).
  Qed.

  (* ---------------------------------------------------------------- C17_sources *)
  Definition allowed (c : cfg) (launch sel : map) (interp : bool) (k : string) : Prop :=
    In k (keys (sysv c)) \/ In k (keys sel) \/
    (In k (defaults_names (update (sysv c) sel)) /\ In k (keys launch)) \/
    (interp = true /\ In k PATH_VARS /\ In k (keys launch)).

  Lemma with_name_keys c launch name expand env :
    env_with_name tsub osexp c launch name expand = Ok env ->
    exists sel, selected c launch name = Ok sel /\
      forall k, In k (keys env) -> allowed c launch sel false k.
  Proof.
    unfold env_with_name. destruct (selected c launch name) as [sel|]; [|discriminate].
    intros [= <-]. exists sel. split; [reflexivity|]. intros k H.
    assert (H' : In k (keys (defaults_step tsub launch (update (sysv c) sel)))).
    { destruct expand; [apply In_keys_expand_step in H|]; exact H. }
    apply In_keys_defaults_step in H' as [H'|H'].
    - apply In_keys_update in H' as [H'|H']; [left; exact H'|right; left; exact H'].
    - right; right; left. exact H'.
  Qed.

  Lemma sources c launch name interp env :
    env_for_node tsub osexp fillin c launch name interp = Ok env ->
    exists sel, selected c launch name = Ok sel /\
      forall k, In k (keys env) -> allowed c launch sel interp k.
  Proof.
    unfold env_for_node. remember PATH_VARS as pv eqn:Epv.
    destruct (env_with_name tsub osexp c launch name true) as [e|] eqn:E; [|discriminate].
    intros [= <-]. destruct (with_name_keys _ _ _ _ _ E) as [sel [Hs Hk]].
    exists sel. split; [exact Hs|]. intros k H.
    assert (Hw : forall k, In k (keys (List.map (fun kv => (fst kv, fillin (snd kv))) e)) ->
                           allowed c launch sel interp k).
    { intros k0 H0. rewrite (keys_map_val (fun kv => fillin (snd kv))) in H0.
      destruct (Hk k0 H0) as [A|[A|[A|[A _]]]]; [left; exact A|right; left; exact A|right; right; left; exact A|discriminate]. }
    destruct interp; [|apply Hw; exact H].
    apply In_keys_update in H as [H|H]; [apply Hw; exact H|].
    apply In_keys_interp_vars in H as [H1 [H2 _]]. subst pv.
    right; right; right. split; [reflexivity|split; assumption].
  Qed.

  (* nothing else of the launch environment: contrapositive, spelled out *)
  Lemma no_leak c launch name interp env sel k :
    env_for_node tsub osexp fillin c launch name interp = Ok env ->
    selected c launch name = Ok sel ->
    In k (keys launch) ->
    ~ In k (keys (sysv c)) -> ~ In k (keys sel) ->
    ~ In k (defaults_names (update (sysv c) sel)) ->
    (interp = true -> ~ In k PATH_VARS) ->
    ~ In k (keys env).
  Proof.
    intros He Hs Hl H1 H2 H3 H4 Hin.
    destruct (sources _ _ _ _ _ He) as [sel' [Hs' Hk]]. rewrite Hs in Hs'. injection Hs' as <-.
    destruct (Hk k Hin) as [A|[A|[[A _]|[A [B _]]]]]; [contradiction|contradiction|contradiction|].
    exact (H4 A B).
  Qed.

  (* the DEFAULTS key itself never reaches the task *)
  Lemma no_defaults_label c launch name interp env :
    env_for_node tsub osexp fillin c launch name interp = Ok env -> ~ In LBL_DEFAULTS (keys env).
  Proof.
    unfold env_for_node, env_with_name. remember PATH_VARS as pv eqn:Epv.
    destruct (selected c launch name) as [sel|]; [|discriminate].
    intros [= <-] H.
    assert (Hn : ~ In LBL_DEFAULTS (keys (List.map (fun kv => (fst kv, fillin (snd kv)))
                   (expand_step tsub osexp launch (defaults_step tsub launch (update (sysv c) sel)))))).
    { rewrite (keys_map_val (fun kv => fillin (snd kv))). intros H0. apply In_keys_expand_step in H0.
      exact (defaults_step_no_label _ _ H0). }
    destruct interp; [|contradiction].
    apply In_keys_update in H as [H|H]; [contradiction|].
    apply In_keys_interp_vars in H as [H _]. subst pv. cbn in H.
    destruct H as [H|[H|[H|[H|[]]]]]; discriminate.
  Qed.
End Steps.

(* ------------------------------------------------------------------ names *)
Lemma lower_ascii_idem a : lower_ascii (lower_ascii a) = lower_ascii a.
Proof. destruct a as [[] [] [] [] [] [] [] []]; reflexivity. Qed.

Lemma lower_idem s : lower (lower s) = lower s.
Proof. induction s as [|a s IH]; cbn; [reflexivity|]. rewrite lower_ascii_idem, IH. reflexivity. Qed.

Lemma norm_name_lower name : lower (norm_name name) = norm_name name.
Proof. unfold norm_name. apply lower_idem. Qed.

(* from_dict only moves environments to other names: every environment held afterwards was declared *)
Lemma lower_step_values acc n x :
  In x (lower_step acc n) -> exists n', In (n', snd x) acc.
Proof.
  unfold lower_step. destruct (String.eqb n (lower n)).
  - intros H. exists (fst x). destruct x; exact H.
  - destruct (lookup n acc) as [v|] eqn:E.
    + intros H. apply In_remove_sub in H. apply In_set_sub in H as [->|H].
      * exists n. cbn. apply lookup_Some_In_pair. exact E.
      * exists (fst x). destruct x; exact H.
    + intros H. exists (fst x). destruct x; exact H.
Qed.

Lemma lower_names_values E x : In x (lower_names E) -> exists n', In (n', snd x) E.
Proof.
  unfold lower_names. generalize (keys E) as ks. intros ks. revert E x.
  induction ks as [|n r IH]; intros E x; cbn [fold_left].
  - intros H. exists (fst x). destruct x; exact H.
  - intros H. destruct (IH _ _ H) as [n1 H1]. destruct (lower_step_values _ _ _ H1) as [n2 H2].
    exists n2. exact H2.
Qed.

Definition dict_tab (E : envtab) : Prop := forall n e, In (n, e) E -> NoDup (keys e).

Lemma dict_tab_lower E : dict_tab E -> dict_tab (lower_names E).
Proof. intros H n e Hin. destruct (lower_names_values _ _ Hin) as [n' H']. exact (H n' e H'). Qed.

(* every environment of the document is a dictionary (unique variable names) *)
Definition dict_cfg (c : cfg) : Prop := dict_tab (denvs c) /\ dict_tab (penvs c).

Lemma dict_cfg_D c : dict_cfg c -> dict_tab (D c).
Proof. intros [H _]. apply dict_tab_lower. exact H. Qed.
Lemma dict_cfg_P c : dict_cfg c -> dict_tab (P c).
Proof. intros [H1 H2]. unfold P. destruct (is_default c); apply dict_tab_lower; assumption. Qed.

(* ------------------------------------------------------------------ layering *)
(* the string value platform table E gives variable k of environment n *)
Definition declared (E : envtab) (n k : string) : option string :=
  match lookup n E with
  | Some e => option_map to_str (lookup k e)
  | None => None
  end.

Definition layered (c : cfg) (n k : string) : option string :=
  match declared (P c) n k with
  | Some v => Some v
  | None => if is_default c then None else declared (D c) n k
  end.

Definition stringify (e : rawenv) : map := update [] (List.map (fun kv => (fst kv, to_str (snd kv))) e).

Lemma NoDup_nil_keys : NoDup (keys (@nil (string * string))).
Proof. constructor. Qed.

Lemma NoDup_stringify e : NoDup (keys (stringify e)).
Proof. apply NoDup_keys_update. apply NoDup_nil_keys. Qed.

Lemma lookup_stringify e k : NoDup (keys e) -> lookup k (stringify e) = option_map to_str (lookup k e).
Proof.
  intros H. unfold stringify. rewrite lookup_update.
  - rewrite (lookup_map_val to_str). destruct (lookup k e); reflexivity.
  - rewrite (keys_map_val (fun kv => to_str (snd kv))). exact H.
Qed.

Lemma gpe_spec E n : lower n = n -> n <> "none" ->
  gpe E n = option_map stringify (lookup n E).
Proof.
  intros Hl Hn. unfold gpe. rewrite Hl.
  destruct (String.eqb_spec n "none"); [contradiction|]. destruct (lookup n E); reflexivity.
Qed.

Lemma get_environment_unknown c n : lower n = n -> n <> "none" ->
  (get_environment c n = ErrUnknown <->
   lookup n (P c) = None /\ (is_default c = false -> lookup n (D c) = None)).
Proof.
  intros Hl Hn. unfold get_environment. rewrite !gpe_spec by assumption.
  destruct (is_default c) eqn:Ed.
  - destruct (lookup n (P c)); cbn; split; try discriminate.
    + intros [H _]. discriminate.
    + intros _. split; [reflexivity|discriminate].
    + reflexivity.
  - destruct (lookup n (P c)); destruct (lookup n (D c)); cbn; split; try discriminate;
      try (intros [H1 H2]; try discriminate; specialize (H2 eq_refl); discriminate).
    + intros _. split; reflexivity.
    + reflexivity.
Qed.

Lemma get_environment_NoDup c n e : get_environment c n = Ok e -> NoDup (keys e).
Proof.
  unfold get_environment. destruct (is_default c).
  - destruct (gpe (P c) n); [|discriminate]. intros [= <-]. apply NoDup_keys_update. constructor.
  - assert (Hd : forall E, NoDup (keys (match gpe E n with Some d => d | None => [] end))).
    { intros E. unfold gpe. destruct (String.eqb (lower n) "none"); [constructor|].
      destruct (lookup (lower n) E); [apply NoDup_stringify|constructor]. }
    destruct (gpe (P c) n) eqn:Ep; destruct (gpe (D c) n) eqn:Ed; try discriminate;
      intros [= <-].
    + apply NoDup_keys_update. specialize (Hd (D c)). rewrite Ed in Hd. exact Hd.
    + apply NoDup_keys_update. constructor.
    + specialize (Hd (D c)). rewrite Ed in Hd. exact Hd.
Qed.

Lemma get_environment_lookup c n e k : lower n = n -> n <> "none" ->
  dict_tab (D c) -> dict_tab (P c) ->
  get_environment c n = Ok e -> lookup k e = layered c n k.
Proof.
  intros Hl Hn HD HP. unfold get_environment, layered, declared. rewrite !gpe_spec by assumption.
  destruct (is_default c) eqn:Ed.
  - destruct (lookup n (P c)) as [pe|] eqn:Ep; cbn; [|discriminate]. intros [= <-].
    rewrite lookup_update by apply NoDup_stringify. cbn.
    rewrite lookup_stringify by (eapply HP; apply lookup_Some_In_pair; exact Ep).
    destruct (option_map to_str (lookup k pe)); reflexivity.
  - destruct (lookup n (P c)) as [pe|] eqn:Ep; destruct (lookup n (D c)) as [de|] eqn:Edd; cbn; try discriminate;
      intros [= <-].
    + rewrite lookup_update by apply NoDup_stringify.
      rewrite !lookup_stringify by (first [solve [eapply HP; apply lookup_Some_In_pair; eassumption]
                                          |solve [eapply HD; apply lookup_Some_In_pair; eassumption]]).
      reflexivity.
    + rewrite lookup_update by apply NoDup_stringify.
      rewrite lookup_stringify by (eapply HP; apply lookup_Some_In_pair; eassumption).
      cbn. reflexivity.
    + try (rewrite lookup_update by constructor). cbn.
      rewrite lookup_stringify by (eapply HD; apply lookup_Some_In_pair; eassumption).
      reflexivity.
Qed.

(* ------------------------------------------------------------------ the case split of `selected` *)
Definition special (n : string) : Prop := n = "" \/ n = "environment" \/ n = "none".

Lemma selected_default c launch name : norm_name name = "" \/ norm_name name = "environment" ->
  selected c launch name = Ok (default_environment c launch).
Proof. unfold selected. intros [-> | ->]; reflexivity. Qed.

Lemma selected_none c launch name : norm_name name = "none" -> selected c launch name = Ok [].
Proof. unfold selected. intros ->. reflexivity. Qed.

Lemma selected_named c launch name : ~ special (norm_name name) ->
  selected c launch name = get_environment c (norm_name name).
Proof.
  intros Hs. unfold selected.
  destruct (String.eqb_spec (norm_name name) ""); [exfalso; apply Hs; left; assumption|].
  destruct (String.eqb_spec (norm_name name) "environment"); [exfalso; apply Hs; right; left; assumption|].
  destruct (String.eqb_spec (norm_name name) "none"); [exfalso; apply Hs; right; right; assumption|].
  cbn [orb]. destruct (get_environment c (norm_name name)) eqn:E; [reflexivity|].
  destruct (is_default c) eqn:Ed; [reflexivity|].
  (* the retry on platform default cannot succeed: the first attempt already looked there *)
  assert (Hn : norm_name name <> "none") by assumption.
  apply (get_environment_unknown c _ (norm_name_lower name) Hn) in E as [_ E]. specialize (E Ed).
  unfold get_environment_default. rewrite gpe_spec by (try apply norm_name_lower; assumption).
  rewrite E. reflexivity.
Qed.

Lemma default_environment_launch c launch :
  lookup "environment" (P c) = None -> (is_default c = false -> lookup "environment" (D c) = None) ->
  default_environment c launch = launch.
Proof.
  intros H1 H2. unfold default_environment.
  assert (E : get_environment c "environment" = ErrUnknown).
  { apply get_environment_unknown; [reflexivity|discriminate|split; assumption]. }
  rewrite E. reflexivity.
Qed.

Lemma default_environment_declared c launch k : dict_cfg c ->
  ~ (lookup "environment" (P c) = None /\ (is_default c = false -> lookup "environment" (D c) = None)) ->
  lookup k (default_environment c launch) = layered c "environment" k.
Proof.
  intros Hd Hn. unfold default_environment. destruct (get_environment c "environment") as [e|] eqn:E.
  - apply (get_environment_lookup c "environment" e k); [reflexivity|discriminate|apply dict_cfg_D; exact Hd|apply dict_cfg_P; exact Hd|exact E].
  - exfalso. apply Hn. apply get_environment_unknown in E; [exact E|reflexivity|discriminate].
Qed.

Lemma selected_NoDup c launch name sel : NoDup (keys launch) -> selected c launch name = Ok sel -> NoDup (keys sel).
Proof.
  intros Hl. unfold selected.
  destruct (String.eqb (norm_name name) "" || String.eqb (norm_name name) "environment").
  - intros [= <-]. unfold default_environment. destruct (get_environment c "environment") eqn:E; [|exact Hl].
    eapply get_environment_NoDup. exact E.
  - destruct (String.eqb (norm_name name) "none"); [intros [= <-]; constructor|].
    destruct (get_environment c (norm_name name)) eqn:E.
    + intros [= <-]. eapply get_environment_NoDup. exact E.
    + destruct (is_default c); [discriminate|]. unfold get_environment_default.
      destruct (gpe (D c) (norm_name name)); [|discriminate]. intros [= <-]. apply NoDup_keys_update. constructor.
Qed.

  Lemma lookup_update_notin {V} k (m1 m2 : list (string * V)) : ~ In k (keys m2) -> lookup k (update m1 m2) = lookup k m1.
  Proof.
    unfold update. revert m1. induction m2 as [|[k2 v2] r IH]; intros m1 H; cbn [fold_left fst snd]; [reflexivity|].
    rewrite keys_cons in H. rewrite IH by (intros E; apply H; right; exact E).
    apply lookup_set_neq. intros ->. apply H. left. reflexivity.
  Qed.


(* ------------------------------------------------------------------ values *)
Section Values.
  Variable tsub : map -> string -> string.
  Variable osexp : map -> string -> string.
  Variable fillin : string -> string.

  Lemma with_name_NoDup c launch name env :
    NoDup (keys (sysv c)) ->
    env_with_name tsub osexp c launch name false = Ok env -> NoDup (keys env).
  Proof.
    intros Hs. unfold env_with_name. destruct (selected c launch name) as [sel|] eqn:E; [|discriminate].
    intros [= <-]. apply NoDup_keys_defaults_step. apply NoDup_keys_update. exact Hs.
  Qed.

  (* unexpanded value of a variable that is not imported through DEFAULTS: selected environment over
     system variables *)
  Lemma unexpanded_value c launch name sel env k :
    NoDup (keys launch) ->
    env_with_name tsub osexp c launch name false = Ok env ->
    selected c launch name = Ok sel ->
    k <> LBL_DEFAULTS ->
    ~ (In k (defaults_names (update (sysv c) sel)) /\ In k (keys launch)) ->
    lookup k env = match lookup k sel with Some v => Some v | None => lookup k (sysv c) end.
  Proof.
    intros Hl He Hs Hk Hn. unfold env_with_name in He. rewrite Hs in He. injection He as <-.
    rewrite lookup_defaults_step_other by assumption.
    apply lookup_update. eapply selected_NoDup; eassumption.
  Qed.

  (* imported by name: a launch variable listed (once) in DEFAULTS and defined neither by the selected
     environment nor as a system variable carries its launch value *)
  Lemma imported_value c launch name sel env k lv :
    env_with_name tsub osexp c launch name false = Ok env ->
    selected c launch name = Ok sel ->
    k <> LBL_DEFAULTS ->
    NoDup (defaults_names (update (sysv c) sel)) -> In k (defaults_names (update (sysv c) sel)) ->
    lookup k launch = Some lv -> ~ In k (keys sel) -> ~ In k (keys (sysv c)) ->
    lookup k env = Some lv.
  Proof.
    intros He Hs Hk Hnd Hin Hl H1 H2. unfold env_with_name in He. rewrite Hs in He. injection He as <-.
    unfold defaults_step. destruct (lookup LBL_DEFAULTS (update (sysv c) sel)) eqn:E.
    - rewrite lookup_remove_neq by exact Hk. apply lookup_apply_defaults_import; try assumption.
      apply lookup_None_iff. intros H. apply In_keys_update in H as [H|H]; contradiction.
    - unfold defaults_names in Hin. rewrite E in Hin. destruct Hin.
  Qed.

  (* expansion: the task environment's value is the unexpanded value expanded first from the
     (unexpanded) environment itself, then from the launch environment; empty values vanish *)
  Lemma expanded_value c launch name env :
    NoDup (keys (sysv c)) ->
    env_with_name tsub osexp c launch name false = Ok env ->
    exists res, env_with_name tsub osexp c launch name true = Ok res /\
      forall k, lookup k res = match lookup k env with
                               | Some v => if String.eqb v "" then None else Some (osexp launch (tsub env v))
                               | None => None
                               end.
  Proof.
    intros Hs He. unfold env_with_name in *. destruct (selected c launch name) as [sel|]; [|discriminate].
    injection He as <-. eexists. split; [reflexivity|]. intros k. apply lookup_expand_step.
    apply NoDup_keys_defaults_step. apply NoDup_keys_update. exact Hs.
  Qed.

  (* environmentForNode keeps every variable of environmentWithName (values through fill_in); the
     interpreter variables never override one *)
  Lemma for_node_value c launch name interp res out k :
    env_with_name tsub osexp c launch name true = Ok res ->
    env_for_node tsub osexp fillin c launch name interp = Ok out ->
    In k (keys res) -> lookup k out = option_map fillin (lookup k res).
  Proof.
    intros Hr. unfold env_for_node. rewrite Hr. remember PATH_VARS as pv. intros [= <-] Hin.
    destruct interp; [|apply (lookup_map_val fillin)].
    rewrite lookup_update_notin; [apply (lookup_map_val fillin)|].
    intros H. apply In_keys_interp_vars in H as [_ [_ H]]. apply H.
    rewrite (keys_map_val (fun kv => fillin (snd kv))). exact Hin.
  Qed.

  (* an interpreter component has every search-path variable the launch environment has *)
  Lemma interp_present c launch name out k :
    env_for_node tsub osexp fillin c launch name true = Ok out ->
    In k PATH_VARS -> In k (keys launch) -> In k (keys out).
  Proof.
    unfold env_for_node. remember PATH_VARS as pv. destruct (env_with_name tsub osexp c launch name true) as [e|]; [|discriminate].
    intros [= <-] H1 H2. apply In_keys_update.
    destruct (in_dec string_dec k (keys (List.map (fun kv => (fst kv, fillin (snd kv))) e))) as [i|n]; [left; exact i|].
    right. apply In_keys_interp_vars. split; [exact H1|split; assumption].
  Qed.

  (* the empty environment: only the system variables (plus, for interpreters, the search-path variables) *)
  Lemma none_env c launch name :
    norm_name name = "none" -> lookup LBL_DEFAULTS (sysv c) = None ->
    env_with_name tsub osexp c launch name false = Ok (sysv c).
  Proof.
    intros Hn Hd. unfold env_with_name. rewrite selected_none by exact Hn. cbn [update fold_left].
    unfold defaults_step. rewrite Hd. reflexivity.
  Qed.

  (* every variable with a non-empty unexpanded value reaches the task *)
  Lemma present c launch name interp env out k v :
    NoDup (keys (sysv c)) ->
    env_with_name tsub osexp c launch name false = Ok env ->
    env_for_node tsub osexp fillin c launch name interp = Ok out ->
    lookup k env = Some v -> v <> "" -> In k (keys out).
  Proof.
    intros Hs He Ho Hk Hv. destruct (expanded_value _ _ _ _ Hs He) as [res [Hr Hl]].
    assert (Hin : In k (keys res)).
    { specialize (Hl k). rewrite Hk in Hl. destruct (String.eqb_spec v ""); [contradiction|].
      eapply lookup_Some_In. exact Hl. }
    pose proof (for_node_value _ _ _ _ _ _ _ Hr Ho Hin) as H.
    destruct (In_keys_lookup _ _ Hin) as [x Hx]. rewrite Hx in H. cbn in H.
    eapply lookup_Some_In. exact H.
  Qed.

  Lemma unknown_propagates c launch name interp :
    selected c launch name = ErrUnknown <->
    env_for_node tsub osexp fillin c launch name interp = ErrUnknown.
  Proof.
    unfold env_for_node, env_with_name. destruct (selected c launch name); split; intros H; try discriminate; reflexivity.
  Qed.
End Values.

(* ------------------------------------------------------------------ spelling of the requested name *)
Lemma norm_name_case n : norm_name (Some (lower n)) = norm_name (Some n).
Proof.
  destruct n as [|a s]; [reflexivity|]. unfold norm_name. cbn [lower]. rewrite lower_ascii_idem, lower_idem. reflexivity.
Qed.

Lemma selected_case c launch n : selected c launch (Some (lower n)) = selected c launch (Some n).
Proof. unfold selected. rewrite norm_name_case. reflexivity. Qed.

Lemma for_node_case tsub osexp fillin c launch n interp :
  env_for_node tsub osexp fillin c launch (Some (lower n)) interp =
  env_for_node tsub osexp fillin c launch (Some n) interp.
Proof. unfold env_for_node, env_with_name. rewrite selected_case. reflexivity. Qed.

(* declared names that are already lower-case are left alone by from_dict *)
Lemma lower_names_id E : Forall (fun n => lower n = n) (keys E) -> lower_names E = E.
Proof.
  unfold lower_names. generalize (keys E) as ks. intros ks H. revert E.
  induction H as [|n r Hn _ IH]; intros E; cbn [fold_left]; [reflexivity|].
  unfold lower_step at 2. rewrite Hn, String.eqb_refl. apply IH.
Qed.

(* ------------------------------------------------------------------ declared spellings, small scope
   (bounded: the bound is part of the statement).  Every table of at most three environments whose
   names are spellings from [spellings] and do not collide after lower-casing: each environment is
   found afterwards under the lower-case form of its declared name, with its own contents. *)
Definition spellings : list string := ["foo"; "Foo"; "FOO"; "fOo"; "bar"; "BAR"; "environment"; "Environment"].
Definition mk_tab (names : list string) : envtab := List.map (fun n => (n, [(n, RNull)])) names.
Fixpoint nodupb (l : list string) : bool :=
  match l with [] => true | x :: r => negb (existsb (String.eqb x) r) && nodupb r end.
Definition distinct_lower (names : list string) : bool := nodupb (List.map lower names).
Definition found_lower (names : list string) : bool :=
  forallb (fun n => match lookup (lower n) (lower_names (mk_tab names)) with
                    | Some [(k, RNull)] => String.eqb k n
                    | _ => false end) names
  && forallb (fun ne => String.eqb (fst ne) (lower (fst ne))) (lower_names (mk_tab names))
  && Nat.eqb (length (lower_names (mk_tab names))) (length names).
Definition lists_upto3 (A : list string) : list (list string) :=
  [[]] ++ List.map (fun a => [a]) A ++ flat_map (fun a => List.map (fun b => [a; b]) A) A
  ++ flat_map (fun a => flat_map (fun b => List.map (fun c => [a; b; c]) A) A) A.

Lemma declared_spelling_small :
  forall names, In names (lists_upto3 spellings) -> distinct_lower names = true -> found_lower names = true.
Proof.
  assert (H : forallb (fun names => implb (distinct_lower names) (found_lower names)) (lists_upto3 spellings) = true)
    by (vm_compute; reflexivity).
  intros names Hin Hd. rewrite forallb_forall in H. specialize (H names Hin). rewrite Hd in H. exact H.
Qed.
