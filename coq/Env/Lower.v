(* C17 — FlowIR.from_dict's lower-casing of declared environment names, for ARBITRARY tables.

   from_dict walks list(keys) of one platform's table in declaration order; a name n that is not
   lower-case is re-filed: envs[n.lower()] = envs[n]; del envs[n].  So, for a lower-case name m,
   every non-lower-case spelling of m overwrites whatever is filed under m at that moment: the LAST
   declared non-lower-case spelling wins, also over an environment declared as m itself (which is
   never touched by its own step). *)
From Coq Require Import String Ascii List Bool Lia.
Import ListNotations.
Require Import V.Lib.PyStr V.Env.Model V.Env.Proofs.
Open Scope string_scope.
Open Scope list_scope.

(* n is a spelling of the lower-case name m other than m itself *)
Definition spells (m n : string) : bool := String.eqb (lower n) m && negb (String.eqb n m).

(* the last declared name that is such a spelling of m *)
Fixpoint last_spelling (ks : list string) (m : string) : option string :=
  match ks with
  | [] => None
  | n :: r => match last_spelling r m with
              | Some x => Some x
              | None => if spells m n then Some n else None
              end
  end.

Lemma last_spelling_app r n m :
  last_spelling (r ++ [n]) m = if spells m n then Some n else last_spelling r m.
Proof.
  induction r as [|a r IH]; cbn [app last_spelling]; [reflexivity|].
  rewrite IH. destruct (spells m n); [reflexivity|]. reflexivity.
Qed.

Lemma last_spelling_In ks m n : last_spelling ks m = Some n -> In n ks /\ spells m n = true.
Proof.
  induction ks as [|a r IH]; cbn [last_spelling]; [discriminate|].
  destruct (last_spelling r m) as [x|].
  - intros [= ->]. destruct (IH eq_refl) as [H1 H2]. split; [right; exact H1|exact H2].
  - destruct (spells m a) eqn:E; [|discriminate]. intros [= ->]. split; [left; reflexivity|exact E].
Qed.

Lemma last_spelling_None ks m : last_spelling ks m = None -> forall n, In n ks -> spells m n = false.
Proof.
  induction ks as [|a r IH]; cbn [last_spelling]; [intros _ n []|].
  destruct (last_spelling r m) as [x|]; [discriminate|].
  destruct (spells m a) eqn:E; [discriminate|]. intros _ n [<-|H]; [exact E|apply IH; [reflexivity|exact H]].
Qed.

(* The decomposition reading of [last_spelling]: n is a spelling of m and nothing declared after it is. *)
Lemma last_spelling_split ks m n : last_spelling ks m = Some n ->
  exists l1 l2, ks = l1 ++ n :: l2 /\ spells m n = true /\ forall x, In x l2 -> spells m x = false.
Proof.
  induction ks as [|a r IH]; cbn [last_spelling]; [discriminate|].
  destruct (last_spelling r m) as [x|] eqn:Er.
  - intros [= ->]. destruct (IH eq_refl) as [l1 [l2 [-> [H1 H2]]]].
    exists (a :: l1), l2. split; [reflexivity|split; assumption].
  - destruct (spells m a) eqn:E; [|discriminate]. intros [= ->].
    exists [], r. split; [reflexivity|split; [exact E|]]. apply last_spelling_None. exact Er.
Qed.

(* a name that is not lower-case is nobody's lower-case form *)
Lemma last_spelling_nonlower ks n : lower n <> n -> last_spelling ks n = None.
Proof.
  intros Hl. destruct (last_spelling ks n) as [x|] eqn:E; [|reflexivity].
  apply last_spelling_In in E as [_ E]. unfold spells in E. apply andb_true_iff in E as [E _].
  apply String.eqb_eq in E. exfalso. apply Hl. rewrite <- E. apply lower_idem.
Qed.

Lemma lookup_remove_eq {V} k (m : list (string * V)) : lookup k (remove k m) = None.
Proof.
  apply lookup_None_iff. intros H. apply In_keys_remove in H as [H _]. apply H. reflexivity.
Qed.

Lemma In_pair_lookup {V} k (v : V) m : NoDup (keys m) -> In (k, v) m -> lookup k m = Some v.
Proof.
  induction m as [|[k' v'] r IH]; cbn [lookup]; [intros _ []|].
  rewrite keys_cons. intros Hnd [H|H]; inversion Hnd as [|? ? Hn Hd]; subst.
  - injection H as -> ->. rewrite String.eqb_refl. reflexivity.
  - destruct (String.eqb_spec k k') as [->|Hne]; [|apply IH; assumption].
    exfalso. apply Hn. apply in_map_iff. exists (k', v). split; [reflexivity|exact H].
Qed.

(* one step of the loop, seen through lookups *)
Lemma lookup_lower_step acc n m :
  lookup m (lower_step acc n) =
  if String.eqb n (lower n) then lookup m acc
  else match lookup n acc with
       | None => lookup m acc
       | Some v => if String.eqb m n then None
                   else if String.eqb m (lower n) then Some v else lookup m acc
       end.
Proof.
  unfold lower_step. destruct (String.eqb n (lower n)); [reflexivity|].
  destruct (lookup n acc) as [v|]; [|reflexivity].
  destruct (String.eqb_spec m n) as [->|Hmn]; [apply lookup_remove_eq|].
  rewrite lookup_remove_neq by exact Hmn.
  destruct (String.eqb_spec m (lower n)) as [->|Hml]; [apply lookup_set_eq|].
  apply lookup_set_neq. exact Hml.
Qed.

(* the whole loop over distinct names ks that are all present in acc *)
Lemma fold_lookup acc ks : NoDup ks -> (forall n, In n ks -> In n (keys acc)) -> forall m,
  lookup m (fold_left lower_step ks acc) =
  match last_spelling ks m with
  | Some n => lookup n acc
  | None => if negb (String.eqb (lower m) m) && existsb (String.eqb m) ks then None else lookup m acc
  end.
Proof.
  induction ks as [|n r IH] using rev_ind; intros Hnd Hin m.
  - cbn. rewrite andb_false_r. reflexivity.
  - rewrite fold_left_app. cbn [fold_left].
    assert (Hnd' : NoDup r /\ ~ In n r).
    { split; [apply NoDup_remove_1 in Hnd|apply NoDup_remove_2 in Hnd]; rewrite app_nil_r in Hnd; exact Hnd. }
    destruct Hnd' as [Hnr Hnn].
    assert (Hin' : forall x, In x r -> In x (keys acc)).
    { intros x Hx. apply Hin. apply in_or_app. left. exact Hx. }
    specialize (IH Hnr Hin').
    rewrite lookup_lower_step, last_spelling_app, existsb_app. cbn [existsb]. rewrite orb_false_r.
    destruct (String.eqb_spec n (lower n)) as [Hl|Hl].
    + (* a lower-case name: nothing happens *)
      rewrite IH.
      assert (Hs : spells m n = false).
      { unfold spells. destruct (String.eqb_spec (lower n) m) as [E|E]; [|reflexivity].
        cbn. destruct (String.eqb_spec n m) as [E'|E']; [reflexivity|]. exfalso. apply E'. congruence. }
      rewrite Hs. destruct (last_spelling r m); [reflexivity|].
      destruct (String.eqb_spec m n) as [->|Hmn]; [|rewrite orb_false_r; reflexivity].
      rewrite <- Hl, String.eqb_refl. cbn. reflexivity.
    + (* a name that is re-filed *)
      assert (Hl' : lower n <> n) by (intros E; apply Hl; symmetry; exact E).
      assert (Hex : existsb (String.eqb n) r = false).
      { destruct (existsb (String.eqb n) r) eqn:E; [|reflexivity].
        apply existsb_exists in E as [x [Hx Ex]]. apply String.eqb_eq in Ex. subst x. contradiction. }
      assert (Hn : lookup n (fold_left lower_step r acc) = lookup n acc).
      { rewrite IH, (last_spelling_nonlower r n Hl'), Hex, andb_false_r. reflexivity. }
      rewrite Hn.
      assert (Hk : In n (keys acc)).
      { apply Hin. apply in_or_app. right. left. reflexivity. }
      destruct (In_keys_lookup n acc Hk) as [v Hv]. rewrite Hv.
      destruct (String.eqb_spec m n) as [->|Hmn].
      * assert (Hs : spells n n = false) by (unfold spells; rewrite String.eqb_refl, andb_false_r; reflexivity).
        rewrite Hs, (last_spelling_nonlower r n Hl').
        destruct (String.eqb_spec (lower n) n); [contradiction|]. rewrite orb_true_r. reflexivity.
      * destruct (String.eqb_spec m (lower n)) as [->|Hml].
        -- assert (Hs : spells (lower n) n = true).
           { unfold spells. rewrite String.eqb_refl. destruct (String.eqb_spec n (lower n)); [contradiction|reflexivity]. }
           rewrite Hs. symmetry. exact Hv.
        -- assert (Hs : spells m n = false).
           { unfold spells. destruct (String.eqb_spec (lower n) m) as [E|E]; [|reflexivity].
             exfalso. apply Hml. symmetry. exact E. }
           rewrite Hs, IH, orb_false_r. reflexivity.
Qed.

(* ------------------------------------------------------------------ the table after from_dict *)
(* What is filed under every name m after from_dict, for every table that is a dictionary: the
   environment declared under the last non-lower-case spelling of m, else (no such spelling) the
   environment declared as m itself when m is lower-case; names that are not lower-case hold nothing. *)
Theorem declared_spelling E : NoDup (keys E) -> forall m,
  lookup m (lower_names E) =
  match last_spelling (keys E) m with
  | Some n => lookup n E
  | None => if String.eqb (lower m) m then lookup m E else None
  end.
Proof.
  intros Hnd m. unfold lower_names. rewrite fold_lookup by (try exact Hnd; intros n H; exact H).
  destruct (last_spelling (keys E) m); [reflexivity|].
  destruct (String.eqb_spec (lower m) m) as [El|El]; cbn [negb andb]; [reflexivity|].
  destruct (existsb (String.eqb m) (keys E)) eqn:Ex; [reflexivity|].
  apply lookup_None_iff. intros H.
  assert (Ht : existsb (String.eqb m) (keys E) = true).
  { apply existsb_exists. exists m. split; [exact H|apply String.eqb_refl]. }
  congruence.
Qed.

(* each declared environment name is filed under its lower-case form: what is found there is the
   environment declared under some spelling of the same name *)
Lemma declared_filed E n : NoDup (keys E) -> In n (keys E) ->
  exists n', In n' (keys E) /\ lower n' = lower n /\
             lookup (lower n) (lower_names E) = lookup n' E.
Proof.
  intros Hnd Hin. rewrite declared_spelling by exact Hnd.
  destruct (last_spelling (keys E) (lower n)) as [s|] eqn:Es.
  - apply last_spelling_In in Es as [H1 H2]. unfold spells in H2. apply andb_true_iff in H2 as [H2 _].
    apply String.eqb_eq in H2. exists s. split; [exact H1|split; [exact H2|reflexivity]].
  - rewrite lower_idem, String.eqb_refl.
    pose proof (last_spelling_None _ _ Es n Hin) as Hs. unfold spells in Hs.
    rewrite String.eqb_refl in Hs. cbn in Hs. apply negb_false_iff in Hs. apply String.eqb_eq in Hs.
    exists n. split; [exact Hin|split; [reflexivity|]]. rewrite <- Hs. reflexivity.
Qed.

(* ... and when no other declared name has the same lower-case form, it is its own environment *)
Lemma declared_filed_alone E n : NoDup (keys E) -> In n (keys E) ->
  (forall n', In n' (keys E) -> lower n' = lower n -> n' = n) ->
  lookup (lower n) (lower_names E) = lookup n E.
Proof.
  intros Hnd Hin Hal. destruct (declared_filed E n Hnd Hin) as [n' [H1 [H2 H3]]].
  rewrite H3, (Hal n' H1 H2). reflexivity.
Qed.

Lemma NoDup_keys_lower_step acc n : NoDup (keys acc) -> NoDup (keys (lower_step acc n)).
Proof.
  intros H. unfold lower_step. destruct (String.eqb n (lower n)); [exact H|].
  destruct (lookup n acc); [|exact H]. apply NoDup_keys_remove. apply NoDup_keys_set. exact H.
Qed.

Lemma NoDup_keys_lower_names E : NoDup (keys E) -> NoDup (keys (lower_names E)).
Proof.
  unfold lower_names. generalize (keys E) at 2 as ks. intros ks. revert E.
  induction ks as [|n r IH]; intros E H; cbn [fold_left]; [exact H|].
  apply IH. apply NoDup_keys_lower_step. exact H.
Qed.

(* the names held afterwards: exactly the lower-case forms of the declared names *)
Lemma held_names E : NoDup (keys E) -> forall m,
  In m (keys (lower_names E)) <-> exists n, In n (keys E) /\ lower n = m.
Proof.
  intros Hnd m. split.
  - intros H. destruct (In_keys_lookup _ _ H) as [v Hv]. rewrite declared_spelling in Hv by exact Hnd.
    destruct (last_spelling (keys E) m) as [s|] eqn:Es.
    + apply last_spelling_In in Es as [H1 H2]. unfold spells in H2. apply andb_true_iff in H2 as [H2 _].
      apply String.eqb_eq in H2. exists s. split; assumption.
    + destruct (String.eqb_spec (lower m) m) as [El|El]; [|discriminate].
      exists m. split; [eapply lookup_Some_In; exact Hv|exact El].
  - intros [n [Hin <-]]. destruct (declared_filed E n Hnd Hin) as [n' [H1 [_ H3]]].
    destruct (In_keys_lookup _ _ H1) as [v Hv]. rewrite Hv in H3. eapply lookup_Some_In. exact H3.
Qed.

Lemma held_lower E m : NoDup (keys E) -> In m (keys (lower_names E)) -> lower m = m.
Proof.
  intros Hnd H. apply (held_names E Hnd) in H as [n [_ <-]]. apply lower_idem.
Qed.
