(* C17 — proofs about the non-primitive route (Env.InstModel): what instance()/replicate() file
   under a name, which context interpolates it, and how the replicated configuration selects. *)
From Coq Require Import String Ascii List Bool ZArith Lia.
Import ListNotations.
Require Import V.Lib.PyStr V.Env.Model V.Env.Proofs V.Env.Lower V.Env.InstModel.
Open Scope string_scope.
Open Scope list_scope.

(* ------------------------------------------------------------------ the layering loop of instance() *)
Lemma lookup_layer (Pt : envtab) : NoDup (keys Pt) -> forall (Dt : envtab) n,
  lookup n (fold_left layer_step Pt Dt) =
  match lookup n Pt with
  | Some p => Some (match lookup n Dt with Some d => update d p | None => p end)
  | None => lookup n Dt
  end.
Proof.
  induction Pt as [|[m e] r IH]; intros Hnd Dt n; [reflexivity|].
  cbn [keys List.map fst] in Hnd. inversion Hnd as [|? ? Hm Hr]; subst.
  cbn [fold_left]. rewrite IH by exact Hr. cbn [lookup].
  destruct (String.eqb_spec n m) as [->|Hne].
  - assert (Hn : lookup m r = None) by (apply lookup_None_iff; exact Hm). rewrite Hn.
    unfold layer_step. cbn [fst snd]. destruct (lookup m Dt); apply lookup_set_eq.
  - assert (Hs : lookup n (layer_step Dt (m, e)) = lookup n Dt).
    { unfold layer_step. cbn [fst snd]. destruct (lookup m Dt); apply lookup_set_neq; exact Hne. }
    rewrite Hs. reflexivity.
Qed.

Lemma keys_layer (Pt : envtab) : forall (Dt : envtab) n,
  In n (keys (fold_left layer_step Pt Dt)) -> In n (keys Dt) \/ In n (keys Pt).
Proof.
  induction Pt as [|[m e] r IH]; intros Dt n H; [left; exact H|].
  cbn [fold_left] in H. apply IH in H. destruct H as [H|H]; [|right; cbn; right; exact H].
  unfold layer_step in H. cbn [fst snd] in H.
  destruct (lookup m Dt); apply In_keys_set in H; (destruct H as [->|H]; [right; cbn; left; reflexivity|left; exact H]).
Qed.

(* what instance() interpolates under a name: the selected platform's environment layered over
   platform default's *)
Definition layered_raw (c : cfg) (n : string) : option rawenv :=
  match lookup n (P c), (if is_default c then None else lookup n (D c)) with
  | Some p, Some d => Some (update d p)
  | Some p, None => Some p
  | None, d => d
  end.

Lemma inst_layer_lookup c n : NoDup (keys (P c)) -> lookup n (inst_layer c) = layered_raw c n.
Proof.
  intros H. unfold inst_layer, layered_raw. rewrite lookup_layer by exact H.
  destruct (lookup n (P c)); destruct (is_default c); cbn; try reflexivity.
  destruct (lookup n (D c)); reflexivity.
Qed.

Lemma fill_env_keys g e : keys (fill_env g e) = keys e.
Proof. unfold fill_env. apply (keys_map_val (fun kv => fill_ign (update g e) (snd kv))). Qed.

Lemma fill_env_lookup g e k : lookup k (fill_env g e) = option_map (fill_ign (update g e)) (lookup k e).
Proof. unfold fill_env. apply lookup_map_val. Qed.

(* instance()[environments][default][n] = the layered environment of that name, each string value
   interpolated in the context "global variables of the platform, updated by THIS environment" *)
Lemma instance_environment v n : NoDup (keys (P (base v))) ->
  lookup n (inst_envs v) = option_map (fill_env (inst_globals v)) (layered_raw (base v) n).
Proof.
  intros H. unfold inst_envs.
  rewrite (lookup_map_val (fill_env (inst_globals v)) n (inst_layer (base v))).
  rewrite inst_layer_lookup by exact H. reflexivity.
Qed.

Lemma inst_globals_ext v1 v2 : is_default (base v1) = is_default (base v2) ->
  dglob v1 = dglob v2 -> pglob v1 = pglob v2 -> inst_globals v1 = inst_globals v2.
Proof. intros H1 H2 H3. unfold inst_globals. rewrite H1, H2, H3. reflexivity. Qed.

(* no other environment matters: two documents that give the same global variables and the same
   environment n on the selected and on the default platform file the same thing under n *)
Lemma other_environments_irrelevant v1 v2 n :
  NoDup (keys (P (base v1))) -> NoDup (keys (P (base v2))) ->
  is_default (base v1) = is_default (base v2) -> dglob v1 = dglob v2 -> pglob v1 = pglob v2 ->
  lookup n (P (base v1)) = lookup n (P (base v2)) ->
  (is_default (base v1) = false -> lookup n (D (base v1)) = lookup n (D (base v2))) ->
  lookup n (inst_envs v1) = lookup n (inst_envs v2).
Proof.
  intros N1 N2 Hd Hg Hp HP HD. rewrite !instance_environment by assumption.
  rewrite (inst_globals_ext v1 v2 Hd Hg Hp). f_equal.
  unfold layered_raw. rewrite <- HP, <- Hd. destruct (is_default (base v1)); [reflexivity|].
  rewrite HD by reflexivity. reflexivity.
Qed.

(* interpolation neither adds nor removes a variable: the variables of the filed environment are
   those the selected platform or platform default declare under that name *)
Lemma instance_variables v n e : NoDup (keys (P (base v))) -> lookup n (inst_envs v) = Some e ->
  forall k, In k (keys e) <->
    (exists p, lookup n (P (base v)) = Some p /\ In k (keys p)) \/
    (is_default (base v) = false /\ exists d, lookup n (D (base v)) = Some d /\ In k (keys d)).
Proof.
  intros H He k. rewrite instance_environment in He by exact H. unfold layered_raw in He.
  destruct (lookup n (P (base v))) as [p|]; destruct (is_default (base v)); cbn in He.
  - injection He as <-. rewrite fill_env_keys. split.
    + intros Hk. left. exists p. split; [reflexivity|exact Hk].
    + intros [[p' [[= <-] Hk]]|[Hf _]]; [exact Hk|discriminate].
  - destruct (lookup n (D (base v))) as [d|]; cbn in He; injection He as <-; rewrite fill_env_keys.
    + rewrite In_keys_update. split.
      * intros [Hk|Hk]; [right; split; [reflexivity|exists d; split; [reflexivity|exact Hk]]
                        |left; exists p; split; [reflexivity|exact Hk]].
      * intros [[p' [[= <-] Hk]]|[_ [d' [[= <-] Hk]]]]; [right|left]; exact Hk.
    + split.
      * intros Hk. left. exists p. split; [reflexivity|exact Hk].
      * intros [[p' [[= <-] Hk]]|[_ [d' [Hd _]]]]; [exact Hk|discriminate].
  - discriminate.
  - destruct (lookup n (D (base v))) as [d|]; cbn in He; [|discriminate]. injection He as <-.
    rewrite fill_env_keys. split.
    + intros Hk. right. split; [reflexivity|]. exists d. split; [reflexivity|exact Hk].
    + intros [[p' [Hp _]]|[_ [d' [[= <-] Hk]]]]; [discriminate|exact Hk].
Qed.

(* ------------------------------------------------------------------ text without "%" *)
Definition nopct (s : string) : bool := all_chars (fun c => negb (Ascii.eqb c "%"%char)) s.

Lemma pscan_literal res s : nopct s = true ->
  render_lenient res (pscan 0 s) = s /\ render_strict res (pscan 0 s) = Some s.
Proof.
  induction s as [|c r IH]; intros H; [split; reflexivity|].
  unfold nopct in H. cbn [all_chars] in H. apply andb_true_iff in H. destruct H as [Hc Hr].
  cbn [pscan]. destruct (Ascii.eqb c "%"%char); [discriminate|].
  destruct (IH Hr) as [H1 H2]. cbn [render_lenient render_strict]. rewrite H1, H2. split; reflexivity.
Qed.

Lemma interp_ign_literal fuel ctx s : nopct s = true -> interp_ign fuel ctx s = s.
Proof. intros H. unfold interp_ign. apply pscan_literal. exact H. Qed.

Lemma interp_literal fuel ctx s : nopct s = true -> interp (S fuel) ctx s = Some s.
Proof. intros H. cbn [interp]. apply pscan_literal. exact H. Qed.

Definition raw_nopct (r : raw) : bool := match r with RStr s => nopct s | _ => true end.

Lemma fill_ign_literal ctx r : raw_nopct r = true -> fill_ign ctx r = r.
Proof. destruct r; cbn; intros H; try reflexivity. rewrite interp_ign_literal by exact H. reflexivity. Qed.

(* an environment whose values hold no "%" is filed as declared (the route of the earlier rounds) *)
Lemma fill_env_literal g e : forallb (fun kv => raw_nopct (snd kv)) e = true -> fill_env g e = e.
Proof.
  unfold fill_env. generalize (update g e) as ctx. intros ctx.
  induction e as [|[k r] t IH]; intros H; [reflexivity|].
  cbn [forallb snd] in H. apply andb_true_iff in H. destruct H as [Hr Ht].
  cbn [List.map fst snd]. rewrite fill_ign_literal by exact Hr. rewrite IH by exact Ht. reflexivity.
Qed.

(* ------------------------------------------------------------------ the replicated configuration *)
Lemma inst_envs_keys v : keys (inst_envs v) = keys (inst_layer (base v)).
Proof. unfold inst_envs. apply (keys_map_val (fun ne => fill_env (inst_globals v) (snd ne))). Qed.

Lemma inst_envs_lower v : NoDup (keys (denvs (base v))) -> NoDup (keys (penvs (base v))) ->
  lower_names (inst_envs v) = inst_envs v.
Proof.
  intros Hd Hp. apply lower_names_id. apply Forall_forall. intros n Hn.
  rewrite inst_envs_keys in Hn. unfold inst_layer in Hn. apply keys_layer in Hn.
  destruct Hn as [Hn|Hn].
  - destruct (is_default (base v)); [destruct Hn|]. unfold D in Hn. exact (held_lower _ _ Hd Hn).
  - unfold P in Hn. destruct (is_default (base v)); [exact (held_lower _ _ Hd Hn)|exact (held_lower _ _ Hp Hn)].
Qed.

Lemma NoDup_P c : NoDup (keys (denvs c)) -> NoDup (keys (penvs c)) -> NoDup (keys (P c)).
Proof. intros Hd Hp. unfold P. destruct (is_default c); apply NoDup_keys_lower_names; assumption. Qed.

(* the configuration rebuilt from the replicated document knows exactly the names the original
   one knows: FlowIREnvironmentUnknown on one route iff on the other *)
Lemma replicated_unknown v n : NoDup (keys (denvs (base v))) -> NoDup (keys (penvs (base v))) ->
  lower n = n -> n <> "none" ->
  (get_environment (base (replicated v)) n = ErrUnknown <-> get_environment (base v) n = ErrUnknown).
Proof.
  intros Hd Hp Hl Hn. rewrite !get_environment_unknown by assumption.
  assert (HN : NoDup (keys (P (base v)))) by (apply NoDup_P; assumption).
  assert (HD' : D (base (replicated v)) = inst_envs v) by (unfold D; cbn; apply inst_envs_lower; assumption).
  assert (HP' : P (base (replicated v)) = if is_default (base v) then inst_envs v else []).
  { unfold P. cbn. destruct (is_default (base v)); [apply inst_envs_lower; assumption|reflexivity]. }
  rewrite HD', HP'. cbn [replicated base is_default].
  pose proof (instance_environment v n HN) as Hi. unfold layered_raw in Hi.
  destruct (is_default (base v)) eqn:Ed.
  - rewrite Hi. destruct (lookup n (P (base v))); cbn; split; intros [H1 H2]; try discriminate;
      (split; [reflexivity|intros; discriminate]).
  - cbn [lookup]. rewrite Hi.
    destruct (lookup n (P (base v))); destruct (lookup n (D (base v))); cbn; split; intros [H1 H2];
      try discriminate; try (specialize (H2 eq_refl); discriminate);
      (split; [reflexivity|intros _; reflexivity]).
Qed.

(* ------------------------------------------------------------------ the interpolation context
   Each value of the environment filed under n is the declared (layered) value interpolated in a
   context that holds, for every name X, this environment's own X if it declares one and the
   platform's global variable X otherwise - never the variable of another environment. *)
Lemma interpolation_context v n e : NoDup (keys (P (base v))) -> layered_raw (base v) n = Some e ->
  NoDup (keys e) ->
  exists ctx,
    (forall X, lookup X ctx = match lookup X e with Some r => Some r | None => lookup X (inst_globals v) end) /\
    (forall k, option_map (fun e' => lookup k e') (lookup n (inst_envs v)) =
               Some (option_map (fill_ign ctx) (lookup k e))).
Proof.
  intros H He Hnd. exists (update (inst_globals v) e). split.
  - intros X. apply lookup_update. exact Hnd.
  - intros k. rewrite instance_environment by exact H. rewrite He. cbn [option_map].
    rewrite fill_env_lookup. reflexivity.
Qed.
