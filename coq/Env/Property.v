(* C17 — Component environments are built only from their declared sources.  Property theorems only.
   In the theorems about the construction of the environment tsub / osexp / fillin
   (string.Template.safe_substitute, os.path.expandvars, FlowIR.fill_in on a value) are universally
   quantified: they hold whatever these do to values.  The theorems about references inside values
   are about the executable models Model.tm_sub / Model.os_expand of the first two. *)
From Coq Require Import String List Bool ZArith.
Import ListNotations.
Require Import V.Lib.PyStr V.Env.Model V.Env.Proofs V.Env.Lower V.Env.Subst.
Open Scope string_scope.
Open Scope list_scope.

(* Every variable of the task environment is a system variable, a variable of the selected
   environment, a launch variable imported by name through DEFAULTS, or (interpreter components) one
   of the four search-path variables present in the launch environment. *)
Theorem C17_sources : forall tsub osexp fillin c launch name interp env,
  env_for_node tsub osexp fillin c launch name interp = Ok env ->
  exists sel, selected c launch name = Ok sel /\
    forall k, In k (keys env) ->
      In k (keys (sysv c)) \/ In k (keys sel) \/
      (In k (defaults_names (update (sysv c) sel)) /\ In k (keys launch)) \/
      (interp = true /\ In k PATH_VARS /\ In k (keys launch)).
Proof. exact sources. Qed.
Print Assumptions C17_sources.

(* What "selected" is: nothing for "none"; the package's default environment — or the launch
   environment when no platform visible to the selection declares one — for no selection;
   get_environment of the lower-cased name otherwise. *)
Theorem C17_selected : forall c launch name,
  (norm_name name = "none" -> selected c launch name = Ok []) /\
  (norm_name name = "" \/ norm_name name = "environment" ->
     selected c launch name = Ok (default_environment c launch) /\
     (lookup "environment" (P c) = None /\ (is_default c = false -> lookup "environment" (D c) = None) ->
        default_environment c launch = launch) /\
     (dict_cfg c ->
      ~ (lookup "environment" (P c) = None /\ (is_default c = false -> lookup "environment" (D c) = None)) ->
        forall k, lookup k (default_environment c launch) = layered c "environment" k)) /\
  (~ special (norm_name name) -> selected c launch name = get_environment c (norm_name name)).
Proof.
  intros c launch name. split; [apply selected_none|]. split; [|apply selected_named].
  intros H. split; [apply selected_default; exact H|]. split.
  - intros [H1 H2]. apply default_environment_launch; assumption.
  - intros Hd Hn k. apply default_environment_declared; assumption.
Qed.
Print Assumptions C17_selected.

(* Named environment: FlowIREnvironmentUnknown exactly when neither the selected platform nor
   platform default holds the lower-cased name; otherwise each variable has the selected platform's
   value if that platform declares it, else platform default's. *)
Theorem C17_layering : forall c launch name, ~ special (norm_name name) ->
  (selected c launch name = ErrUnknown <->
     lookup (norm_name name) (P c) = None /\ (is_default c = false -> lookup (norm_name name) (D c) = None)) /\
  (dict_cfg c -> forall sel k, selected c launch name = Ok sel ->
     lookup k sel = match declared (P c) (norm_name name) k with
                    | Some v => Some v
                    | None => if is_default c then None else declared (D c) (norm_name name) k
                    end).
Proof.
  intros c launch name Hs. rewrite selected_named by exact Hs.
  assert (Hn : norm_name name <> "none") by (intros E; apply Hs; right; right; exact E).
  split.
  - apply get_environment_unknown; [apply norm_name_lower|exact Hn].
  - intros Hd sel k H.
    apply (get_environment_lookup c _ sel k (norm_name_lower name) Hn (dict_cfg_D c Hd) (dict_cfg_P c Hd) H).
Qed.
Print Assumptions C17_layering.

(* The error reaches the caller of environmentForNode, and only that error. *)
Theorem C17_unknown_error : forall tsub osexp fillin c launch name interp,
  selected c launch name = ErrUnknown <-> env_for_node tsub osexp fillin c launch name interp = ErrUnknown.
Proof. exact unknown_propagates. Qed.
Print Assumptions C17_unknown_error.

(* The requested name is compared lower-cased: any spelling selects the same environment. *)
Theorem C17_name_spelling : forall tsub osexp fillin c launch n interp,
  env_for_node tsub osexp fillin c launch (Some (lower n)) interp =
  env_for_node tsub osexp fillin c launch (Some n) interp.
Proof. exact for_node_case. Qed.
Print Assumptions C17_name_spelling.

(* No other variable of the launch environment appears. *)
Theorem C17_no_leak : forall tsub osexp fillin c launch name interp env sel k,
  env_for_node tsub osexp fillin c launch name interp = Ok env ->
  selected c launch name = Ok sel ->
  In k (keys launch) ->
  ~ In k (keys (sysv c)) -> ~ In k (keys sel) ->
  ~ In k (defaults_names (update (sysv c) sel)) ->
  (interp = true -> ~ In k PATH_VARS) ->
  ~ In k (keys env).
Proof. exact no_leak. Qed.
Print Assumptions C17_no_leak.

(* The import list itself is never handed to the task. *)
Theorem C17_no_defaults_key : forall tsub osexp fillin c launch name interp env,
  env_for_node tsub osexp fillin c launch name interp = Ok env -> ~ In "DEFAULTS" (keys env).
Proof. exact no_defaults_label. Qed.
Print Assumptions C17_no_defaults_key.

(* Unexpanded environment (environmentWithName(expand=False)): a variable that is not imported through
   DEFAULTS has the selected environment's value, else the system variable's. *)
Theorem C17_unexpanded : forall tsub osexp c launch name sel env k,
  NoDup (keys launch) ->
  env_with_name tsub osexp c launch name false = Ok env ->
  selected c launch name = Ok sel ->
  k <> "DEFAULTS" ->
  ~ (In k (defaults_names (update (sysv c) sel)) /\ In k (keys launch)) ->
  lookup k env = match lookup k sel with Some v => Some v | None => lookup k (sysv c) end.
Proof. exact unexpanded_value. Qed.
Print Assumptions C17_unexpanded.

(* Imported by name: a launch variable listed (once) in DEFAULTS that neither the selected environment
   nor the system variables define carries its launch value. *)
Theorem C17_imported : forall tsub osexp c launch name sel env k lv,
  env_with_name tsub osexp c launch name false = Ok env ->
  selected c launch name = Ok sel ->
  k <> "DEFAULTS" ->
  NoDup (defaults_names (update (sysv c) sel)) -> In k (defaults_names (update (sysv c) sel)) ->
  lookup k launch = Some lv -> ~ In k (keys sel) -> ~ In k (keys (sysv c)) ->
  lookup k env = Some lv.
Proof. exact imported_value. Qed.
Print Assumptions C17_imported.

(* Expansion order: each non-empty unexpanded value is expanded first from the (unexpanded)
   environment itself and then from the launch environment; empty values vanish; environmentForNode
   passes the result through fill_in and interpreter variables never override it. *)
Theorem C17_expansion : forall tsub osexp fillin c launch name interp env,
  NoDup (keys (sysv c)) ->
  env_with_name tsub osexp c launch name false = Ok env ->
  exists res out,
    env_with_name tsub osexp c launch name true = Ok res /\
    env_for_node tsub osexp fillin c launch name interp = Ok out /\
    forall k,
      lookup k res = match lookup k env with
                     | Some v => if String.eqb v "" then None else Some (osexp launch (tsub env v))
                     | None => None
                     end /\
      (In k (keys res) -> lookup k out = option_map fillin (lookup k res)).
Proof.
  intros tsub osexp fillin c launch name interp env Hs He.
  destruct (expanded_value tsub osexp c launch name env Hs He) as [res [Hr Hl]].
  assert (Ho : exists out, env_for_node tsub osexp fillin c launch name interp = Ok out).
  { unfold env_for_node. rewrite Hr. eexists. reflexivity. }
  destruct Ho as [out Ho]. exists res, out. split; [exact Hr|]. split; [exact Ho|].
  intros k. split; [apply Hl|]. apply (for_node_value tsub osexp fillin c launch name interp res out k Hr Ho).
Qed.
Print Assumptions C17_expansion.

(* The empty environment is exactly the system variables (no DEFAULTS among them). *)
Theorem C17_none : forall tsub osexp c launch name,
  norm_name name = "none" -> lookup "DEFAULTS" (sysv c) = None ->
  env_with_name tsub osexp c launch name false = Ok (sysv c).
Proof. exact none_env. Qed.
Print Assumptions C17_none.

(* Nothing declared is lost: every variable with a non-empty unexpanded value reaches the task, and an
   interpreter component has every search-path variable the launch environment has. *)
Theorem C17_present : forall tsub osexp fillin c launch name interp env out,
  NoDup (keys (sysv c)) ->
  env_with_name tsub osexp c launch name false = Ok env ->
  env_for_node tsub osexp fillin c launch name interp = Ok out ->
  (forall k v, lookup k env = Some v -> v <> "" -> In k (keys out)) /\
  (interp = true -> forall k, In k PATH_VARS -> In k (keys launch) -> In k (keys out)).
Proof.
  intros tsub osexp fillin c launch name interp env out Hs He Ho. split.
  - intros k v. apply (present tsub osexp fillin c launch name interp env out k v Hs He Ho).
  - intros -> k. apply (interp_present tsub osexp fillin c launch name out k Ho).
Qed.
Print Assumptions C17_present.

(* Declared names, for EVERY table that is a dictionary (distinct declared names): what FlowIR.from_dict
   files under a name m is the environment declared under the last (in declaration order) spelling of
   m that is not m itself - later spellings overwrite earlier ones and the lower-case spelling - else
   the environment declared as m when m is lower-case; nothing under names that are not lower-case.
   (The hypothesis is necessary for the association-list model: C17_declared_spelling_dict_refuted.) *)
Theorem C17_declared_spelling : forall (E : envtab) (m : string), NoDup (keys E) ->
  lookup m (lower_names E) =
  match last_spelling (keys E) m with
  | Some n => lookup n E
  | None => if String.eqb (lower m) m then lookup m E else None
  end.
Proof. intros E m H. apply declared_spelling. exact H. Qed.
Print Assumptions C17_declared_spelling.

(* [last_spelling] read as a decomposition of the declaration order *)
Theorem C17_last_spelling : forall ks m,
  (forall n, last_spelling ks m = Some n ->
     exists l1 l2, ks = l1 ++ n :: l2 /\ lower n = m /\ n <> m /\
                   forall x, In x l2 -> ~ (lower x = m /\ x <> m)) /\
  (last_spelling ks m = None -> forall x, In x ks -> ~ (lower x = m /\ x <> m)).
Proof.
  assert (S1 : forall m x, spells m x = true -> lower x = m /\ x <> m).
  { intros m x H. unfold spells in H. apply andb_true_iff in H as [H1 H2]. apply String.eqb_eq in H1.
    apply negb_true_iff in H2. apply String.eqb_neq in H2. split; assumption. }
  assert (S0 : forall m x, spells m x = false -> ~ (lower x = m /\ x <> m)).
  { intros m x H [H1 H2]. unfold spells in H. apply String.eqb_eq in H1. apply String.eqb_neq in H2.
    rewrite H1, H2 in H. discriminate. }
  intros ks m. split.
  - intros n H. destruct (last_spelling_split ks m n H) as [l1 [l2 [E [H1 H2]]]].
    exists l1, l2. destruct (S1 _ _ H1) as [A B]. repeat split; try assumption.
    intros x Hx. apply S0. apply H2. exact Hx.
  - intros H x Hx. apply S0. exact (last_spelling_None ks m H x Hx).
Qed.
Print Assumptions C17_last_spelling.

(* Each declared environment is filed under the lower-case form of its name: what is held there is the
   environment declared under some spelling of that name, and the environment itself when no other
   declared name has the same lower-case form. *)
Theorem C17_declared_filed : forall (E : envtab) (n : string), NoDup (keys E) -> In n (keys E) ->
  (exists n', In n' (keys E) /\ lower n' = lower n /\ lookup (lower n) (lower_names E) = lookup n' E) /\
  ((forall n', In n' (keys E) -> lower n' = lower n -> n' = n) ->
   lookup (lower n) (lower_names E) = lookup n E).
Proof.
  intros E n Hd Hi. split; [apply declared_filed; assumption|apply declared_filed_alone; assumption].
Qed.
Print Assumptions C17_declared_filed.

(* The names held after from_dict are exactly the lower-case forms of the declared names, each once. *)
Theorem C17_declared_held : forall (E : envtab), NoDup (keys E) ->
  NoDup (keys (lower_names E)) /\
  forall m, (In m (keys (lower_names E)) <-> exists n, In n (keys E) /\ lower n = m) /\
            (In m (keys (lower_names E)) -> lower m = m).
Proof.
  intros E H. split; [apply NoDup_keys_lower_names; exact H|].
  intros m. split; [apply held_names; exact H|apply held_lower; exact H].
Qed.
Print Assumptions C17_declared_held.

(* Declared names, bounded scope (the bound is in the statement): for every table of at most three
   environments named by spellings from Proofs.spellings that do not collide after lower-casing,
   FlowIR.from_dict files each environment under the lower-case form of its declared name, every held
   name is lower-case and none is lost.  (Kept from the first version; the theorems above cover
   arbitrary tables, colliding spellings included.) *)
Theorem C17_declared_spelling_small : forall names,
  In names (lists_upto3 spellings) -> distinct_lower names = true -> found_lower names = true.
Proof. exact declared_spelling_small. Qed.
Print Assumptions C17_declared_spelling_small.

(* ---------------------------------------------------------------- references inside values *)
Open Scope string_scope.     (* from here on ++ is string append *)
(* string.Template.safe_substitute (Model.tm_sub): ${X} and $X with X an identifier are replaced by
   the mapping's value, left as written when the mapping has no X; "$$" is an escaped "$". *)
Theorem C17_template_reference : forall m X post, is_ident X = true ->
  tm_sub m ("${" ++ X ++ "}" ++ post) =
    (match lookup X m with Some v => v | None => "${" ++ X ++ "}" end) ++ tm_sub m post /\
  (ends_name post = true ->
   tm_sub m ("$" ++ X ++ post) = (match lookup X m with Some v => v | None => "$" ++ X end) ++ tm_sub m post) /\
  tm_sub m ("$$" ++ post) = "$" ++ tm_sub m post.
Proof.
  intros m X post H. split; [apply tm_braced; exact H|]. split; [intros Hp; apply tm_named; assumption|reflexivity].
Qed.
Print Assumptions C17_template_reference.

(* posixpath.expandvars (Model.os_expand): ${X} for any X without "}" and $X for a non-empty word X
   are replaced by the launch value, verbatim, left as written when X is not set; "$$" escapes nothing. *)
Theorem C17_expandvars_reference : forall m X post,
  (nobrace X = true ->
   os_expand m ("${" ++ X ++ "}" ++ post) =
     (match lookup X m with Some v => v | None => "${" ++ X ++ "}" end) ++ os_expand m post) /\
  (all_chars id_char X = true -> X <> "" -> ends_name post = true ->
   os_expand m ("$" ++ X ++ post) = (match lookup X m with Some v => v | None => "$" ++ X end) ++ os_expand m post) /\
  os_expand m ("$$" ++ post) = "$" ++ os_expand m ("$" ++ post).
Proof.
  intros m X post. split; [intros H; apply os_braced; exact H|].
  split; [intros H1 H2 H3; apply os_named; assumption|reflexivity].
Qed.
Print Assumptions C17_expandvars_reference.

(* A value without "$" reaches the task as written: nothing of the launch environment gets into it. *)
Theorem C17_literal_value : forall env launch v, nodollar v = true -> os_expand launch (tm_sub env v) = v.
Proof. exact literal_value. Qed.
Print Assumptions C17_literal_value.

(* Expansion order on a variable of the task environment whose unexpanded value is  pre ${X} post
   (pre without "$"): X comes from the environment itself when it defines X - its unexpanded value,
   which expandvars then scans together with the rest; the launch value of X plays no role - else from
   the launch environment, verbatim; else the reference stays as written. *)
Theorem C17_reference_order : forall c launch name env k pre X post,
  NoDup (keys (sysv c)) ->
  env_with_name tm_sub os_expand c launch name false = Ok env ->
  lookup k env = Some (pre ++ "${" ++ X ++ "}" ++ post) ->
  nodollar pre = true -> is_ident X = true ->
  exists res, env_with_name tm_sub os_expand c launch name true = Ok res /\
    lookup k res = Some match lookup X env with
                        | Some v => pre ++ os_expand launch (v ++ tm_sub env post)
                        | None => pre ++ (match lookup X launch with Some lv => lv | None => "${" ++ X ++ "}" end)
                                      ++ os_expand launch (tm_sub env post)
                        end.
Proof. exact reference_in_env. Qed.
Print Assumptions C17_reference_order.

(* No other variable of the launch environment appears - neither as a variable nor inside a value:
   two launch environments under which the same environment is selected and that agree on the names it
   imports through DEFAULTS, on the four search-path variables (interpreter components only) and on
   the names os.path.expandvars looks up in its values build the same task environment.  (A launch
   variable that a value references by name does reach that value without being listed in DEFAULTS -
   the property's first clause; C17_referenced_launch_variable_refuted shows the third hypothesis is
   necessary.) *)
Theorem C17_launch_independence : forall fillin c l l' name interp sel,
  selected c l name = Ok sel -> selected c l' name = Ok sel ->
  agree_on (defaults_names (update (sysv c) sel)) l l' ->
  (interp = true -> agree_on PATH_VARS l l') ->
  (forall env k v, env_with_name tm_sub os_expand c l name false = Ok env -> In (k, v) env ->
                   agree_on (os_refs (tm_sub env v)) l l') ->
  env_with_name tm_sub os_expand c l name false = env_with_name tm_sub os_expand c l' name false /\
  env_for_node tm_sub os_expand fillin c l name interp = env_for_node tm_sub os_expand fillin c l' name interp.
Proof. exact launch_independence. Qed.
Print Assumptions C17_launch_independence.

(* The selection itself does not look at the launch environment, except when nothing is selected and no
   visible platform declares the default environment. *)
Theorem C17_selected_launch_free : forall c l l' name,
  get_environment c "environment" <> ErrUnknown \/ ~ (norm_name name = "" \/ norm_name name = "environment") ->
  selected c l name = selected c l' name.
Proof. exact selected_launch_free. Qed.
Print Assumptions C17_selected_launch_free.

(* non-vacuity: platform p, environment requested as "FOO", declared "Foo" on default and "foo" on p;
   Template/expandvars instantiated by Model.subst *)
Definition ex_cfg : cfg := {|
  is_default := false;
  denvs := [("Foo", [("A", RStr "a-default"); ("ONLYD", RStr "d-$HOME"); ("DEFAULTS", RStr "PATH:NOPE"); ("E", RNull); ("N", RInt 7)])];
  penvs := [("foo", [("A", RStr "a-p"); ("B", RStr "b:$A:${LV}:$INSTANCE_DIR")])];
  sysv := [("INSTANCE_DIR", "/inst")] |}.
Definition ex_launch : map := [("PATH", "/bin"); ("HOME", "/h"); ("LV", "launch"); ("SECRET", "s"); ("PYTHONPATH", "/pp")].
Example C17_nonvacuous :
  env_for_node_c ex_cfg ex_launch (Some "FOO") true =
    Ok [("INSTANCE_DIR", "/inst"); ("A", "a-p"); ("ONLYD", "d-/h"); ("N", "7"); ("B", "b:a-p:launch:/inst");
        ("PATH", "/bin"); ("PYTHONPATH", "/pp")]
  /\ dict_cfg ex_cfg /\ ~ special (norm_name (Some "FOO"))
  /\ env_for_node_c ex_cfg ex_launch (Some "bar") false = ErrUnknown.
Proof.
  split; [vm_compute; reflexivity|]. split.
  - split; intros n e [H|[]]; injection H as <- <-; cbn;
      repeat (constructor; [cbn; intuition discriminate|]); constructor.
  - split; [|vm_compute; reflexivity].
    intros [H|[H|H]]; vm_compute in H; discriminate.
Qed.

(* non-vacuity of the new hypotheses: a table with three spellings of one name (the last declared
   non-lower-case one wins, also over the lower-case one), two launch environments that differ in a
   variable the environment neither imports nor references, and a value  x:${LV}:${W}. *)
Definition ex_tab : envtab := [("Foo", [("A", RStr "1")]); ("foo", [("B", RStr "2")]); ("FOO", [("C", RStr "3")]); ("bar", [])].
Definition ex_cfg2 : cfg := {| is_default := true; denvs := [("e", [("V", RStr "x:${LV}:${W}"); ("W", RStr "w")])]; penvs := []; sysv := [] |}.
Definition ex_launch' : map := [("PATH", "/bin"); ("HOME", "/h"); ("LV", "launch"); ("SECRET", "other"); ("PYTHONPATH", "/pp"); ("EXTRA", "x")].
Example C17_nonvacuous_new :
  (NoDup (keys ex_tab) /\ last_spelling (keys ex_tab) "foo" = Some "FOO" /\
   lookup "foo" (lower_names ex_tab) = Some [("C", RStr "3")] /\ keys (lower_names ex_tab) = ["foo"; "bar"]) /\
  (exists sel, selected ex_cfg ex_launch (Some "FOO") = Ok sel /\ selected ex_cfg ex_launch' (Some "FOO") = Ok sel /\
     agree_on (defaults_names (update (sysv ex_cfg) sel)) ex_launch ex_launch' /\
     agree_on PATH_VARS ex_launch ex_launch' /\
     (forall env k v, env_with_name tm_sub os_expand ex_cfg ex_launch (Some "FOO") false = Ok env -> In (k, v) env ->
                      agree_on (os_refs (tm_sub env v)) ex_launch ex_launch') /\
     lookup "SECRET" ex_launch <> lookup "SECRET" ex_launch') /\
  (exists env, env_with_name tm_sub os_expand ex_cfg2 ex_launch (Some "E") false = Ok env /\
     NoDup (keys (sysv ex_cfg2)) /\ lookup "V" env = Some ("x:" ++ "${" ++ "LV" ++ "}" ++ ":${W}") /\
     nodollar "x:" = true /\ is_ident "LV" = true /\ lookup "LV" env = None /\
     env_with_name tm_sub os_expand ex_cfg2 ex_launch (Some "E") true = Ok [("V", "x:launch:w"); ("W", "w")]).
Proof.
  split; [|split; [|eexists; split; [vm_compute; reflexivity|]; split; [constructor|]; vm_compute; repeat split; reflexivity]].
  - split; [|vm_compute; repeat split; reflexivity].
    repeat (constructor; [cbn; intuition discriminate|]). constructor.
  - eexists. split; [vm_compute; reflexivity|]. split; [vm_compute; reflexivity|].
    split; [|split; [|split]].
    + intros n Hn. vm_compute in Hn. repeat (destruct Hn as [<-|Hn]; [reflexivity|]). destruct Hn.
    + intros n Hn. cbn in Hn. repeat (destruct Hn as [<-|Hn]; [reflexivity|]). destruct Hn.
    + intros env k v He Hin. vm_compute in He. injection He as <-.
      repeat (destruct Hin as [Hin|Hin];
              [injection Hin as <- <-; intros n Hn; vm_compute in Hn;
               repeat (destruct Hn as [<-|Hn]; [reflexivity|]); destruct Hn|]).
      destruct Hin.
    + vm_compute. discriminate.
Qed.

(* ================================================================== the non-primitive route
   (FlowIRConcrete.instance() / replicate(), FlowIRExperimentConfiguration(primitive=False)) and
   %(variable)s references inside environment values: Env.InstModel. *)
Require Import V.Env.InstModel V.Env.InstProofs.

(* What instance()/replicate() file under a name: the selected platform's environment of that name
   layered over platform default's (just the one that exists when only one does; nothing when
   neither), each string value interpolated by fill_env. *)
Theorem C17_instance_environment : forall v n, NoDup (keys (P (base v))) ->
  lookup n (inst_envs v) = option_map (fill_env (inst_globals v)) (layered_raw (base v) n).
Proof. exact instance_environment. Qed.
Print Assumptions C17_instance_environment.

(* The context that interpolates the %(X)s references of the environment filed under n: for every
   name X this environment's own variable X if it declares one, else the global variable X of the
   platform (platform default's, overridden by the selected platform's).  No variable of any other
   environment is visible. *)
Theorem C17_interpolation_context : forall v n e, NoDup (keys (P (base v))) ->
  layered_raw (base v) n = Some e -> NoDup (keys e) ->
  exists ctx,
    (forall X, lookup X ctx = match lookup X e with Some r => Some r | None => lookup X (inst_globals v) end) /\
    (forall k, option_map (fun e' => lookup k e') (lookup n (inst_envs v)) =
               Some (option_map (fill_ign ctx) (lookup k e))).
Proof. exact interpolation_context. Qed.
Print Assumptions C17_interpolation_context.

(* Environments of other names are irrelevant: two documents with the same global variables and the
   same environment n on the selected and on the default platform file the same thing under n. *)
Theorem C17_other_environments_irrelevant : forall v1 v2 n,
  NoDup (keys (P (base v1))) -> NoDup (keys (P (base v2))) ->
  is_default (base v1) = is_default (base v2) -> dglob v1 = dglob v2 -> pglob v1 = pglob v2 ->
  lookup n (P (base v1)) = lookup n (P (base v2)) ->
  (is_default (base v1) = false -> lookup n (D (base v1)) = lookup n (D (base v2))) ->
  lookup n (inst_envs v1) = lookup n (inst_envs v2).
Proof. exact other_environments_irrelevant. Qed.
Print Assumptions C17_other_environments_irrelevant.

(* Interpolation neither adds nor removes a variable: the variables of the environment filed under n
   are exactly those that the selected platform or (non-default platform) platform default declare
   under n. *)
Theorem C17_instance_variables : forall v n e, NoDup (keys (P (base v))) -> lookup n (inst_envs v) = Some e ->
  forall k, In k (keys e) <->
    (exists p, lookup n (P (base v)) = Some p /\ In k (keys p)) \/
    (is_default (base v) = false /\ exists d, lookup n (D (base v)) = Some d /\ In k (keys d)).
Proof. exact instance_variables. Qed.
Print Assumptions C17_instance_variables.

(* The configuration rebuilt from the replicated document raises FlowIREnvironmentUnknown for exactly
   the names for which the primitive one does. *)
Theorem C17_replicated_unknown : forall v n,
  NoDup (keys (denvs (base v))) -> NoDup (keys (penvs (base v))) -> lower n = n -> n <> "none" ->
  (get_environment (base (replicated v)) n = ErrUnknown <-> get_environment (base v) n = ErrUnknown).
Proof. exact replicated_unknown. Qed.
Print Assumptions C17_replicated_unknown.

(* An environment whose values contain no "%" is filed as declared: on such documents the
   non-primitive route coincides with the one of the theorems above. *)
Theorem C17_instance_literal : forall g e,
  forallb (fun kv => raw_nopct (snd kv)) e = true -> fill_env g e = e.
Proof. exact fill_env_literal. Qed.
Print Assumptions C17_instance_literal.

(* non-vacuity: platform p; "tools" on default refers to the global G (overridden by p), to its own X and to H which only
   "legacy" defines as an environment variable (the global H is used, not legacy's); the primitive and the non-primitive
   route differ in when "$HOME" inside a global variable gets expanded *)
Definition ex_v : vcfg := {|
  base := {| is_default := false;
             denvs := [("legacy", [("H", RStr "h-of-legacy"); ("G", RInt 9)]);
                       ("Tools", [("X", RStr "x"); ("B", RStr "%(G)s:%(X)s:%(H)s:%(U)s"); ("N", RInt 7)])];
             penvs := [("tools", [("W", RStr "%(N)s-$B")])];
             sysv := [("INSTANCE_DIR", "/inst")] |};
  dglob := [("G", RStr "g"); ("H", RStr "h-%(G)s/$HOME")];
  pglob := [("G", RStr "gp")] |}.
Example C17_nonvacuous_instance :
  NoDup (keys (P (base ex_v))) /\ NoDup (keys (denvs (base ex_v))) /\ NoDup (keys (penvs (base ex_v))) /\
  layered_raw (base ex_v) "tools" =
    Some [("X", RStr "x"); ("B", RStr "%(G)s:%(X)s:%(H)s:%(U)s"); ("N", RInt 7); ("W", RStr "%(N)s-$B")] /\
  lookup "tools" (inst_envs ex_v) =
    Some [("X", RStr "x"); ("B", RStr "gp:x:h-gp/$HOME:%(U)s"); ("N", RInt 7); ("W", RStr "7-$B")] /\
  env_for_node_v (route true ex_v) ex_launch (Some "TOOLS") false = ErrVar /\
  env_with_name_v (route true ex_v) ex_launch (Some "TOOLS") =
    Ok3 [("INSTANCE_DIR", "/inst"); ("X", "x"); ("B", "gp:x:h-gp/$HOME:%(U)s"); ("N", "7"); ("W", "7-$B")] /\
  env_for_node_v (route false ex_v) ex_launch (Some "legacy") false = Ok3 [("INSTANCE_DIR", "/inst"); ("H", "h-of-legacy"); ("G", "9")] /\
  get_environment (base (replicated ex_v)) "missing" = ErrUnknown.
Proof.
  split; [vm_compute; repeat (constructor; [cbn; intuition discriminate|]); constructor|].
  split; [cbn; repeat (constructor; [cbn; intuition discriminate|]); constructor|].
  split; [cbn; repeat (constructor; [cbn; intuition discriminate|]); constructor|].
  vm_compute. repeat split; reflexivity.
Qed.

(* ------------------------------------------------------------------ ONE configuration object whose inputs change
   (round-6 gap): parametrize() for another platform / route / system variables, add_environment(), a changed
   launch environment between two questions.  Env.SessModel answers every question from the CURRENT state. *)
Require Import V.Env.SessModel V.Env.SessProofs.

(* parametrize(): whatever the object was asked and whatever was changed before (other platforms, add_environment,
   other system variables), afterwards it holds the configuration of the document it was created from, seen from
   the new platform, and every answer is the answer of a NEW object created for that platform under the launch
   environment of the moment of the question: nothing is remembered. *)
Theorem C17_parametrize_fresh : forall d s chs plat np sv name i,
  let s' := run_changes d s (chs ++ [ChParam plat np sv]) in
  st_cfg s' = configure d plat np sv /\
  ask_node s' name i = ask_node (init_state d plat np sv (st_launch s')) name i /\
  ask_default s' = ask_default (init_state d plat np sv (st_launch s')) /\
  forall expand, ask_name s' name expand = ask_name (init_state d plat np sv (st_launch s')) name expand.
Proof.
  intros d s chs plat np sv name i. cbn zeta. split; [apply parametrize_resets|]. apply parametrize_fresh.
Qed.
Print Assumptions C17_parametrize_fresh.

(* a changed launch environment replaces the old one completely and touches nothing else *)
Theorem C17_launch_replaces : forall d s chs l,
  st_cfg (run_changes d s (chs ++ [ChLaunch l])) = st_cfg (run_changes d s chs) /\
  st_launch (run_changes d s (chs ++ [ChLaunch l])) = l.
Proof. exact launch_replaces. Qed.
Print Assumptions C17_launch_replaces.

(* add_environment raises FlowIREnvironmentExists exactly when the target platform (platform default when asked
   for, else the active platform) already files the lower-cased name, or the name is "none" *)
Theorem C17_add_exists : forall v od name e,
  add_environment v od name e = None <-> gpe (target_tab v od) name <> None.
Proof. exact add_exists. Qed.
Print Assumptions C17_add_exists.

(* a stored environment: the target table gained the lower-cased name; platform, system variables, global
   variables and the other table are as before *)
Theorem C17_add_stored : forall v od name e v',
  NoDup (keys (denvs (base v))) -> NoDup (keys (penvs (base v))) ->
  add_environment v od name e = Some v' ->
  is_default (base v') = is_default (base v) /\ sysv (base v') = sysv (base v) /\
  dglob v' = dglob v /\ pglob v' = pglob v /\
  (if od || is_default (base v)
   then D (base v') = set (lower name) e (D (base v)) /\ (is_default (base v) = false -> P (base v') = P (base v))
   else D (base v') = D (base v) /\ P (base v') = set (lower name) e (P (base v))).
Proof. exact add_stored. Qed.
Print Assumptions C17_add_stored.

(* ... so it is found under every spelling of its name, and the environment of no other name changes *)
Theorem C17_add_found : forall v od name e v',
  NoDup (keys (denvs (base v))) -> NoDup (keys (penvs (base v))) ->
  add_environment v od name e = Some v' ->
  (forall m, lower m = lower name -> exists env, get_environment (base v') m = Ok env) /\
  (forall m, lower m <> lower name -> get_environment (base v') m = get_environment (base v) m).
Proof.
  intros v od name e v' Hd Hp Ha. split; [eapply add_found; eassumption|eapply add_other_names; eassumption].
Qed.
Print Assumptions C17_add_found.

(* once a package has gained a default environment, a component that selects no environment gets it - the same
   for every launch environment: nothing of the launch environment is selected any more *)
Theorem C17_added_default_environment : forall v od name e v',
  NoDup (keys (denvs (base v))) -> NoDup (keys (penvs (base v))) ->
  add_environment v od name e = Some v' -> lower name = "environment" ->
  exists env, get_environment (base v') "environment" = Ok env /\
    forall launch, default_environment (base v') launch = env /\
                   forall sel, norm_name sel = "environment" -> selected (base v') launch sel = Ok env.
Proof. exact added_default_environment. Qed.
Print Assumptions C17_added_default_environment.

(* non-vacuity: a package whose default environment differs per platform and is missing on q; one object created for
   platform default, parametrized for p (non-primitive), then for q where the launch environment is the default
   environment until add_environment files one; a second add raises FlowIREnvironmentExists; a launch change *)
Definition ex_doc : doc3 := {|
  envs3 := [("default", [("environment", [("SCHEDULER", RStr "local"); ("APP", RStr "/opt/%(G)s")])]);
            ("p", [("Environment", [("SCHEDULER", RStr "lsf"); ("QUEUE", RStr "normal")])]);
            ("q", [("mine", [("W", RStr "q")])])];
  globs3 := [("default", [("G", RStr "app")]); ("p", []); ("q", [])] |}.
Definition ex_doc_nodefault : doc3 := {| envs3 := [("default", []); ("q", [("mine", [("W", RStr "q")])])]; globs3 := [] |}.
Definition ex_s0 := init_state ex_doc "default" false [("INSTANCE_DIR", "/inst")] [("HOME", "/h"); ("OLD", "old")].
Definition ex_q0 := init_state ex_doc_nodefault "q" false [("INSTANCE_DIR", "/inst")] [("HOME", "/h"); ("OLD", "old")].
Example C17_nonvacuous_object :
  ask_node ex_s0 None false = Ok3 [("INSTANCE_DIR", "/inst"); ("SCHEDULER", "local"); ("APP", "/opt/app")] /\
  ask_node (run_changes ex_doc ex_s0 [ChParam "p" true [("INSTANCE_DIR", "/inst")]]) None false =
    Ok3 [("INSTANCE_DIR", "/inst"); ("SCHEDULER", "lsf"); ("APP", "/opt/app"); ("QUEUE", "normal")] /\
  ask_default ex_q0 = [("HOME", "/h"); ("OLD", "old")] /\
  ask_default (run_changes ex_doc_nodefault ex_q0 [ChLaunch [("NEW", "new")]]) = [("NEW", "new")] /\
  ask_node (run_changes ex_doc_nodefault ex_q0 [ChLaunch [("NEW", "new")]; ChAdd false "Environment" [("ONLY", RStr "this")]]) (Some "ENVIRONMENT") false =
    Ok3 [("INSTANCE_DIR", "/inst"); ("ONLY", "this")] /\
  add_environment (st_cfg (run_changes ex_doc_nodefault ex_q0 [ChAdd false "Environment" [("ONLY", RStr "this")]])) false "ENVIRONMENT" [] = None /\
  add_environment (st_cfg ex_q0) false "None" [] = None /\
  (exists v', add_environment (st_cfg ex_q0) true "environment" [("ONLY", RStr "this")] = Some v' /\
              default_environment (base v') [("ANY", "thing")] = [("ONLY", "this")]) /\
  ask_default (run_changes ex_doc_nodefault ex_q0 [ChAdd false "environment" [("ONLY", RStr "this")]; ChParam "q" false []]) = [("HOME", "/h"); ("OLD", "old")] /\
  NoDup (keys (denvs (base (st_cfg ex_q0)))) /\ NoDup (keys (penvs (base (st_cfg ex_q0)))).
Proof.
  repeat (split; [vm_compute; reflexivity|]).
  split; [eexists; split; vm_compute; reflexivity|].
  split; [vm_compute; reflexivity|].
  split; vm_compute; repeat (constructor; [cbn; intuition discriminate|]); constructor.
Qed.
