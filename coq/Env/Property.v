(* C17 — Component environments are built only from their declared sources.  Property theorems only.
   tsub / osexp / fillin (string.Template.safe_substitute, os.path.expandvars, FlowIR.fill_in on a
   value) are universally quantified: every theorem holds whatever they do to values. *)
From Coq Require Import String List Bool ZArith.
Import ListNotations.
Require Import V.Lib.PyStr V.Env.Model V.Env.Proofs.
Open Scope string_scope.
Open Scope list_scope.

(* Every variable of the task environment is a system variable, a variable of the selected
   environment, a launch variable imported by name through DEFAULTS, or (interpreter components) one
   of the four search-path variables present in the launch environment. *)
Theorem C17_sources : forall tsub osexp fillin c launch name interp env,
  env_for_node tsub osexp fillin c launch name interp = Ok env ->
  exists sel, selected c launch name = Ok sel /\
    forall k, In k (keys env) ->
      In k (keys (sysv c)) \/ In k (keys sel) \/
      (In k (defaults_names (update (sysv c) sel)) /\ In k (keys launch)) \/
      (interp = true /\ In k PATH_VARS /\ In k (keys launch)).
Proof. exact sources. Qed.
Print Assumptions C17_sources.

(* What "selected" is: nothing for "none"; the package's default environment — or the launch
   environment when no platform visible to the selection declares one — for no selection;
   get_environment of the lower-cased name otherwise. *)
Theorem C17_selected : forall c launch name,
  (norm_name name = "none" -> selected c launch name = Ok []) /\
  (norm_name name = "" \/ norm_name name = "environment" ->
     selected c launch name = Ok (default_environment c launch) /\
     (lookup "environment" (P c) = None /\ (is_default c = false -> lookup "environment" (D c) = None) ->
        default_environment c launch = launch) /\
     (dict_cfg c ->
      ~ (lookup "environment" (P c) = None /\ (is_default c = false -> lookup "environment" (D c) = None)) ->
        forall k, lookup k (default_environment c launch) = layered c "environment" k)) /\
  (~ special (norm_name name) -> selected c launch name = get_environment c (norm_name name)).
Proof.
  intros c launch name. split; [apply selected_none|]. split; [|apply selected_named].
  intros H. split; [apply selected_default; exact H|]. split.
  - intros [H1 H2]. apply default_environment_launch; assumption.
  - intros Hd Hn k. apply default_environment_declared; assumption.
Qed.
Print Assumptions C17_selected.

(* Named environment: FlowIREnvironmentUnknown exactly when neither the selected platform nor
   platform default holds the lower-cased name; otherwise each variable has the selected platform's
   value if that platform declares it, else platform default's. *)
Theorem C17_layering : forall c launch name, ~ special (norm_name name) ->
  (selected c launch name = ErrUnknown <->
     lookup (norm_name name) (P c) = None /\ (is_default c = false -> lookup (norm_name name) (D c) = None)) /\
  (dict_cfg c -> forall sel k, selected c launch name = Ok sel ->
     lookup k sel = match declared (P c) (norm_name name) k with
                    | Some v => Some v
                    | None => if is_default c then None else declared (D c) (norm_name name) k
                    end).
Proof.
  intros c launch name Hs. rewrite selected_named by exact Hs.
  assert (Hn : norm_name name <> "none") by (intros E; apply Hs; right; right; exact E).
  split.
  - apply get_environment_unknown; [apply norm_name_lower|exact Hn].
  - intros Hd sel k H.
    apply (get_environment_lookup c _ sel k (norm_name_lower name) Hn (dict_cfg_D c Hd) (dict_cfg_P c Hd) H).
Qed.
Print Assumptions C17_layering.

(* The error reaches the caller of environmentForNode, and only that error. *)
Theorem C17_unknown_error : forall tsub osexp fillin c launch name interp,
  selected c launch name = ErrUnknown <-> env_for_node tsub osexp fillin c launch name interp = ErrUnknown.
Proof. exact unknown_propagates. Qed.
Print Assumptions C17_unknown_error.

(* The requested name is compared lower-cased: any spelling selects the same environment. *)
Theorem C17_name_spelling : forall tsub osexp fillin c launch n interp,
  env_for_node tsub osexp fillin c launch (Some (lower n)) interp =
  env_for_node tsub osexp fillin c launch (Some n) interp.
Proof. exact for_node_case. Qed.
Print Assumptions C17_name_spelling.

(* No other variable of the launch environment appears. *)
Theorem C17_no_leak : forall tsub osexp fillin c launch name interp env sel k,
  env_for_node tsub osexp fillin c launch name interp = Ok env ->
  selected c launch name = Ok sel ->
  In k (keys launch) ->
  ~ In k (keys (sysv c)) -> ~ In k (keys sel) ->
  ~ In k (defaults_names (update (sysv c) sel)) ->
  (interp = true -> ~ In k PATH_VARS) ->
  ~ In k (keys env).
Proof. exact no_leak. Qed.
Print Assumptions C17_no_leak.

(* The import list itself is never handed to the task. *)
Theorem C17_no_defaults_key : forall tsub osexp fillin c launch name interp env,
  env_for_node tsub osexp fillin c launch name interp = Ok env -> ~ In "DEFAULTS" (keys env).
Proof. exact no_defaults_label. Qed.
Print Assumptions C17_no_defaults_key.

(* Unexpanded environment (environmentWithName(expand=False)): a variable that is not imported through
   DEFAULTS has the selected environment's value, else the system variable's. *)
Theorem C17_unexpanded : forall tsub osexp c launch name sel env k,
  NoDup (keys launch) ->
  env_with_name tsub osexp c launch name false = Ok env ->
  selected c launch name = Ok sel ->
  k <> "DEFAULTS" ->
  ~ (In k (defaults_names (update (sysv c) sel)) /\ In k (keys launch)) ->
  lookup k env = match lookup k sel with Some v => Some v | None => lookup k (sysv c) end.
Proof. exact unexpanded_value. Qed.
Print Assumptions C17_unexpanded.

(* Imported by name: a launch variable listed (once) in DEFAULTS that neither the selected environment
   nor the system variables define carries its launch value. *)
Theorem C17_imported : forall tsub osexp c launch name sel env k lv,
  env_with_name tsub osexp c launch name false = Ok env ->
  selected c launch name = Ok sel ->
  k <> "DEFAULTS" ->
  NoDup (defaults_names (update (sysv c) sel)) -> In k (defaults_names (update (sysv c) sel)) ->
  lookup k launch = Some lv -> ~ In k (keys sel) -> ~ In k (keys (sysv c)) ->
  lookup k env = Some lv.
Proof. exact imported_value. Qed.
Print Assumptions C17_imported.

(* Expansion order: each non-empty unexpanded value is expanded first from the (unexpanded)
   environment itself and then from the launch environment; empty values vanish; environmentForNode
   passes the result through fill_in and interpreter variables never override it. *)
Theorem C17_expansion : forall tsub osexp fillin c launch name interp env,
  NoDup (keys (sysv c)) ->
  env_with_name tsub osexp c launch name false = Ok env ->
  exists res out,
    env_with_name tsub osexp c launch name true = Ok res /\
    env_for_node tsub osexp fillin c launch name interp = Ok out /\
    forall k,
      lookup k res = match lookup k env with
                     | Some v => if String.eqb v "" then None else Some (osexp launch (tsub env v))
                     | None => None
                     end /\
      (In k (keys res) -> lookup k out = option_map fillin (lookup k res)).
Proof.
  intros tsub osexp fillin c launch name interp env Hs He.
  destruct (expanded_value tsub osexp c launch name env Hs He) as [res [Hr Hl]].
  assert (Ho : exists out, env_for_node tsub osexp fillin c launch name interp = Ok out).
  { unfold env_for_node. rewrite Hr. eexists. reflexivity. }
  destruct Ho as [out Ho]. exists res, out. split; [exact Hr|]. split; [exact Ho|].
  intros k. split; [apply Hl|]. apply (for_node_value tsub osexp fillin c launch name interp res out k Hr Ho).
Qed.
Print Assumptions C17_expansion.

(* The empty environment is exactly the system variables (no DEFAULTS among them). *)
Theorem C17_none : forall tsub osexp c launch name,
  norm_name name = "none" -> lookup "DEFAULTS" (sysv c) = None ->
  env_with_name tsub osexp c launch name false = Ok (sysv c).
Proof. exact none_env. Qed.
Print Assumptions C17_none.

(* Nothing declared is lost: every variable with a non-empty unexpanded value reaches the task, and an
   interpreter component has every search-path variable the launch environment has. *)
Theorem C17_present : forall tsub osexp fillin c launch name interp env out,
  NoDup (keys (sysv c)) ->
  env_with_name tsub osexp c launch name false = Ok env ->
  env_for_node tsub osexp fillin c launch name interp = Ok out ->
  (forall k v, lookup k env = Some v -> v <> "" -> In k (keys out)) /\
  (interp = true -> forall k, In k PATH_VARS -> In k (keys launch) -> In k (keys out)).
Proof.
  intros tsub osexp fillin c launch name interp env out Hs He Ho. split.
  - intros k v. apply (present tsub osexp fillin c launch name interp env out k v Hs He Ho).
  - intros -> k. apply (interp_present tsub osexp fillin c launch name out k Ho).
Qed.
Print Assumptions C17_present.

(* Declared names, bounded scope (the bound is in the statement): for every table of at most three
   environments named by spellings from Proofs.spellings that do not collide after lower-casing,
   FlowIR.from_dict files each environment under the lower-case form of its declared name, every held
   name is lower-case and none is lost.  (Unbounded: lower_names_id, dict_tab_lower in Proofs.v;
   colliding spellings: correspondence only.) *)
Theorem C17_declared_spelling_small : forall names,
  In names (lists_upto3 spellings) -> distinct_lower names = true -> found_lower names = true.
Proof. exact declared_spelling_small. Qed.
Print Assumptions C17_declared_spelling_small.

(* non-vacuity: platform p, environment requested as "FOO", declared "Foo" on default and "foo" on p;
   Template/expandvars instantiated by Model.subst *)
Definition ex_cfg : cfg := {|
  is_default := false;
  denvs := [("Foo", [("A", RStr "a-default"); ("ONLYD", RStr "d-$HOME"); ("DEFAULTS", RStr "PATH:NOPE"); ("E", RNull); ("N", RInt 7)])];
  penvs := [("foo", [("A", RStr "a-p"); ("B", RStr "b:$A:${LV}:$INSTANCE_DIR")])];
  sysv := [("INSTANCE_DIR", "/inst")] |}.
Definition ex_launch : map := [("PATH", "/bin"); ("HOME", "/h"); ("LV", "launch"); ("SECRET", "s"); ("PYTHONPATH", "/pp")].
Example C17_nonvacuous :
  env_for_node_c ex_cfg ex_launch (Some "FOO") true =
    Ok [("INSTANCE_DIR", "/inst"); ("A", "a-p"); ("ONLYD", "d-/h"); ("N", "7"); ("B", "b:a-p:launch:/inst");
        ("PATH", "/bin"); ("PYTHONPATH", "/pp")]
  /\ dict_cfg ex_cfg /\ ~ special (norm_name (Some "FOO"))
  /\ env_for_node_c ex_cfg ex_launch (Some "bar") false = ErrUnknown.
Proof.
  split; [vm_compute; reflexivity|]. split.
  - split; intros n e [H|[]]; injection H as <- <-; cbn;
      repeat (constructor; [cbn; intuition discriminate|]); constructor.
  - split; [|vm_compute; reflexivity].
    intros [H|[H|H]]; vm_compute in H; discriminate.
Qed.
