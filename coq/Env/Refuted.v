(* C17 — witnesses that hypotheses of Property.v theorems are necessary.  Neither is a defect of the
   code: the first is about association lists that are not dictionaries (never produced by a YAML/JSON
   document), the second is the behaviour the property's first clause describes ("variable references
   inside values are expanded ... then from the launch environment"). *)
From Coq Require Import String List Bool ZArith.
Import ListNotations.
Require Import V.Lib.PyStr V.Env.Model V.Env.Proofs V.Env.Lower V.Env.Subst.
Open Scope string_scope.
Open Scope list_scope.

(* C17_declared_spelling without "the table is a dictionary": with a name bound twice the model's
   first step removes both bindings, so the second one can no longer win. *)
Theorem C17_declared_spelling_dict_refuted : exists (E : envtab) (m : string),
  ~ NoDup (keys E) /\
  lookup m (lower_names E) <>
  match last_spelling (keys E) m with
  | Some n => lookup n E
  | None => if String.eqb (lower m) m then lookup m E else None
  end.
Proof.
  exists [("Foo", [("A", RNull)]); ("FOO", [("B", RNull)]); ("Foo", [("C", RNull)])], "foo". split.
  - intros H. inversion H as [|? ? Hn _]. apply Hn. cbn. right. left. reflexivity.
  - vm_compute. discriminate.
Qed.
Print Assumptions C17_declared_spelling_dict_refuted.

(* C17_launch_independence without its third hypothesis: a launch variable that is neither listed in
   DEFAULTS nor a search-path variable, but that a value references by name, does change the task
   environment (it is expanded into that value). *)
Theorem C17_referenced_launch_variable_refuted : exists c l l' name sel,
  selected c l name = Ok sel /\ selected c l' name = Ok sel /\
  agree_on (defaults_names (update (sysv c) sel)) l l' /\
  agree_on PATH_VARS l l' /\
  (forall n, n <> "SECRET" -> lookup n l = lookup n l') /\
  ~ In "SECRET" (defaults_names (update (sysv c) sel)) /\
  env_for_node tm_sub os_expand id_fill c l name false <> env_for_node tm_sub os_expand id_fill c l' name false.
Proof.
  exists {| is_default := true; denvs := [("e", [("V", RStr "token=$SECRET"); ("DEFAULTS", RStr "HOME")])]; penvs := []; sysv := [] |},
         [("HOME", "/h"); ("SECRET", "one")], [("HOME", "/h"); ("SECRET", "two")], (Some "e").
  eexists. split; [vm_compute; reflexivity|]. split; [vm_compute; reflexivity|].
  split; [|split; [|split; [|split]]].
  - intros n Hn. vm_compute in Hn. repeat (destruct Hn as [<-|Hn]; [reflexivity|]). destruct Hn.
  - intros n Hn. cbn in Hn. repeat (destruct Hn as [<-|Hn]; [reflexivity|]). destruct Hn.
  - intros n Hn. cbn [lookup]. destruct (String.eqb n "HOME"); [reflexivity|].
    destruct (String.eqb_spec n "SECRET"); [contradiction|reflexivity].
  - vm_compute. intros [H|[]]. discriminate.
  - vm_compute. discriminate.
Qed.
Print Assumptions C17_referenced_launch_variable_refuted.
