"""C19 — the environment file alone and the section readers (stream E of harness/c19.py).

E1. Generated sets of environments (0-5 environments, each with 0-3 variables: about half of the environments define NO
    variable), application dependencies and virtual environments go through the REAL Dosini._dump_experiment_root_conf
    (experiment.instance.conf), the real FlowConfigParser reader (sections written), environment_to_dict and
    Dosini.parse_environment_dicts; compared inside Coq with coq/Dosini/Envs.v (write_root, root_via_file) and, inside the
    guard of theorem C19_environments_through_file, with the identity.  The property predicate on the real code: the loaded
    environments are the written ones (names compared ignoring case), empty ones included, and so are the two lists.
E2. EMPTY sections through every reader that turns the sections of a file into dictionaries (environment_to_dict,
    dosini_to_dict with and without consider_meta_as_section): tables with sections without entries are written with the real
    FlowConfigParser and each reader must return one dictionary per section of the file - an empty one for a section without
    entries.  (environment_to_dict is also compared with Envs.env_to_dict.)
"""
import os
import shutil
import tempfile

from common import cstr, clist, copt
import c19_text

HEADER = ('Require Import V.Lib.JTree V.Dosini.Codec V.Dosini.Text V.Dosini.Envs.\nOpen Scope string_scope.')

ENV_NAMES = ['envA', 'gpu-env', 'gpu-debug', 'clean', 'bare-env', 'Mixed', 'UPPER', 'x_1', 'e', 'environment', 'env-x']
BOUNDARY_NAMES = ['sandbox', 'Sandbox', 'ENVA', 'mixed']        # reserved by the format / equal to another name ignoring case
VAR_NAMES = ['PATH', 'LD_LIBRARY_PATH', 'OMP_NUM_THREADS', 'DEFAULTS', 'lower', 'Mixed_Case', 'applications', 'virtualenvs']
VALUES = ['/opt/bin:$PATH', '1', '4', 'PATH:LD_LIBRARY_PATH', '', 'a b', '%(n)s/lib', 'x=y', '100%%', 'k: v', 'a,b']
ITEMS = ['App.application', 'a.application', 'b.application', 'venvs/one', '/abs/venv', 'x']
BAD_ITEMS = ['', ' padded', 'a,b', 'trail ']


def centries(es):
    return clist(es, lambda kv: '(%s, %s)' % (cstr(kv[0]), cstr(kv[1])))


def ctable(t):
    return clist(t, lambda s: '(%s, %s)' % (cstr(s[0]), centries(s[1])))


def croot(r):
    return '(mkRoot %s %s %s)' % (ctable(r['envs']), clist(r['apps'], cstr), clist(r['venvs'], cstr))


def gen_root(rng, boundary=False):
    n = rng.choice([0, 1, 1, 2, 3, 5])
    names = rng.sample(ENV_NAMES, n)
    envs = []
    for nm in names:
        k = rng.choice([0, 0, 0, 1, 2, 3])
        envs.append([nm, [[v, rng.choice(VALUES)] for v in rng.sample(VAR_NAMES, k)]])
    apps = rng.sample(ITEMS, rng.choice([0, 0, 1, 2, 3]))
    venvs = rng.sample(ITEMS, rng.choice([0, 0, 0, 1, 2]))
    if boundary:
        r = rng.random()
        if r < 0.5:
            envs.insert(rng.randrange(len(envs) + 1), [rng.choice(BOUNDARY_NAMES), [['X', '1']] if rng.random() < 0.5 else []])
        elif r < 0.8:
            apps.insert(rng.randrange(len(apps) + 1), rng.choice(BAD_ITEMS))
        else:
            venvs.insert(rng.randrange(len(venvs) + 1), rng.choice(BAD_ITEMS))
    return {'envs': envs, 'apps': apps, 'venvs': venvs}


FIXED = [
    {'envs': [], 'apps': [], 'venvs': []},
    {'envs': [['clean', []]], 'apps': [], 'venvs': []},
    {'envs': [['clean', []], ['bare-env', []]], 'apps': [], 'venvs': []},
    {'envs': [['envA', [['PATH', '/x']]], ['clean', []]], 'apps': ['App.application'], 'venvs': []},
    {'envs': [['clean', []], ['envA', [['PATH', '/x']]]], 'apps': [], 'venvs': ['venvs/one']},
    {'envs': [['clean', []]], 'apps': ['a.application', 'b.application'], 'venvs': ['venvs/one', 'x']},
]


def root_ok(r):
    ups = [n.upper() for n, _ in r['envs']]
    item = lambda w: w != '' and ',' not in w and w == w.strip(c19_text.WS)
    return len(set(ups)) == len(ups) and 'SANDBOX' not in ups and all(item(w) for w in r['apps'] + r['venvs'])


def real_root(r, tmp):
    """-> (sections written or None, loaded document or None)"""
    import experiment.model.frontends.dosini as D
    flowir = {'environments': {'default': {n: dict((k, v) for k, v in es) for n, es in r['envs']}},
              'application-dependencies': {'default': list(r['apps'])} if r['apps'] else {},
              'virtual-environments': {'default': list(r['venvs'])} if r['venvs'] else {}}
    path = os.path.join(tmp, 'experiment.instance.conf')
    if os.path.exists(path):
        os.remove(path)
    try:
        D.Dosini._dump_experiment_root_conf(flowir, path, update_existing=True)
    except Exception:
        return None, None
    with open(path, newline='') as f:
        text = f.read()
    rd = c19_text.real_read(text, tmp)
    written = None if rd is None else [[n, [[k, v] for k, v in es]] for n, es in rd[1]]
    try:
        d = D.environment_to_dict(path)
        out = D.Dosini.parse_environment_dicts({}, {'default': d}, is_instance=True)
    except Exception:
        return written, None
    envs = out.get('environments', {}).get('default', {})
    loaded = {'envs': [[n, [[k, v] for k, v in e.items()]] for n, e in envs.items()],
              'apps': list(out.get('application-dependencies', {}).get('default', [])),
              'venvs': list(out.get('virtual-environments', {}).get('default', []))}
    return written, loaded


def explore_roots(ctx, roots):
    terms, keep = [], []
    tmp = tempfile.mkdtemp(prefix='verif_c19e_')
    try:
        for r in roots:
            written, loaded = real_root(r, tmp)
            inside = root_ok(r) and written is not None and c19_text.table_ok([(n, [(k, v) for k, v in es]) for n, es in written])
            ctx.case(['E', r['envs'], r['apps'], r['venvs']], True)
            ctx.count('E_environment_files')
            ctx.count('E_inside_guard' if inside else 'E_boundary')
            if any(not es for _, es in r['envs']):
                ctx.count('E_with_empty_environment')
            desc = {'stream': 'E', 'root': r}
            if inside:
                # the property on the real code
                if loaded is None:
                    ctx.fail(desc, 'a written environment file cannot be loaded again', [])
                else:
                    want = {n.lower(): es for n, es in r['envs']}
                    got = {n.lower(): es for n, es in loaded['envs']}
                    for n in want:
                        if n not in got:
                            ctx.fail(dict(desc, loaded=loaded), 'environment %s (%d variables) is written but not loaded' % (n, len(want[n])), [])
                        elif want[n] != got[n]:
                            ctx.fail(dict(desc, loaded=loaded), 'environment %s changes in the round trip' % n, [])
                    if set(got) - set(want):
                        ctx.fail(dict(desc, loaded=loaded), 'an environment appears after the round trip', [])
                    if loaded['apps'] != r['apps'] or loaded['venvs'] != r['venvs']:
                        ctx.fail(dict(desc, loaded=loaded), 'application dependencies / virtual environments change in the round trip', [])
            terms.append('(%s, %s, %s)' % (croot(r), copt(None if written is None else ctable(written)),
                                           copt(None if loaded is None else croot(loaded))))
            keep.append((desc, written, loaded))
    finally:
        shutil.rmtree(tmp, ignore_errors=True)
    bad = ctx.model_mismatches(HEADER, terms, 'check_env_case', chunk=200, name='E_env')
    for k, i in enumerate(bad):
        desc, written, loaded = keep[i]
        ctx.disagree(desc, {'sections': written, 'loaded': loaded},
                     ctx.model_eval(HEADER, 'let r := %s in (write_root r, root_via_file r)' % croot(desc['root']))[:600] if k < 2 else '',
                     'C19 environment file: _dump_experiment_root_conf / environment_to_dict / parse_environment_dicts vs Dosini.Envs')


# ------------------------------------------------------------------ E2: empty sections through every section reader
def gen_sections(rng):
    names = rng.sample(['A', 'B', 'Gen', 'ENV-CLEAN', 'ENV-A', 'SANDBOX', 'STAGE0', 'STAGE1', 'STAGE10', 'GLOBAL', 'Result', 'Nothing',
                        'x_y', 'Post-1'], rng.choice([1, 2, 3, 5]))
    t = []
    for n in names:
        k = rng.choice([0, 0, 1, 2])
        t.append([n, [[key, rng.choice(['1', 'a b', '/x:$PATH', ''])] for key in rng.sample(['executable', 'PATH', 'n', 'stage-weight', 'data-in', 'v'], k)]])
    if rng.random() < 0.3:
        t.insert(rng.randrange(len(t) + 1), ['META', [] if rng.random() < 0.5 else [['n', '3']]])
    return t


def explore_sections(ctx, tables):
    import experiment.model.frontends.dosini as D
    terms, keep = [], []
    tmp = tempfile.mkdtemp(prefix='verif_c19e_')
    try:
        for t in tables:
            text = c19_text.real_write([(n, [(k, v) for k, v in es]) for n, es in t], tmp)
            ctx.case(['E-sections', t], True)
            ctx.count('E_section_tables')
            if any(not es for _, es in t):
                ctx.count('E_with_empty_section')
            if text is None:
                continue
            path = os.path.join(tmp, 'w.conf')
            desc = {'stream': 'E', 'sections': t}
            readers = [('environment_to_dict', lambda: D.environment_to_dict(path), False),
                       ('dosini_to_dict', lambda: D.dosini_to_dict(path, []), False),
                       ('dosini_to_dict(consider_meta_as_section)', lambda: D.dosini_to_dict(path, [], consider_meta_as_section=True), True)]
            env_result = None
            for rname, read, meta_folded in readers:
                try:
                    d = read()
                except Exception as e:
                    ctx.fail(desc, '%s cannot read a file written by the format (%s)' % (rname, type(e).__name__), [])
                    continue
                if rname == 'environment_to_dict':
                    env_result = [[n, [[k, v] for k, v in e.items()]] for n, e in d.items()]
                for n, es in t:
                    if meta_folded and n.upper() in ('META', 'DEFAULT'):
                        continue
                    if n not in d:
                        ctx.fail(desc, '%s: section [%s] (%d entries) of the file has no dictionary in the result' % (rname, n, len(es)), [])
                    elif rname == 'environment_to_dict' and [[k, v] for k, v in d[n].items()] != es:
                        ctx.fail(desc, '%s: section [%s] changes' % (rname, n), [])
                    elif not all(d[n].get(k) == v for k, v in es):
                        ctx.fail(desc, '%s: section [%s] loses an entry' % (rname, n), [])
            terms.append('(([], %s), %s)' % (ctable(t), copt(None if env_result is None else ctable(env_result))))
            keep.append(desc)
    finally:
        shutil.rmtree(tmp, ignore_errors=True)
    bad = ctx.model_mismatches(HEADER, terms, 'check_dict_case', chunk=300, name='E_dict')
    for i in bad:
        ctx.disagree(keep[i], None, '', 'C19 environment_to_dict vs Dosini.Envs.env_to_dict')


def explore(ctx, n, only=None):
    rng = ctx.rng
    ctx.rule = (ctx.rule or '') + ('; E: environment files (0-5 environments, about half of them without variables; application dependencies, '
                                   'virtual environments; 15% at the boundary of the guard: reserved / case-equal names, items with commas or '
                                   'blanks) and tables with empty sections through every section reader')
    if only is not None:
        if 'root' in only:
            explore_roots(ctx, [only['root']])
        else:
            explore_sections(ctx, [only['sections']])
        return
    roots = [dict(r) for r in FIXED] + [gen_root(rng, boundary=rng.random() < 0.15) for _ in range(n)]
    explore_roots(ctx, roots)
    explore_sections(ctx, [[['ENV-CLEAN', []]], [['A', []], ['B', [['n', '1']]]], [['META', []], ['A', []]]] +
                     [gen_sections(rng) for _ in range(n // 2)])
