"""Entry point of every check: ./check CNN [--tier quick|thorough] [--replay FILE]"""
import argparse
import importlib
import logging
import os
import sys
import traceback

sys.path.insert(0, os.path.dirname(os.path.abspath(__file__)))
import common  # noqa


def main():
    ap = argparse.ArgumentParser()
    ap.add_argument('prop')
    ap.add_argument('--tier', default=os.environ.get('VERIF_TIER', 'quick'))
    ap.add_argument('--replay', default=None)
    ap.add_argument('--no-proofs', action='store_true', help='debugging: skip the Coq build')
    a = ap.parse_args()
    tier = a.tier if a.tier in ('quick', 'thorough') else 'quick'
    seed = int(os.environ.get('VERIF_SEED', '1') or 1)
    logging.disable(logging.CRITICAL)
    mod = importlib.import_module(a.prop.lower())
    ctx = common.Ctx(mod.PROP, tier, seed, mod.COQ_DIR)
    rc = 2
    try:
        if a.replay:
            rc = mod.replay(ctx, a.replay)
            sys.stdout.flush()
            os._exit(rc)
        if not a.no_proofs:
            ctx.build_proofs()
            if tier == 'thorough' and ctx.proof_ok:
                ctx.coqchk()
        mod.run(ctx)
        rc = common.finish(ctx, getattr(mod, 'ASSUMPTIONS', []))
    except Exception:
        traceback.print_exc()
        # an internal error of the machinery is not a verdict about the property
        print('ERROR: check %s crashed (machinery error, no verdict)' % a.prop)
        rc = 2
    sys.stdout.flush()
    sys.stderr.flush()
    os._exit(rc)


main()
