"""C05 — DoWhile unrolling is wired correctly for any number of iterations.
Implementation driven (harness/c05_impl.py): a generated package (main FlowIR + DoWhile document) is written to a
scratch directory, loaded into a real Experiment/WorkflowGraph, and the real
WorkflowGraph.instantiate_dowhile_next_iteration is called k times exactly as
Controller._instantiate_next_dowhile_iteration does (next = state['currentIteration'] + 1).  Read back: graph nodes and
edges, the references of every looped instance in FlowIRConcrete, WorkflowGraph._placeholders, the DoWhile state,
DataReference.resolve() of the outside consumers' references (:ref/:output/:copy/:loopref/:loopoutput) and
flowir.map_placeholder_id_to_iteration."""
import json
import multiprocessing
import os
import re

from common import clist, cstr, cnat, copt, cpair, NPROC
import c05_impl

PROP = 'C05'
COQ_DIR = 'Loop'
ASSUMPTIONS = [
    'reference strings are modelled in parsed form (stage, producer, file, method); the parser is exercised by the '
    'correspondence only (C09 is about it); validation errors of instantiate_dowhile are not modelled (documents load)',
    'no replication inside the loop; the (stage, name) pairs of the looped components are pairwise distinct (the same '
    'name may be used in two stages), names contain no "#" and differ from binding names; components outside the '
    'loop (bound producers, producers referenced directly from inside the loop, consumers) may have the name of a '
    'looped component of another stage; :loopref/:loopoutput are used by consumers outside the loop only',
    'Controller-driven cases: a real experiment.runtime.control.Controller over real ComponentState objects '
    'instantiates the iterations (Controller._instantiate_next_dowhile_iteration) and inspects the workflow '
    '(initialise / generate_status_report_for_nodes / _comp_get_active_predecessors / get_node_state / '
    '_true_nodes_from_identifiers / _input_dependencies_satisfied); no task is launched: Controller._schedule, '
    'finishedCheck and the resolution done by a running consumer are not exercised',
    'files read by :output/:loopoutput are created by the harness with contents naming their producer',
    'command-line arguments of RANDOMLY generated components never contain two references one of which is a '
    'word-bounded substring of the other: the sequential regular-expression substitution of rewrite_all_references '
    'corrupts such command lines (open finding F5c, reproduced by two fixed corpus cases on every run; modelled in '
    'coq/Loop/Subst.v)',
]
HEADER = 'Require Import V.Lib.JTree V.Loop.Model.\nOpen Scope N_scope.'
CHECKER = 'check_case'

COMP_NAMES = ['a', 'ab', 'a-b', 'b', 'stop', 'x1', 'n0', 'add', 'agg2', 'c_d', 'Loop', 'z9z']
BIND_NAMES = ['b0', 'in', 'number', 'p-q', 'Bq']
SRC_NAMES = ['src0', 'gen', 'src-1']
OUT_NAMES = ['rep', 'obs']
MID_NAMES = ['mid', 'aux-2']
FILES = ['f', 'g.txt']
KS_QUICK = [0, 1, 2, 9, 10, 11, 12]
KS_THOROUGH = [0, 1, 2, 3, 9, 10, 11, 12, 19, 20, 21, 25]


# ------------------------------------------------------------------ generator
def gen_case(rng, k):
    S = rng.choice([0, 1, 1, 2, 3])
    nsrc = rng.choice([1, 2, 2, 3])
    srcs = [[n, rng.randint(0, S)] for n in rng.sample(SRC_NAMES, nsrc)]
    ncomp = rng.choice([1, 2, 2, 3, 3, 4])
    names = rng.sample(COMP_NAMES, ncomp)
    stages = sorted(rng.choice([0, 0, 1, 2]) for _ in range(ncomp))
    if rng.random() < 0.5:
        stages = [s - stages[0] for s in stages]
    # two looped components of different stages may have the same name (F5b: the DoWhile state and
    # map_placeholder_id_to_iteration used to compare the name only)
    if ncomp >= 2 and rng.random() < 0.3:
        pairs = [(i, j) for i in range(ncomp) for j in range(i + 1, ncomp) if stages[i] != stages[j]]
        if pairs:
            i, j = rng.choice(pairs)
            names[j] = names[i]
    # component ids are (stage, name) pairs: a component OUTSIDE the loop may have the name of a looped component
    # of another stage (producers below/at the import stage that are bound to input bindings, producers in the
    # stages of the loop that are referenced directly from inside the loop, consumers after the loop)
    looped_abs = set((S + st, n) for st, n in zip(stages, names))
    clash = rng.random() < 0.4
    clash_srcs = []
    if clash:
        nm = rng.choice(names)
        free = [st for st in range(S + 1) if (st, nm) not in looped_abs]
        if free:
            at = rng.randrange(len(srcs))
            srcs[at] = [nm, rng.choice(free)]
            clash_srcs.append(srcs[at])
    low = list(srcs)                # producers that the importing component (stage S) may bind
    if rng.random() < 0.45:
        # a producer in one of the stages of the loop: referenced DIRECTLY by looped components
        st = S + rng.randint(0, max(stages))
        pool = list(MID_NAMES)
        if clash:
            pool += [n for n in names if (st, n) not in looped_abs] * 2
        nm = rng.choice(pool)
        if [nm, st] not in srcs:
            srcs.append([nm, st])
            if st <= S:
                low.append([nm, st])
    nb = rng.choice([0, 1, 1, 2, 2, 3])
    ibind = [[b, rng.choice(['ref', 'output', 'output', 'copy'])] for b in rng.sample(BIND_NAMES, nb)]
    types = dict(ibind)
    binds = []
    for b, _t in ibind:
        s = rng.choice(clash_srcs) if clash_srcs and rng.random() < 0.5 else rng.choice(low)
        binds.append([b, [s[1], s[0], rng.choice(['', '', '', 'f', 'g.txt'])]])
    loopb = []
    for b, _t in ibind:
        if rng.random() < 0.8:
            j = rng.randrange(ncomp)
            st = stages[j]
            if st == 0 and rng.random() < 0.5:
                st = None
            loopb.append([b, [st, names[j], rng.choice(['', '', 'f'])]])
    bfile = dict((b, v[2]) for b, v in binds)
    lfile = dict((b, v[2]) for b, v in loopb)
    comps = []
    for idx in range(ncomp):
        refs = []
        for b, _t in ibind:
            if rng.random() < 0.55:
                f = ''
                if not bfile[b] and not lfile.get(b) and rng.random() < 0.3:
                    f = rng.choice(FILES)
                refs.append(['B', b, f])
        for j in range(idx):
            if rng.random() < 0.5:
                st = stages[j]
                if st == stages[idx] and rng.random() < 0.5:
                    st = None
                refs.append(['C', st, names[j], rng.choice(['', '', 'f', 'g.txt']), rng.choice(['ref', 'output', 'copy'])])
        for nm, ast in srcs:
            # direct reference to a component outside the loop (document stage = workflow stage - import stage)
            if S <= ast <= S + stages[idx] and rng.random() < 0.3:
                st = ast - S
                if st == stages[idx] and rng.random() < 0.4:
                    st = None
                refs.append(['C', st, nm, rng.choice(['', '', 'f']), rng.choice(['ref', 'output', 'copy'])])
        rng.shuffle(refs)
        comps.append({'name': names[idx], 'stage': stages[idx], 'refs': refs,
                      'explicit_stage': rng.random() < 0.3})
    # make sure the loop-carried bindings are used by someone
    for b, _v in loopb:
        if not any(r[0] == 'B' and r[1] == b for c in comps for r in c['refs']):
            comps[rng.randrange(ncomp)]['refs'].append(['B', b, ''])
    j = rng.randrange(ncomp)
    cst = stages[j]
    if cst == 0 and rng.random() < 0.5:
        cst = None
    cond = [cst, names[j], rng.choice(['', 'f', 'g.txt'])]
    outs = []
    top = S + max(stages)
    for n in rng.sample(OUT_NAMES, rng.choice([1, 1, 2])):
        refs = []
        for j in range(ncomp):
            for m in ('ref', 'output', 'loopref', 'loopoutput', 'copy'):
                if rng.random() < 0.35:
                    refs.append([S + stages[j], names[j], rng.choice(['', '', 'f', 'g.txt']), m])
        if rng.random() < 0.4:
            s = rng.choice(srcs)
            refs.append([s[1], s[0], '', 'ref'])
        for s in srcs:
            if s[0] in names and rng.random() < 0.6:
                refs.append([s[1], s[0], rng.choice(['', 'f']), rng.choice(['ref', 'output', 'copy'])])
        if not refs:
            refs.append([S + stages[0], names[0], '', 'ref'])
        # one reference per (producer, file, method)
        seen, uniq = set(), []
        for r in refs:
            if tuple(r) not in seen:
                seen.add(tuple(r))
                uniq.append(r)
        ost = top + rng.choice([0, 1, 1, 2])
        if clash and rng.random() < 0.4:
            free = [x for x in names if (ost, x) not in looped_abs and [x, ost] not in srcs and
                    not any(o['name'] == x and o['stage'] == ost for o in outs)]
            if free:
                n = rng.choice(free)
        outs.append({'name': n, 'stage': ost, 'refs': uniq})
    # FlowIR wants the stage indices of a package to be 0..n-1 without gaps: fill the holes with idle components
    used = set(s[1] for s in srcs) | set(S + st for st in stages) | set(o['stage'] for o in outs)
    for st in range(max(used) + 1):
        if st not in used:
            srcs.append(['fill%d' % st, st])
    case = {'S': S, 'dwname': rng.choice(['dw', 'loop-1']), 'srcs': srcs, 'comps': comps, 'ibind': ibind,
            'binds': binds, 'loopb': loopb, 'cond': cond, 'outs': outs, 'k': k}
    # who drives the iterations: the bare WorkflowGraph, or a real Controller (initialised at a stage not after the
    # loop) that also looks at the workflow (status report / dependency analysis) between or after the iterations
    if rng.random() < 0.45:
        case['ctl'] = {'start': rng.randint(0, S), 'inspect': rng.choice(['end', 'end', 'each', 'each', 'none'])}
    return case


def looped_ids(case):
    return set((case['S'] + c['stage'], c['name']) for c in case['comps'])


def name_clashes(case):
    """outside components that have the name of a looped component (of another stage)"""
    names = set(c['name'] for c in case['comps'])
    return [s for s in case['srcs'] if s[0] in names] + [[o['name'], o['stage']] for o in case['outs'] if o['name'] in names]


def duplicate_refs(case):
    """a component whose references coincide after rewriting (FlowIR wants every declared reference to be used once)"""
    for c in case['comps']:
        for i in (0, 1):
            e = expected_refs(case, c, i)
            if len(set(e)) != len(e):
                return True
    return False


def simple_case(k):
    """the package of tests/test_dowhile.py reduced to its wiring (witness of F5 at k = 10)"""
    return {'S': 1, 'dwname': 'simple-do-while', 'srcs': [['GenerateInput', 0]],
            'comps': [{'name': 'add', 'stage': 0, 'refs': [['B', 'number', '']]},
                      {'name': 'fake_add', 'stage': 0, 'refs': [['C', None, 'add', '', 'output']]},
                      {'name': 'stop', 'stage': 0, 'refs': [['C', None, 'fake_add', '', 'output']]}],
            'ibind': [['number', 'output']], 'binds': [['number', [0, 'GenerateInput', '']]],
            'loopb': [['number', [None, 'fake_add', '']]], 'cond': [None, 'stop', 'f'],
            'outs': [{'name': 'report', 'stage': 2,
                      'refs': [[1, 'add', '', 'output'], [1, 'fake_add', '', 'loopref'], [1, 'add', 'f', 'loopoutput'],
                               [1, 'stop', '', 'ref']]}],
            'k': k}


def samename_case(k, cond_stage):
    """two looped components named 'x' in stages 0 and 1 (witness of F5b, repaired by 5c6cbf4): the condition is
    produced by the one of stage cond_stage.  Before the fix the state named whichever 'k#x' came first in a set."""
    return {'S': 1, 'dwname': 'dw', 'srcs': [['src0', 0]],
            'comps': [{'name': 'x', 'stage': 0, 'refs': [['B', 'b0', '']]},
                      {'name': 'x', 'stage': 1, 'refs': [['C', 0, 'x', '', 'output']]}],
            'ibind': [['b0', 'output']], 'binds': [['b0', [0, 'src0', '']]],
            'loopb': [['b0', [1, 'x', '']]], 'cond': [cond_stage, 'x', 'f'],
            'outs': [{'name': 'rep', 'stage': 3, 'refs': [[2, 'x', '', 'ref'], [1, 'x', '', 'ref'],
                                                           [2, 'x', '', 'loopref'], [1, 'x', 'f', 'loopoutput']]}],
            'k': k}


def overlap_case(k):
    """witness of the open finding F5c: looped components 'b' and 'a-b' both referenced on the command line of
    'stop' ('a-b:ref b:ref').  rewrite_all_references substitutes one reference after the other with
    re.sub(r'\\b<ref>\\b', ..., count=1): 'b:ref' first matches INSIDE the already rewritten 'stage1.0#a-b:ref'."""
    return {'S': 1, 'dwname': 'dw', 'srcs': [['src0', 0]],
            'comps': [{'name': 'b', 'stage': 0, 'refs': [['B', 'b0', '']]},
                      {'name': 'a-b', 'stage': 0, 'refs': [['C', None, 'b', '', 'ref']]},
                      {'name': 'stop', 'stage': 0, 'refs': [['C', None, 'a-b', '', 'ref'], ['C', None, 'b', '', 'ref']]}],
            'ibind': [['b0', 'output']], 'binds': [['b0', [0, 'src0', '']]],
            'loopb': [['b0', [None, 'a-b', '']]], 'cond': [None, 'stop', 'f'],
            'outs': [{'name': 'rep', 'stage': 2, 'refs': [[1, 'b', '', 'ref']]}],
            'k': k}


def clash_case(k, ctl=None):
    """boundary case of the name clashes between looped and outside components: 'work' is looped (stage 1 of the
    workflow), stage0.work and stage2.work are plain components; the looped work reads stage0.work through a
    binding that is NOT loop-carried and stage1.mid directly; the looped stop (next stage) reads the looped work and
    the plain stage2.work; a consumer named 'stop' after the loop reads all of them (coq: Loop.Proofs.ex_doc4)"""
    case = {'S': 1, 'dwname': 'dw', 'srcs': [['src0', 0], ['work', 0], ['mid', 1], ['work', 2]],
            'comps': [{'name': 'work', 'stage': 0,
                       'refs': [['B', 'b0', ''], ['B', 'base', ''], ['C', None, 'mid', '', 'ref']]},
                      {'name': 'stop', 'stage': 1,
                       'refs': [['C', 0, 'work', '', 'output'], ['C', 1, 'work', 'f', 'ref']]}],
            'ibind': [['b0', 'output'], ['base', 'ref']],
            'binds': [['b0', [0, 'src0', '']], ['base', [0, 'work', '']]],
            'loopb': [['b0', [0, 'work', '']]], 'cond': [1, 'stop', 'f'],
            'outs': [{'name': 'stop', 'stage': 3,
                      'refs': [[1, 'work', '', 'ref'], [0, 'work', '', 'ref'], [2, 'work', '', 'output'],
                               [1, 'work', '', 'loopref'], [1, 'work', 'f', 'loopoutput'], [2, 'stop', '', 'loopref']]}],
            'k': k}
    if ctl:
        case['ctl'] = ctl
    return case


def with_ctl(case, start, inspect):
    case = dict(case)
    case['ctl'] = {'start': start, 'inspect': inspect}
    return case


F5C = 'overlapping_reference_texts_on_a_looped_command_line'


def loop_args_conflict(case):
    """class of F5c (a predicate on the input; Loop.Subst.overlap): the command line of a LOOPED component holds two
    different reference texts, the LATER of which occurs word-bounded inside the EARLIER one (whose rewritten form
    is already in the string when the later one is substituted; the other direction is harmless)"""
    _main, dw = c05_impl.documents(case)
    for comp in dw['components']:
        toks = (comp.get('command', {}).get('arguments') or '').split()
        for i, a in enumerate(toks):
            for b in toks[i + 1:]:
                if a != b and ':' in b and re.search(r'\b' + re.escape(b) + r'\b', a):
                    return True
    return False


def subst_correspondence(ctx):
    """the real flowir.rewrite_all_references on the command line 'n1:ref n2:ref' of a looped component, for every
    ordered pair of distinct generator names, against Loop.Subst.rewritten (sequential re.sub with \\b, count=1)"""
    import logging
    logging.disable(logging.CRITICAL)
    import experiment.model.frontends.flowir as F
    terms, owners = [], []
    for n1 in COMP_NAMES:
        for n2 in COMP_NAMES:
            if n1 == n2:
                continue
            for S, i in ((1, 0), (ctx.rng.choice([0, 1, 3]), ctx.rng.choice([1, 2, 9, 10, 11, 12, 25]))):
                value = '%s:ref %s:ref' % (n1, n2)
                try:
                    got = F.rewrite_all_references(value, {}, set(), 0, S, iter_number=i,
                                                   looped_ids={(S, n1), (S, n2)})
                except Exception as e:
                    got = 'EXC:' + type(e).__name__
                terms.append('(%s, %s, (%s, %s), %s)' % (cstr(n1), cstr(n2), cN(S), cN(i), cstr(got)))
                owners.append((n1, n2, S, i, got))
                ctx.count('command-line substitution cases')
                if re.search(r'\b' + re.escape(n2 + ':ref') + r'\b', n1 + ':ref'):
                    ctx.count('command-line substitution cases with overlapping texts')
    # reference texts with a file part holding variable references (parentheses, dots: characters that mean something
    # in a regular expression): the text is substituted literally (re.escape).  Other punctuation (+ [ | ? $) is not
    # part of what discover_reference_strings takes for a reference, so such texts are never rewritten at all.
    for n1 in ('a', 'x1', 'c_d', 'Loop'):
        for f in ('%(v)s', 'out/%(name)s.txt', 'r-%(i)s/x.dat', 'd.x', '%(p)s/%(q)s'):
            n2 = 'stop'
            S, i = ctx.rng.choice([0, 1, 3]), ctx.rng.choice([0, 1, 2, 10, 11])
            value = '%s/%s:ref %s:ref' % (n1, f, n2)
            try:
                got = F.rewrite_all_references(value, {}, set(), 0, S, iter_number=i, looped_ids={(S, n1), (S, n2)})
            except Exception as e:
                got = 'EXC:' + type(e).__name__
            terms.append('(%s, %s, (%s, %s), %s)' % (cstr(n1 + '/' + f), cstr(n2), cN(S), cN(i), cstr(got)))
            owners.append((n1 + '/' + f, n2, S, i, got))
            ctx.count('command-line substitution cases with regular-expression characters in the file part')
    bad = ctx.model_mismatches('Require Import V.Lib.JTree V.Loop.Model V.Loop.Subst.\nOpen Scope N_scope.', terms,
                               'check_subst', chunk=300, name='c05subst')
    for i in bad:
        n1, n2, S, it, got = owners[i]
        ctx.disagree({'n1': n1, 'n2': n2, 'S': S, 'iteration': it}, got, 'Loop.Subst.rewritten',
                     'C05 command-line substitution: flowir.rewrite_all_references vs Loop.Subst.rewrite_seq')


def args_conflict(case):
    """two references on one generated command line, one a word-bounded substring of the other"""
    main, dw = c05_impl.documents(case)
    for comp in main['components'] + dw['components']:
        toks = (comp.get('command', {}).get('arguments') or '').split()
        for a in toks:
            for b in toks:
                if a != b and re.search(r'\b' + re.escape(a) + r'\b', b):
                    return True
    return False


# ------------------------------------------------------------------ the property, on the implementation's outputs
def expected_refs(case, c, i):
    S = case['S']
    types = dict(case['ibind'])
    binds = dict((b, v) for b, v in case['binds'])
    loopb = dict((b, v) for b, v in case['loopb'])
    looped = looped_ids(case)
    out = []
    for r in c['refs']:
        if r[0] == 'B':
            b, f = r[1], r[2]
            if i > 0 and b in loopb:
                st, prod, lf = loopb[b]
                out.append(c05_impl.ref_str(S + (st or 0), '%d#%s' % (i - 1, prod), f or lf, types[b]))
            else:
                st, prod, bf = binds[b]
                out.append(c05_impl.ref_str(st, prod, f or bf, types[b]))
        else:
            _t, st, name, f, m = r
            ast = S + (c['stage'] if st is None else st)
            # the component with that STAGE and name: an instance of the same iteration if it is looped, else the
            # component outside the loop as it is
            out.append(c05_impl.ref_str(ast, ('%d#%s' % (i, name)) if (ast, name) in looped else name, f, m))
    return out


def predicate(case, obs):
    """-> list of messages, one per part of the statement that is false of the implementation on this case"""
    S, k = case['S'], case['k']
    bad = []
    if 'error' in obs:
        return ['the real code raised %s while loading/iterating a valid DoWhile package' % obs['error']]
    node = lambda c, i: 'stage%d.%d#%s' % (S + c['stage'], i, c['name'])
    # instances
    want = set(node(c, i) for c in case['comps'] for i in range(k + 1))
    want |= set('stage%d.%s' % (s[1], s[0]) for s in case['srcs'])
    want |= set('stage%d.%s' % (o['stage'], o['name']) for o in case['outs'])
    if set(obs['nodes']) != want:
        bad.append('after k further iterations the workflow does not contain exactly the instances 0..k of every '
                   'looped component')
    for j, (it, new) in enumerate(obs['steps']):
        if it != j + 1 or sorted(new) != sorted(node(c, j + 1) for c in case['comps']):
            bad.append('a call of instantiate_dowhile_next_iteration did not create exactly the next iteration')
            break
    # wiring
    for c in case['comps']:
        for i in range(k + 1):
            got = obs['insts'].get(node(c, i))
            if got is None:
                continue
            if got['refs'] != expected_refs(case, c, i) or got['stage'] != S + c['stage'] or got['loopIteration'] != i:
                bad.append('an instance does not take its loop-carried inputs from the previous iteration and its '
                           'other inputs from the original bindings (or its stage drifted)')
                break
        else:
            continue
        break
    # latest / order / condition
    for c in case['comps']:
        p = 'stage%d.%s' % (S + c['stage'], c['name'])
        ph = obs['placeholders'].get(p)
        if ph is None or ph['latest'] != node(c, k) or obs['map_latest'].get(p) != node(c, k):
            bad.append('the newest instance of a looped component is not the numerically highest iteration')
            break
        if set(ph['represents']) != set(node(c, i) for i in range(k + 1)):
            bad.append('a placeholder does not represent all instances')
            break
    byid = dict(((c['stage'], c['name']), c) for c in case['comps'])
    for o in case['outs']:
        for r in o['refs']:
            st, name, f, m = r
            c = byid.get((st - S, name))
            if c is None:
                # a component outside the loop, whatever its name: itself
                got = obs['resolve']['%s|%s' % (o['name'], c05_impl.ref_str(*r))]
                if '#' in got or not re.search(r'(stage%d[/.])%s(/|\)|$)' % (st, re.escape(name)), got):
                    bad.append('a reference to a component outside the loop does not resolve to that component')
                continue
            got = obs['resolve']['%s|%s' % (o['name'], c05_impl.ref_str(*r))]
            if m in ('loopref', 'loopoutput'):
                parts = got.split(' ')
                ok = len(parts) == k + 1 and all(('%d#%s' % (i, name)) in parts[i] and
                                                 ('%d#%s' % (i + 1, name)) not in parts[i] for i in range(k + 1)) and \
                    all(re.search(r'[/.]%d#%s(/|\)|$)' % (i, re.escape(name)), parts[i]) for i in range(k + 1))
                if not ok:
                    bad.append('an aggregate loop reference does not list all instances in increasing iteration order')
            else:
                if not re.search(r'[/.]%d#%s(/|\)|$)' % (k, re.escape(name)), got):
                    bad.append('a reference from outside the loop does not resolve to the numerically highest iteration')
    # the Controller looked at the workflow: nothing may have changed, and what it saw is the placeholders
    if obs.get('inspection_changed'):
        bad.append('a read-only inspection of the workflow by the Controller (initialise / status report / dependency '
                   'analysis) changed the %s of the workflow graph' % ', '.join(obs['inspection_changed']))
    if obs.get('ctl'):
        cc = byid[(case['cond'][0] or 0, case['cond'][1])]
        for c in case['comps']:
            v = obs['ctl'].get('stage%d.%s' % (S + c['stage'], c['name']))
            inst_c = [node(c, i) for i in range(k + 1)]
            if v is None or v['all'] != sorted(inst_c) or v['latest'] != [node(c, k)] or v['subjects'] or \
                    v['producers'] != sorted(set(inst_c + [node(cc, k)])):
                bad.append('the Controller does not see a placeholder as the instances 0..k of its component (latest: '
                           'k) waiting for them and for the condition of iteration k')
                break
    cn = case['cond'][1]
    want_cond = c05_impl.ref_str(S + (case['cond'][0] or 0), '%d#%s' % (k, cn), case['cond'][2], 'output')
    if obs['state']['currentIteration'] != k or obs['state']['currentCondition'] != want_cond:
        bad.append('the current condition of the loop is not the one produced by iteration k')
    seen, uniq = set(), []
    for b in bad:
        if b not in seen:
            seen.add(b)
            uniq.append(b)
    return uniq


# ------------------------------------------------------------------ Coq terms
def cN(n):
    return '(%d)%%N' % n


def c_aref(st, prod, f, m):
    return '(mk_aref %s %s %s %s)' % (cN(st), cstr(prod), cstr(f), cstr(m))


def c_case(case, obs):
    types = dict(case['ibind'])

    def c_ref(r):
        if r[0] == 'B':
            return '(RBind %s %s %s)' % (cstr(r[1]), cstr(r[2]), cstr(types[r[1]]))
        return '(RComp %s %s %s %s)' % (copt(r[1], cN), cstr(r[2]), cstr(r[3]), cstr(r[4]))

    comps = clist(case['comps'], lambda c: '(mk_comp %s %s %s)' % (cstr(c['name']), cN(c['stage']), clist(c['refs'], c_ref)))
    binds = clist(case['binds'], lambda bv: cpair(cstr(bv[0]), c_aref(bv[1][0], bv[1][1], bv[1][2], types[bv[0]])))
    lb = lambda v, m: '(mk_lb %s %s %s %s)' % (copt(v[0], cN), cstr(v[1]), cstr(v[2]), cstr(m))
    loopb = clist(case['loopb'], lambda bv: cpair(cstr(bv[0]), lb(bv[1], types[bv[0]])))
    doc = '(mk_dw %s %s %s %s %s)' % (cN(case['S']), comps, binds, loopb, lb(case['cond'], 'output'))
    outs = [('(mk_ocomp %s %s [])' % (cstr(s[0]), cN(s[1]))) for s in case['srcs']]
    outs += ['(mk_ocomp %s %s %s)' % (cstr(o['name']), cN(o['stage']), clist(o['refs'], lambda r: c_aref(*r)))
             for o in case['outs']]
    sl = lambda xs: clist(xs, cstr)
    resolve = [obs['resolve']['%s|%s' % (o['name'], c05_impl.ref_str(*r))] for o in case['outs'] for r in o['refs']]
    mp = [obs['map_latest'].get('stage%d.%s' % (case['S'] + c['stage'], c['name'])) for c in case['comps']]
    o = '(mk_obs %s %s %s %s %s %s %s %s %s)' % (
        clist(obs['steps'], lambda s: cpair(cN(s[0]), sl(s[1]))),
        sl(obs['nodes']),
        clist(sorted(obs['insts'].items()),
              lambda kv: cpair(cstr(kv[0]), '(%s, %s, %s)' % (cN(kv[1]['stage']), cN(kv[1]['loopIteration']), sl(kv[1]['refs'])))),
        clist(sorted(obs['preds'].items()), lambda kv: cpair(cstr(kv[0]), sl(kv[1]))),
        clist(sorted(obs['placeholders'].items()),
              lambda kv: cpair(cstr(kv[0]), cpair(cstr(kv[1]['latest']), sl(kv[1]['represents'])))),
        cpair(cstr(obs['state']['currentCondition']), cN(obs['state']['currentIteration'])),
        sl(resolve),
        clist(mp, lambda x: copt(x, cstr)),
        clist(sorted(obs.get('ctl', {}).items()),
              lambda kv: cpair(cstr(kv[0]), cpair(sl(kv[1]['producers']), cpair(sl(kv[1]['all']), sl(kv[1]['latest']))))))
    return '(mk_case %s %s %s %s)' % (doc, clist(outs), cnat(case['k']), o)


# ------------------------------------------------------------------ running
def _drive(case):
    try:
        return c05_impl.drive(case)
    except Exception as e:  # machinery error of the driver itself
        return {'error': 'driver:' + type(e).__name__, 'msg': str(e)[:300]}


def explore(ctx, cases, parallel=True):
    if parallel and len(cases) > 4:
        with multiprocessing.get_context('fork').Pool(min(12, NPROC)) as pool:
            observations = pool.map(_drive, cases, chunksize=2)
    else:
        observations = [_drive(c) for c in cases]
    terms, owners = [], []
    for case, obs in zip(cases, observations):
        k = case['k']
        nontrivial = k >= 2 and bool(case['loopb']) and len(case['comps']) >= 2
        canonical = dict(case)
        ctx.case(canonical, nontrivial)
        ctx.count('k=%d' % k)
        ctx.count('looped_components=%d' % len(case['comps']))
        ctx.count('loop_bindings=%d' % len(case['loopb']))
        ctx.count('import_stage=%d' % case['S'])
        if k >= 10:
            ctx.count('k>=10 (decimal and lexicographic order differ)')
        if 'error' in obs and obs['error'].startswith('driver:'):
            raise RuntimeError('C05 driver failed: %s %s' % (obs['error'], obs.get('msg')))
        classes = [F5C] if loop_args_conflict(case) else []
        if classes:
            ctx.count('looped command line with overlapping reference texts (class of the open finding F5c)')
        if len(set((c['stage'], c['name']) for c in case['comps'])) > len(set(c['name'] for c in case['comps'])):
            ctx.count('two looped components with the same name in different stages')
        if name_clashes(case):
            ctx.count('outside component with the name of a looped component (other stage)')
            lids = looped_ids(case)
            if any(r[0] == 'B' and [dict(case['binds'])[r[1]][1], dict(case['binds'])[r[1]][0]] in name_clashes(case)
                   for c in case['comps'] for r in c['refs']) or \
                    any(r[0] == 'C' and r[2] in [x[0] for x in name_clashes(case)] and
                        (case['S'] + (c['stage'] if r[1] is None else r[1]), r[2]) not in lids
                        for c in case['comps'] for r in c['refs']):
                ctx.count('... referenced from inside the loop (binding or direct)')
        if any(r[0] == 'C' and (case['S'] + (c['stage'] if r[1] is None else r[1]), r[2]) not in looped_ids(case)
               for c in case['comps'] for r in c['refs']):
            ctx.count('direct reference from inside the loop to a component outside')
        if case.get('ctl'):
            ctx.count('driven by a real Controller, inspect=%s' % case['ctl']['inspect'])
        for what in predicate(case, obs):
            ctx.fail({'case': case, 'observed': _brief(obs)}, what, classes)
        if 'error' in obs:
            continue
        terms.append(c_case(case, obs))
        owners.append((case, obs))
        ctx.sample({'case': case, 'latest': dict((p, v['latest']) for p, v in obs['placeholders'].items()),
                    'state': obs['state'], 'resolve': obs['resolve']}, limit=3)
    bad = ctx.model_mismatches(HEADER, terms, CHECKER, chunk=12, name='c05')
    for n, i in enumerate(bad):
        case, obs = owners[i]
        model = ''
        if n < 2:
            t = terms[i]
            model = ctx.model_eval(HEADER, 'let c := %s in let w := unroll (k_doc c) (k_out c) (k_k c) in '
                                   '(w_steps w, map (fun x => (inst_node x, map pr_ref (i_refs x))) (w_loop w), '
                                   'cur_cond w, cur_iter w, w_edges w, '
                                   'flat_map (fun oc => map (resolve KeyInt w) (o_refs oc)) (w_out w))' % t)[-3000:]
        ctx.disagree({'case': case}, _brief(obs), model,
                     'C05 unrolling: instantiate_dowhile_next_iteration/placeholders/state/resolve vs Loop.Model.unroll')
    return observations


def _brief(obs):
    if 'error' in obs:
        return obs
    return {'nodes': obs['nodes'], 'state': obs['state'], 'resolve': obs['resolve'],
            'latest': dict((p, v['latest']) for p, v in obs['placeholders'].items()),
            'map_latest': obs['map_latest'], 'steps': [s[0] for s in obs['steps']],
            'placeholders': obs['placeholders'], 'controller_view': obs.get('ctl'),
            'inspection_changed': obs.get('inspection_changed'),
            'insts': dict((n, v['refs']) for n, v in obs['insts'].items())}


def corpus():
    out = [simple_case(10), simple_case(11), simple_case(0), simple_case(1), simple_case(12)]   # F5 witness first
    # F5b (fixed): whichever instance the unordered set yields first, one of the two conditions exposes a regression
    out += [samename_case(2, 1), samename_case(2, 0), samename_case(11, 1), samename_case(0, None)]
    # F5c (open): reproduced on every run, whatever VERIF_SEED
    out += [overlap_case(0), overlap_case(2)]
    # outside components with the name of a looped component; workflows driven and inspected by a real Controller
    # (aggregate references to a looped component that does not produce the condition: 'fake_add', 'add', 'work')
    out += [clash_case(0), clash_case(2), clash_case(11, {'start': 0, 'inspect': 'each'}),
            with_ctl(simple_case(2), 0, 'end'), with_ctl(simple_case(0), 1, 'end'), with_ctl(simple_case(11), 1, 'each'),
            with_ctl(simple_case(3), 0, 'none'), with_ctl(samename_case(2, 1), 0, 'end'),
            with_ctl(samename_case(3, 0), 1, 'each')]
    d = os.path.join(os.path.dirname(os.path.abspath(__file__)), 'corpus', 'c05')
    if os.path.isdir(d):
        for f in sorted(os.listdir(d)):
            if f.endswith('.json'):
                out.append(json.load(open(os.path.join(d, f))))
    return out


def run(ctx):
    ctx.rule = ('generated DoWhile package (import stage, 1-4 looped components over up to 3 stages, input bindings '
                'bound outside, loop bindings, internal references, direct references to outside components, '
                'condition, outside producers/consumers ~35% of which reuse the name of a looped component in '
                'another stage, consumers with :ref/:output/:copy/:loopref/:loopoutput) x number of further '
                'iterations k x driver (bare WorkflowGraph, or ~45% a real Controller that instantiates the '
                'iterations and inspects the workflow after each / after the last one); non-trivial = k >= 2, at '
                'least one loop binding and at least two looped components; distinct by the whole case')
    rng = ctx.rng
    ks = KS_QUICK if ctx.tier == 'quick' else KS_THOROUGH
    per_k = 30 if ctx.tier == 'quick' else 60
    cases = corpus()
    for k in ks:
        n = 0
        while n < per_k:
            c = gen_case(rng, k)
            if args_conflict(c) or duplicate_refs(c):
                ctx.count('generated_with_overlapping_or_duplicate_references_skipped')
                continue
            cases.append(c)
            n += 1
    explore(ctx, cases)
    subst_correspondence(ctx)
    ctx.count('cases', len(cases))


def replay(ctx, path):
    d = json.load(open(path))
    c = d.get('case') or d.get('first', {}).get('case')
    if isinstance(c, dict) and 'case' in c:
        c = c['case']
    if not isinstance(c, dict) or 'comps' not in c:
        print('replay file names no input (proof/correspondence obligation): re-run ./check C05')
        return 2
    explore(ctx, [c], parallel=False)
    for f in ctx.failures:
        print('REPRODUCED: %s' % f['what'])
    for f in ctx.disagreements:
        print('DISAGREEMENT: %s' % (json.dumps(f, default=str)[:3000],))
    return 1 if (ctx.failures or ctx.disagreements) else 0
