"""C05 — DoWhile unrolling is wired correctly for any number of iterations.
Implementation driven (harness/c05_impl.py): a generated package (main FlowIR + DoWhile document) is written to a
scratch directory, loaded into a real Experiment/WorkflowGraph, and the real
WorkflowGraph.instantiate_dowhile_next_iteration is called k times exactly as
Controller._instantiate_next_dowhile_iteration does (next = state['currentIteration'] + 1).  Read back: graph nodes and
edges, the references of every looped instance in FlowIRConcrete, WorkflowGraph._placeholders, the DoWhile state,
DataReference.resolve() of the outside consumers' references (:ref/:output/:copy/:loopref/:loopoutput) and
flowir.map_placeholder_id_to_iteration.
Round 5: a workflow may import SEVERAL DoWhile documents (case['more'], instantiated in the order case['seq']; model:
coq/Loop/Multi.v, the statement is judged per document with its own iteration count), and every Controller-driven case
records what Controller.parse_workflow_graph registers in comp_condition_to_dowhile after initialise and after every
instantiation (+ the 'C:' tags of the status report): the producer of the condition of the newest iteration."""
import json
import multiprocessing
import os
import re

from common import clist, cstr, cnat, copt, cpair, NPROC
import c05_impl

PROP = 'C05'
COQ_DIR = 'Loop'
ASSUMPTIONS = [
    'reference strings are modelled in parsed form (stage, producer, file, method); the parser is exercised by the '
    'correspondence only (C09 is about it); validation errors of instantiate_dowhile are not modelled (documents load)',
    'no replication inside the loop; the (stage, name) pairs of the looped components are pairwise distinct (the same '
    'name may be used in two stages), names contain no "#" and differ from binding names; components outside the '
    'loop (bound producers, producers referenced directly from inside the loop, consumers) may have the name of a '
    'looped component of another stage; :loopref/:loopoutput are used by consumers outside the loop only',
    'Controller-driven cases: a real experiment.runtime.control.Controller over real ComponentState objects '
    'instantiates the iterations (Controller._instantiate_next_dowhile_iteration) and inspects the workflow '
    '(initialise / generate_status_report_for_nodes / _comp_get_active_predecessors / get_node_state / '
    '_true_nodes_from_identifiers / _input_dependencies_satisfied); no task is launched: Controller._schedule, '
    'finishedCheck and the resolution done by a running consumer are not exercised',
    'files read by :output/:loopoutput are created by the harness with contents naming their producer',
    'workflows with several DoWhile documents: the (stage, name) pairs of all looped components are pairwise distinct '
    '(Loop.MultiProofs.wf_multi) and distinct from the plain components; generated documents never bind an input to a '
    'looped component of another document (open finding F5d, fixed corpus cases only); the edges of such workflows are '
    'compared with the model (Loop.Multi.mgraph_edges) but characterised by a theorem for one document only',
    'command-line arguments of RANDOMLY generated components never contain two references one of which is a '
    'word-bounded substring of the other: the sequential regular-expression substitution of rewrite_all_references '
    'corrupts such command lines (open finding F5c, reproduced by two fixed corpus cases on every run; modelled in '
    'coq/Loop/Subst.v)',
]
HEADER = 'Require Import V.Lib.JTree V.Loop.Model.\nOpen Scope N_scope.'
CHECKER = 'check_case'
MHEADER = 'Require Import V.Lib.JTree V.Loop.Model V.Loop.Multi.\nOpen Scope N_scope.'
MCHECKER = 'check_mcase'

COMP_NAMES = ['a', 'ab', 'a-b', 'b', 'stop', 'x1', 'n0', 'add', 'agg2', 'c_d', 'Loop', 'z9z']
BIND_NAMES = ['b0', 'in', 'number', 'p-q', 'Bq']
SRC_NAMES = ['src0', 'gen', 'src-1']
OUT_NAMES = ['rep', 'obs']
MID_NAMES = ['mid', 'aux-2']
FILES = ['f', 'g.txt']
KS_QUICK = [0, 1, 2, 9, 10, 11, 12]
KS_THOROUGH = [0, 1, 2, 3, 9, 10, 11, 12, 19, 20, 21, 25]


# ------------------------------------------------------------------ generator
def gen_case(rng, k, S=None):
    S0 = rng.choice([0, 1, 1, 2, 3])
    S = S0 if S is None else S
    nsrc = rng.choice([1, 2, 2, 3])
    srcs = [[n, rng.randint(0, S)] for n in rng.sample(SRC_NAMES, nsrc)]
    ncomp = rng.choice([1, 2, 2, 3, 3, 4])
    names = rng.sample(COMP_NAMES, ncomp)
    stages = sorted(rng.choice([0, 0, 1, 2]) for _ in range(ncomp))
    if rng.random() < 0.5:
        stages = [s - stages[0] for s in stages]
    # two looped components of different stages may have the same name (F5b: the DoWhile state and
    # map_placeholder_id_to_iteration used to compare the name only)
    if ncomp >= 2 and rng.random() < 0.3:
        pairs = [(i, j) for i in range(ncomp) for j in range(i + 1, ncomp) if stages[i] != stages[j]]
        if pairs:
            i, j = rng.choice(pairs)
            names[j] = names[i]
    # component ids are (stage, name) pairs: a component OUTSIDE the loop may have the name of a looped component
    # of another stage (producers below/at the import stage that are bound to input bindings, producers in the
    # stages of the loop that are referenced directly from inside the loop, consumers after the loop)
    looped_abs = set((S + st, n) for st, n in zip(stages, names))
    clash = rng.random() < 0.4
    clash_srcs = []
    if clash:
        nm = rng.choice(names)
        free = [st for st in range(S + 1) if (st, nm) not in looped_abs]
        if free:
            at = rng.randrange(len(srcs))
            srcs[at] = [nm, rng.choice(free)]
            clash_srcs.append(srcs[at])
    low = list(srcs)                # producers that the importing component (stage S) may bind
    if rng.random() < 0.45:
        # a producer in one of the stages of the loop: referenced DIRECTLY by looped components
        st = S + rng.randint(0, max(stages))
        pool = list(MID_NAMES)
        if clash:
            pool += [n for n in names if (st, n) not in looped_abs] * 2
        nm = rng.choice(pool)
        if [nm, st] not in srcs:
            srcs.append([nm, st])
            if st <= S:
                low.append([nm, st])
    nb = rng.choice([0, 1, 1, 2, 2, 3])
    ibind = [[b, rng.choice(['ref', 'output', 'output', 'copy'])] for b in rng.sample(BIND_NAMES, nb)]
    types = dict(ibind)
    binds = []
    for b, _t in ibind:
        s = rng.choice(clash_srcs) if clash_srcs and rng.random() < 0.5 else rng.choice(low)
        binds.append([b, [s[1], s[0], rng.choice(['', '', '', 'f', 'g.txt'])]])
    loopb = []
    for b, _t in ibind:
        if rng.random() < 0.8:
            j = rng.randrange(ncomp)
            st = stages[j]
            if st == 0 and rng.random() < 0.5:
                st = None
            loopb.append([b, [st, names[j], rng.choice(['', '', 'f'])]])
    bfile = dict((b, v[2]) for b, v in binds)
    lfile = dict((b, v[2]) for b, v in loopb)
    comps = []
    for idx in range(ncomp):
        refs = []
        for b, _t in ibind:
            if rng.random() < 0.55:
                f = ''
                if not bfile[b] and not lfile.get(b) and rng.random() < 0.3:
                    f = rng.choice(FILES)
                refs.append(['B', b, f])
        for j in range(idx):
            if rng.random() < 0.5:
                st = stages[j]
                if st == stages[idx] and rng.random() < 0.5:
                    st = None
                refs.append(['C', st, names[j], rng.choice(['', '', 'f', 'g.txt']), rng.choice(['ref', 'output', 'copy'])])
        for nm, ast in srcs:
            # direct reference to a component outside the loop (document stage = workflow stage - import stage)
            if S <= ast <= S + stages[idx] and rng.random() < 0.3:
                st = ast - S
                if st == stages[idx] and rng.random() < 0.4:
                    st = None
                refs.append(['C', st, nm, rng.choice(['', '', 'f']), rng.choice(['ref', 'output', 'copy'])])
        rng.shuffle(refs)
        comps.append({'name': names[idx], 'stage': stages[idx], 'refs': refs,
                      'explicit_stage': rng.random() < 0.3})
    # make sure the loop-carried bindings are used by someone
    for b, _v in loopb:
        if not any(r[0] == 'B' and r[1] == b for c in comps for r in c['refs']):
            comps[rng.randrange(ncomp)]['refs'].append(['B', b, ''])
    j = rng.randrange(ncomp)
    cst = stages[j]
    if cst == 0 and rng.random() < 0.5:
        cst = None
    cond = [cst, names[j], rng.choice(['', 'f', 'g.txt'])]
    outs = []
    top = S + max(stages)
    for n in rng.sample(OUT_NAMES, rng.choice([1, 1, 2])):
        refs = []
        for j in range(ncomp):
            for m in ('ref', 'output', 'loopref', 'loopoutput', 'copy'):
                if rng.random() < 0.35:
                    refs.append([S + stages[j], names[j], rng.choice(['', '', 'f', 'g.txt']), m])
        if rng.random() < 0.4:
            s = rng.choice(srcs)
            refs.append([s[1], s[0], '', 'ref'])
        for s in srcs:
            if s[0] in names and rng.random() < 0.6:
                refs.append([s[1], s[0], rng.choice(['', 'f']), rng.choice(['ref', 'output', 'copy'])])
        if not refs:
            refs.append([S + stages[0], names[0], '', 'ref'])
        # one reference per (producer, file, method)
        seen, uniq = set(), []
        for r in refs:
            if tuple(r) not in seen:
                seen.add(tuple(r))
                uniq.append(r)
        ost = top + rng.choice([0, 1, 1, 2])
        if clash and rng.random() < 0.4:
            free = [x for x in names if (ost, x) not in looped_abs and [x, ost] not in srcs and
                    not any(o['name'] == x and o['stage'] == ost for o in outs)]
            if free:
                n = rng.choice(free)
        outs.append({'name': n, 'stage': ost, 'refs': uniq})
    # FlowIR wants the stage indices of a package to be 0..n-1 without gaps: fill the holes with idle components
    used = set(s[1] for s in srcs) | set(S + st for st in stages) | set(o['stage'] for o in outs)
    for st in range(max(used) + 1):
        if st not in used:
            srcs.append(['fill%d' % st, st])
    case = {'S': S, 'dwname': rng.choice(['dw', 'loop-1']), 'srcs': srcs, 'comps': comps, 'ibind': ibind,
            'binds': binds, 'loopb': loopb, 'cond': cond, 'outs': outs, 'k': k}
    # who drives the iterations: the bare WorkflowGraph, or a real Controller (initialised at a stage not after the
    # loop) that also looks at the workflow (status report / dependency analysis) between or after the iterations
    if rng.random() < 0.45:
        case['ctl'] = {'start': rng.randint(0, S), 'inspect': rng.choice(['end', 'end', 'each', 'each', 'none'])}
    return case


# ------------------------------------------------------------------ replication inside the loop (round 7)
REP_VARS = ['N', 'replicas', 'n_w']
REP_SOURCES = ['literal', 'default_global', 'platform_global', 'default_stage_only', 'default_stage_over_global',
               'default_stage_over_global', 'platform_stage', 'stage_variable_of_another_stage']


def rep_vars_for(rng, source, var, n, at, stages):
    """-> (vars, platform): variables.<platform>.{global, stages} such that the variable has the value n for a
    component of workflow stage `at` by the layering  default global < platform global < default stage < platform
    stage  (a default stage value is hidden by a platform global one); every other scope holds a DIFFERENT value"""
    other = lambda: rng.choice([x for x in (1, 2, 3, 4) if x != n])
    v = {'dg': {}, 'ds': {}, 'pg': {}, 'ps': {}}
    platform = None
    if source == 'default_global':
        v['dg'][var] = n
    elif source == 'platform_global':
        platform = 'plat'
        v['pg'][var] = n
        v['dg'][var] = other()      # (a package is validated for the default platform too: the variable must exist)
    elif source == 'default_stage_only':
        v['ds'][str(at)] = {var: n}
    elif source == 'default_stage_over_global':
        v['dg'][var] = other()
        v['ds'][str(at)] = {var: n}
    elif source == 'platform_stage':
        platform = 'plat'
        v['ps'][str(at)] = {var: n}
        v['dg'][var] = other()
        if rng.random() < 0.4:
            v['pg'][var] = other()
        if rng.random() < 0.4:
            v['ds'][str(at)] = {var: other()}
    elif source == 'stage_variable_of_another_stage':
        v['dg'][var] = n
        for st in stages:
            if st != at and rng.random() < 0.7:
                v['ds'][str(st)] = {var: other()}
    if source != 'literal' and rng.random() < 0.3:
        v['dg']['unrelated'] = 7
    return v, platform


def lookup_var(case, var, at):
    """the value of a variable for a component of workflow stage `at` (FlowIRConcrete.instance layering)"""
    v = case.get('vars') or {}
    plat = bool(case.get('platform'))
    ps = v.get('ps', {}).get(str(at), {}) if plat else {}
    pg = v.get('pg', {}) if plat else {}
    ds = v.get('ds', {}).get(str(at), {})
    for scope in (ps, {} if var in pg else ds, pg, v.get('dg', {})):
        if var in scope:
            return scope[var]
    return None


def replica_counts(loop, case):
    """(stage, name) -> number of replicas (0 = not replicated) of every looped component: its own
    workflowAttributes.replicate (a number, or a variable looked up in the scopes of ITS stage), else inherited from
    a replicated component it references without aggregating (FlowIR.propagate_replicate)"""
    counts = {}
    for _pass in range(len(loop['comps']) + 1):
        for c in loop['comps']:
            key = (c['stage'], c['name'])
            n = 0
            if c.get('agg'):
                n = 0
            elif c.get('rep') is not None:
                n = c['rep'] if isinstance(c['rep'], int) else lookup_var(case, c['rep'], loop['S'] + c['stage'])
            else:
                for r in c['refs']:
                    if r[0] == 'C':
                        n = max(n, counts.get((c['stage'] if r[1] is None else r[1], r[2]), 0))
            counts[key] = n or 0
    return counts


def is_replicated(case):
    return any(c.get('rep') is not None for l in c05_impl.loops_of(case) for c in l['comps'])


def expand_case(case):
    """the DoWhile document with the replication written out: a looped component c with n > 0 replicas becomes the n
    looped components c0 .. c(n-1) with the references of c (a reference to a replicated component: to the replica
    with the same index); an aggregating component lists, in place of a reference to a replicated component, one
    reference per replica.  The statement (and Loop.Model.unroll) is then read on this document: instances 0..k of
    EVERY replica, placeholders stageS.c0 .. stageS.c(n-1)"""
    out = dict((k, v) for k, v in case.items() if k not in ('vars', 'platform', 'xouts', 'xcomps', 'rep_source'))
    counts = replica_counts(case, case)

    def widen(refs, stage, index):
        res = []
        for r in refs:
            n = counts.get((stage if r[1] is None else r[1], r[2]), 0) if r[0] == 'C' else 0
            if n == 0:
                res.append(list(r))
            elif index is not None:
                res.append(['C', r[1], '%s%d' % (r[2], index), r[3], r[4]])
            else:
                res += [['C', r[1], '%s%d' % (r[2], j), r[3], r[4]] for j in range(n)]
        return res

    comps = []
    for c in case['comps']:
        n = counts[(c['stage'], c['name'])]
        plain = dict((k, v) for k, v in c.items() if k not in ('rep', 'agg'))
        if n == 0:
            comps.append(dict(plain, refs=widen(c['refs'], c['stage'], None)))
        else:
            comps += [dict(plain, name='%s%d' % (c['name'], j), refs=widen(c['refs'], c['stage'], j)) for j in range(n)]
    out['comps'] = comps
    outs = []
    for o in case['outs']:
        refs = []
        for r in o['refs']:
            n = counts.get((r[0] - case['S'], r[1]), 0)
            refs += [list(r)] if n == 0 else [[r[0], '%s%d' % (r[1], j), r[2], r[3]] for j in range(n)]
        outs.append({'name': o['name'], 'stage': o['stage'], 'refs': refs})
    out['outs'] = outs
    return out


def gen_rcase(rng, k, source=None):
    """a DoWhile whose body is replicated: [pre] -> work (replicate: number | '%(var)s') [-> post (replicated by
    propagation)] -> gather (aggregate) [-> stop]; the loop-carried binding is produced by a component after the
    aggregation.  The number of replicas (1..3) is a literal or comes from a variable defined in one of the scopes
    REP_SOURCES; the scopes that must NOT win hold other values.  Import stage 0..2, the replicated part in the first
    or second stage of the body, the aggregation in the same or the next stage"""
    S = rng.choice([0, 0, 1, 2])
    source = source or rng.choice(REP_SOURCES)
    n = rng.choice([1, 2, 2, 3])
    var = rng.choice(REP_VARS)
    names = rng.sample([x for x in COMP_NAMES if x not in ('a-b',)], 5)
    pre, work, post, gather, stop = names
    has_pre = rng.random() < 0.4
    wst = 1 if (has_pre and rng.random() < 0.5) else 0
    gst = wst + (1 if rng.random() < 0.35 else 0)
    comps = []
    if has_pre:
        comps.append({'name': pre, 'stage': 0, 'refs': [['B', 'number', '']]})
    wrefs = [['C', 0 if wst else None, pre, '', rng.choice(['ref', 'output'])]] if has_pre else []
    if not has_pre or rng.random() < 0.5:
        wrefs.append(['B', 'number', ''])
    if rng.random() < 0.4:
        wrefs.append(['B', 'base', ''])
    comps.append({'name': work, 'stage': wst, 'refs': wrefs, 'rep': n if source == 'literal' else var})
    last = work
    if rng.random() < 0.4:
        comps.append({'name': post, 'stage': wst, 'refs': [['C', None, work, rng.choice(['', 'f']), 'output']]})
        last = post
    grefs = [['C', wst if gst != wst or rng.random() < 0.3 else None, last, '', rng.choice(['ref', 'output'])]]
    if last != work and rng.random() < 0.5:
        grefs.append(['C', wst if gst != wst else None, work, 'f', 'ref'])
    comps.append({'name': gather, 'stage': gst, 'refs': grefs, 'agg': True})
    tail = gather
    if rng.random() < 0.7:
        comps.append({'name': stop, 'stage': gst, 'refs': [['C', None, gather, '', 'output']]})
        tail = stop
    ibind = [['number', 'output']]
    binds = [['number', [0, 'gen', '']]]
    if any(r[:2] == ['B', 'base'] for r in wrefs):
        ibind.append(['base', 'ref'])
        binds.append(['base', [0, 'gen', '']])
    lbp = rng.choice([gather, tail])
    loopb = [['number', [gst if gst or rng.random() < 0.5 else None, lbp, '']]]
    cond = [gst if gst or rng.random() < 0.5 else None, tail, rng.choice(['', 'f'])]
    top = S + gst
    ost = top + rng.choice([0, 1, 1])
    orefs = []
    for nm in set([gather, tail]):
        for m in ('ref', 'output', 'loopref', 'loopoutput'):
            if rng.random() < 0.4:
                orefs.append([top, nm, '', m])
    if not orefs:
        orefs.append([top, gather, '', 'ref'])
    outs = [{'name': 'rep', 'stage': ost, 'refs': orefs}]
    if rng.random() < 0.4:
        # an aggregating consumer outside the loop reads the newest instance of EVERY replica
        outs.append({'name': 'obs', 'stage': max(ost, S + wst + 1), 'agg': True,
                     'refs': [[S + wst, last, '', rng.choice(['ref', 'output'])]]})
    srcs = [['gen', 0]]
    used = set([0]) | set(S + c['stage'] for c in comps) | set(o['stage'] for o in outs)
    for st in range(max(used) + 1):
        if st not in used:
            srcs.append(['fill%d' % st, st])
    stages = sorted(set(range(max(used) + 1)))
    case = {'S': S, 'dwname': rng.choice(['dw', 'loop-1']), 'srcs': srcs, 'comps': comps, 'ibind': ibind,
            'binds': binds, 'loopb': loopb, 'cond': cond, 'outs': outs, 'k': k, 'rep_source': source}
    case['vars'], case['platform'] = rep_vars_for(rng, source, var, n, S + wst, stages)
    if rng.random() < 0.4:
        case['ctl'] = {'start': rng.randint(0, S), 'inspect': rng.choice(['end', 'each', 'none'])}
    return case


def replicated_case(k, S, dg, ds, rep='N', ctl=None):
    """boundary case of replication inside the loop (the package of the DoWhile tests with its 'work' replicated):
    work (replicate) -> gather (aggregate) -> stop, imported in stage S; the number of replicas is a literal or the
    variable N of variables.default.global / variables.default.stages"""
    case = {'S': S, 'dwname': 'simple-do-while', 'srcs': [['gen', 0]] + [['fill%d' % st, st] for st in range(1, S)],
            'comps': [{'name': 'work', 'stage': 0, 'refs': [['B', 'number', '']], 'rep': rep},
                      {'name': 'gather', 'stage': 0, 'refs': [['C', None, 'work', '', 'output']], 'agg': True},
                      {'name': 'stop', 'stage': 0, 'refs': [['C', None, 'gather', '', 'output']]}],
            'ibind': [['number', 'output']], 'binds': [['number', [0, 'gen', '']]],
            'loopb': [['number', [None, 'gather', '']]], 'cond': [None, 'stop', ''],
            'outs': [{'name': 'report', 'stage': S + 1, 'refs': [[S, 'gather', '', 'ref'], [S, 'gather', '', 'loopref']]},
                     {'name': 'obs', 'stage': S + 1, 'agg': True, 'refs': [[S, 'work', '', 'ref']]}],
            'k': k, 'vars': {'dg': dg, 'ds': ds, 'pg': {}, 'ps': {}}, 'platform': None}
    if ctl:
        case['ctl'] = ctl
    return case


def plain_ids(case):
    return set((s[1], s[0]) for s in case['srcs']) | set((o['stage'], o['name']) for o in case['outs'])


def gen_multi(rng, ks):
    """a workflow importing 2 (sometimes 3) DoWhile documents: independent packages of gen_case merged into one —
    the (stage, name) pairs of all looped components pairwise distinct and distinct from the plain components; the
    same NAME may be looped in two documents (different stages), the documents may be imported in the same stage or
    in different ones and listed in either order; every document gets its own iteration count and the iterations
    are instantiated in blocks or interleaved; some outside consumers read looped components of several loops"""
    n = 3 if rng.random() < 0.15 else 2
    for _attempt in range(200):
        parts = [gen_case(rng, 0)]
        same_stage = rng.random() < 0.35
        while len(parts) < n:
            parts.append(gen_case(rng, 0, S=parts[0]['S'] if same_stage else None))
        ok = True
        for i, a in enumerate(parts):
            a['dwname'] = ['dw', 'loop-1', 'l3'][i] if rng.random() < 0.7 else a['dwname'] + '-%d' % i
            a['outs'] = [dict(o, name=o['name'] + ('' if i == 0 or o['name'] not in OUT_NAMES else str(i))) for o in a['outs']]
        for i, a in enumerate(parts):
            for j, b in enumerate(parts):
                if i == j:
                    continue
                if looped_ids(a) & (looped_ids(b) | plain_ids(b)):
                    ok = False
                if i < j and (set((o['stage'], o['name']) for o in a['outs']) & plain_ids(b)):
                    ok = False
                if i < j and (a['S'], a['dwname']) == (b['S'], b['dwname']):
                    ok = False
            if (a['S'], a['dwname']) in plain_ids(a):
                ok = False
        if not ok:
            continue
        case = dict(parts[0])
        case.pop('ctl', None)
        case['more'] = [dict((k, q[k]) for k in c05_impl.LOOP_KEYS) for q in parts[1:]]
        srcs = []
        for q in parts:
            for x in q['srcs']:
                if x not in srcs and not x[0].startswith('fill'):
                    srcs.append(x)
        outs = [o for q in parts for o in q['outs']]
        # some consumers read several loops (the placeholders of each resolve to that loop's own newest iteration)
        tops = [l['S'] + max(c['stage'] for c in l['comps']) for l in c05_impl.loops_of(case)]
        for o in outs:
            for j, l in enumerate(c05_impl.loops_of(case)):
                if o['stage'] >= tops[j] and rng.random() < 0.4:
                    c = rng.choice(l['comps'])
                    r = [l['S'] + c['stage'], c['name'], rng.choice(['', 'f']), rng.choice(['ref', 'output', 'loopref', 'loopoutput'])]
                    if r not in o['refs']:
                        o['refs'] = o['refs'] + [r]
        used = set(x[1] for x in srcs) | set(st for st, _n in looped_ids(case)) | set(o['stage'] for o in outs)
        for st in range(max(used) + 1):
            if st not in used:
                srcs.append(['fill%d' % st, st])
        case['srcs'], case['outs'] = srcs, outs
        counts = [rng.choice(ks) for _ in range(n)]
        mode = rng.random()
        if mode < 0.3:        # the LAST document gets ahead of the others
            counts.sort()
        elif mode < 0.4:
            counts.sort(reverse=True)
        seq = [j for j in range(n) for _ in range(counts[j])]
        order = rng.random()
        if order < 0.5:
            rng.shuffle(seq)                           # interleaved
        elif order < 0.75:
            seq.sort(reverse=True)                     # the later documents first, in blocks
        case['seq'] = seq
        case['k'] = seq.count(0)
        io = list(range(n))
        if rng.random() < 0.5:
            rng.shuffle(io)
        case['import_order'] = io
        if rng.random() < 0.5:
            case['ctl'] = {'start': rng.randint(0, min(l['S'] for l in c05_impl.loops_of(case))),
                           'inspect': rng.choice(['end', 'end', 'each', 'none'])}
        if args_conflict(case) or duplicate_refs(case):
            continue
        return case
    raise RuntimeError('gen_multi: no admissible workflow in 200 attempts')


def looped_ids(case):
    """(stage, name) of the looped components of ALL DoWhile documents of the case"""
    return set((l['S'] + c['stage'], c['name']) for l in c05_impl.loops_of(case) for c in l['comps'])


def loop_ids(loop):
    return set((loop['S'] + c['stage'], c['name']) for c in loop['comps'])


def name_clashes(case):
    """outside components that have the name of a looped component (of another stage)"""
    names = set(c['name'] for c in case['comps'])
    return [s for s in case['srcs'] if s[0] in names] + [[o['name'], o['stage']] for o in case['outs'] if o['name'] in names]


def duplicate_refs(case):
    """a component whose references coincide after rewriting (FlowIR wants every declared reference to be used once)"""
    for loop in c05_impl.loops_of(case):
        for c in loop['comps']:
            for i in (0, 1):
                e = expected_refs(loop, c, i)
                if len(set(e)) != len(e):
                    return True
    return False


def simple_case(k):
    """the package of tests/test_dowhile.py reduced to its wiring (witness of F5 at k = 10)"""
    return {'S': 1, 'dwname': 'simple-do-while', 'srcs': [['GenerateInput', 0]],
            'comps': [{'name': 'add', 'stage': 0, 'refs': [['B', 'number', '']]},
                      {'name': 'fake_add', 'stage': 0, 'refs': [['C', None, 'add', '', 'output']]},
                      {'name': 'stop', 'stage': 0, 'refs': [['C', None, 'fake_add', '', 'output']]}],
            'ibind': [['number', 'output']], 'binds': [['number', [0, 'GenerateInput', '']]],
            'loopb': [['number', [None, 'fake_add', '']]], 'cond': [None, 'stop', 'f'],
            'outs': [{'name': 'report', 'stage': 2,
                      'refs': [[1, 'add', '', 'output'], [1, 'fake_add', '', 'loopref'], [1, 'add', 'f', 'loopoutput'],
                               [1, 'stop', '', 'ref']]}],
            'k': k}


def samename_case(k, cond_stage):
    """two looped components named 'x' in stages 0 and 1 (witness of F5b, repaired by 5c6cbf4): the condition is
    produced by the one of stage cond_stage.  Before the fix the state named whichever 'k#x' came first in a set."""
    return {'S': 1, 'dwname': 'dw', 'srcs': [['src0', 0]],
            'comps': [{'name': 'x', 'stage': 0, 'refs': [['B', 'b0', '']]},
                      {'name': 'x', 'stage': 1, 'refs': [['C', 0, 'x', '', 'output']]}],
            'ibind': [['b0', 'output']], 'binds': [['b0', [0, 'src0', '']]],
            'loopb': [['b0', [1, 'x', '']]], 'cond': [cond_stage, 'x', 'f'],
            'outs': [{'name': 'rep', 'stage': 3, 'refs': [[2, 'x', '', 'ref'], [1, 'x', '', 'ref'],
                                                           [2, 'x', '', 'loopref'], [1, 'x', 'f', 'loopoutput']]}],
            'k': k}


def overlap_case(k):
    """witness of the open finding F5c: looped components 'b' and 'a-b' both referenced on the command line of
    'stop' ('a-b:ref b:ref').  rewrite_all_references substitutes one reference after the other with
    re.sub(r'\\b<ref>\\b', ..., count=1): 'b:ref' first matches INSIDE the already rewritten 'stage1.0#a-b:ref'."""
    return {'S': 1, 'dwname': 'dw', 'srcs': [['src0', 0]],
            'comps': [{'name': 'b', 'stage': 0, 'refs': [['B', 'b0', '']]},
                      {'name': 'a-b', 'stage': 0, 'refs': [['C', None, 'b', '', 'ref']]},
                      {'name': 'stop', 'stage': 0, 'refs': [['C', None, 'a-b', '', 'ref'], ['C', None, 'b', '', 'ref']]}],
            'ibind': [['b0', 'output']], 'binds': [['b0', [0, 'src0', '']]],
            'loopb': [['b0', [None, 'a-b', '']]], 'cond': [None, 'stop', 'f'],
            'outs': [{'name': 'rep', 'stage': 2, 'refs': [[1, 'b', '', 'ref']]}],
            'k': k}


def clash_case(k, ctl=None):
    """boundary case of the name clashes between looped and outside components: 'work' is looped (stage 1 of the
    workflow), stage0.work and stage2.work are plain components; the looped work reads stage0.work through a
    binding that is NOT loop-carried and stage1.mid directly; the looped stop (next stage) reads the looped work and
    the plain stage2.work; a consumer named 'stop' after the loop reads all of them (coq: Loop.Proofs.ex_doc4)"""
    case = {'S': 1, 'dwname': 'dw', 'srcs': [['src0', 0], ['work', 0], ['mid', 1], ['work', 2]],
            'comps': [{'name': 'work', 'stage': 0,
                       'refs': [['B', 'b0', ''], ['B', 'base', ''], ['C', None, 'mid', '', 'ref']]},
                      {'name': 'stop', 'stage': 1,
                       'refs': [['C', 0, 'work', '', 'output'], ['C', 1, 'work', 'f', 'ref']]}],
            'ibind': [['b0', 'output'], ['base', 'ref']],
            'binds': [['b0', [0, 'src0', '']], ['base', [0, 'work', '']]],
            'loopb': [['b0', [0, 'work', '']]], 'cond': [1, 'stop', 'f'],
            'outs': [{'name': 'stop', 'stage': 3,
                      'refs': [[1, 'work', '', 'ref'], [0, 'work', '', 'ref'], [2, 'work', '', 'output'],
                               [1, 'work', '', 'loopref'], [1, 'work', 'f', 'loopoutput'], [2, 'stop', '', 'loopref']]}],
            'k': k}
    if ctl:
        case['ctl'] = ctl
    return case


def latecond_case(k, ctl=None):
    """boundary case of the stage layout of the condition: the loop spans two stages and its condition is produced in
    the SECOND one (the Controller must register stage2.k#stop, not a component of the importing stage)"""
    case = {'S': 1, 'dwname': 'loop', 'srcs': [['GenerateInput', 0]],
            'comps': [{'name': 'prep', 'stage': 0, 'refs': [['B', 'number', '']]},
                      {'name': 'work', 'stage': 1, 'refs': [['C', 0, 'prep', '', 'output']]},
                      {'name': 'stop', 'stage': 1, 'refs': [['C', None, 'work', '', 'ref']]}],
            'ibind': [['number', 'output']], 'binds': [['number', [0, 'GenerateInput', '']]],
            'loopb': [['number', [1, 'work', '']]], 'cond': [1, 'stop', ''],
            'outs': [{'name': 'report', 'stage': 3, 'refs': [[2, 'work', '', 'output'], [2, 'work', '', 'loopoutput']]}],
            'k': k}
    if ctl:
        case['ctl'] = ctl
    return case


def two_loops_case(seq, import_order=None, ctl=None):
    """boundary case of workflows with several DoWhile documents: document 0 is imported in stage 1 (looped work in
    stage 1, stop in stage 2), document 1 in stage 2 (looped work and halt in stage 2): 'work' is looped in both,
    stage 2 holds instances of both; each document has its own iteration count (seq = the order of instantiation);
    the consumer reads both loops (coq: Loop.MultiProofs.ex_docs)"""
    case = {'S': 1, 'dwname': 'first', 'srcs': [['gen', 0]],
            'comps': [{'name': 'work', 'stage': 0, 'refs': [['B', 'number', '']]},
                      {'name': 'stop', 'stage': 1, 'refs': [['C', 0, 'work', '', 'output']]}],
            'ibind': [['number', 'output']], 'binds': [['number', [0, 'gen', '']]],
            'loopb': [['number', [None, 'work', '']]], 'cond': [1, 'stop', ''],
            'more': [{'S': 2, 'dwname': 'second',
                      'comps': [{'name': 'work', 'stage': 0, 'refs': [['B', 'inp', ''], ['B', 'base', 'f']]},
                                {'name': 'halt', 'stage': 0, 'refs': [['C', None, 'work', '', 'output']]}],
                      'ibind': [['inp', 'output'], ['base', 'ref']],
                      'binds': [['inp', [0, 'gen', '']], ['base', [0, 'gen', '']]],
                      'loopb': [['inp', [0, 'work', 'g.txt']]], 'cond': [None, 'halt', 'f']}],
            'outs': [{'name': 'rep', 'stage': 3,
                      'refs': [[1, 'work', '', 'ref'], [2, 'work', '', 'ref'], [2, 'work', '', 'loopref'],
                               [2, 'stop', '', 'output'], [1, 'work', 'f', 'loopoutput'], [2, 'halt', '', 'ref']]}],
            'seq': list(seq), 'k': list(seq).count(0)}
    if import_order:
        case['import_order'] = import_order
    if ctl:
        case['ctl'] = ctl
    return case


def chained_loops_case(seq):
    """two_loops_case with the second document CONSUMING the first: its binding 'inp' is bound to stage1.work, a
    looped component of the first document (the second document is listed first: the loader accepts the binding only
    then).  seq = [] loads and is wired as the model says (the instances of the second loop wait for all instances of
    stage1.work and for the first loop's condition); any further iteration of the second document is the witness of
    the open finding F5d"""
    case = two_loops_case(seq, [1, 0])
    case['more'][0]['binds'] = [['inp', [1, 'work', '']], ['base', [0, 'gen', '']]]
    return case


def with_ctl(case, start, inspect):
    case = dict(case)
    case['ctl'] = {'start': start, 'inspect': inspect}
    return case


F5C = 'overlapping_reference_texts_on_a_looped_command_line'
F5D = 'input_binding_bound_to_a_looped_component_of_another_dowhile_document'


def cross_loop_binding(case):
    """class of F5d (a predicate on the input): an input binding of one DoWhile document is bound to a looped
    component (placeholder) of ANOTHER DoWhile document of the workflow and at least one further iteration of the
    bound document is instantiated"""
    loops = c05_impl.loops_of(case)
    seq = c05_impl.sequence_of(case)
    for j, l in enumerate(loops):
        others = set()
        for i, o in enumerate(loops):
            if i != j:
                others |= loop_ids(o)
        if j in seq and any((v[0], v[1]) in others for _b, v in l['binds']):
            return True
    return False


def loop_args_conflict(case):
    """class of F5c (a predicate on the input; Loop.Subst.overlap): the command line of a LOOPED component holds two
    different reference texts, the LATER of which occurs word-bounded inside the EARLIER one (whose rewritten form
    is already in the string when the later one is substituted; the other direction is harmless)"""
    _main, dws = c05_impl.documents_multi(case)
    for comp in [c for dw in dws for c in dw['components']]:
        toks = (comp.get('command', {}).get('arguments') or '').split()
        for i, a in enumerate(toks):
            for b in toks[i + 1:]:
                if a != b and ':' in b and re.search(r'\b' + re.escape(b) + r'\b', a):
                    return True
    return False


def subst_correspondence(ctx):
    """the real flowir.rewrite_all_references on the command line 'n1:ref n2:ref' of a looped component, for every
    ordered pair of distinct generator names, against Loop.Subst.rewritten (sequential re.sub with \\b, count=1)"""
    import logging
    logging.disable(logging.CRITICAL)
    import experiment.model.frontends.flowir as F
    terms, owners = [], []
    for n1 in COMP_NAMES:
        for n2 in COMP_NAMES:
            if n1 == n2:
                continue
            for S, i in ((1, 0), (ctx.rng.choice([0, 1, 3]), ctx.rng.choice([1, 2, 9, 10, 11, 12, 25]))):
                value = '%s:ref %s:ref' % (n1, n2)
                try:
                    got = F.rewrite_all_references(value, {}, set(), 0, S, iter_number=i,
                                                   looped_ids={(S, n1), (S, n2)})
                except Exception as e:
                    got = 'EXC:' + type(e).__name__
                terms.append('(%s, %s, (%s, %s), %s)' % (cstr(n1), cstr(n2), cN(S), cN(i), cstr(got)))
                owners.append((n1, n2, S, i, got))
                ctx.count('command-line substitution cases')
                if re.search(r'\b' + re.escape(n2 + ':ref') + r'\b', n1 + ':ref'):
                    ctx.count('command-line substitution cases with overlapping texts')
    # reference texts with a file part holding variable references (parentheses, dots: characters that mean something
    # in a regular expression): the text is substituted literally (re.escape).  Other punctuation (+ [ | ? $) is not
    # part of what discover_reference_strings takes for a reference, so such texts are never rewritten at all.
    for n1 in ('a', 'x1', 'c_d', 'Loop'):
        for f in ('%(v)s', 'out/%(name)s.txt', 'r-%(i)s/x.dat', 'd.x', '%(p)s/%(q)s'):
            n2 = 'stop'
            S, i = ctx.rng.choice([0, 1, 3]), ctx.rng.choice([0, 1, 2, 10, 11])
            value = '%s/%s:ref %s:ref' % (n1, f, n2)
            try:
                got = F.rewrite_all_references(value, {}, set(), 0, S, iter_number=i, looped_ids={(S, n1), (S, n2)})
            except Exception as e:
                got = 'EXC:' + type(e).__name__
            terms.append('(%s, %s, (%s, %s), %s)' % (cstr(n1 + '/' + f), cstr(n2), cN(S), cN(i), cstr(got)))
            owners.append((n1 + '/' + f, n2, S, i, got))
            ctx.count('command-line substitution cases with regular-expression characters in the file part')
    bad = ctx.model_mismatches('Require Import V.Lib.JTree V.Loop.Model V.Loop.Subst.\nOpen Scope N_scope.', terms,
                               'check_subst', chunk=300, name='c05subst')
    for i in bad:
        n1, n2, S, it, got = owners[i]
        ctx.disagree({'n1': n1, 'n2': n2, 'S': S, 'iteration': it}, got, 'Loop.Subst.rewritten',
                     'C05 command-line substitution: flowir.rewrite_all_references vs Loop.Subst.rewrite_seq')


def args_conflict(case):
    """two references on one generated command line, one a word-bounded substring of the other"""
    main, dws = c05_impl.documents_multi(case)
    for comp in main['components'] + [c for dw in dws for c in dw['components']]:
        toks = (comp.get('command', {}).get('arguments') or '').split()
        for a in toks:
            for b in toks:
                if a != b and re.search(r'\b' + re.escape(a) + r'\b', b):
                    return True
    return False


# ------------------------------------------------------------------ the property, on the implementation's outputs
def expected_refs(case, c, i):
    S = case['S']
    types = dict(case['ibind'])
    binds = dict((b, v) for b, v in case['binds'])
    loopb = dict((b, v) for b, v in case['loopb'])
    looped = loop_ids(case)
    out = []
    for r in c['refs']:
        if r[0] == 'B':
            b, f = r[1], r[2]
            if i > 0 and b in loopb:
                st, prod, lf = loopb[b]
                out.append(c05_impl.ref_str(S + (st or 0), '%d#%s' % (i - 1, prod), f or lf, types[b]))
            else:
                st, prod, bf = binds[b]
                out.append(c05_impl.ref_str(st, prod, f or bf, types[b]))
        else:
            _t, st, name, f, m = r
            ast = S + (c['stage'] if st is None else st)
            # the component with that STAGE and name: an instance of the same iteration if it is looped, else the
            # component outside the loop as it is
            out.append(c05_impl.ref_str(ast, ('%d#%s' % (i, name)) if (ast, name) in looped else name, f, m))
    return out


def _is_instance_of(node, ids):
    st, name = node.split('.', 1)
    return '#' in name and (int(st[5:]), name.split('#', 1)[1]) in ids


def loop_views(case, obs):
    """one (case, observation) pair per DoWhile document: the workflow as that loop sees it — the instances of the
    other loops, their placeholders and the references of the outside consumers to them are left out; k = the number
    of times THIS document was instantiated"""
    loops = c05_impl.loops_of(case)
    if len(loops) == 1:
        return [(case, obs)]
    seq = c05_impl.sequence_of(case)
    views = []
    for j, loop in enumerate(loops):
        others = set()
        for i, l in enumerate(loops):
            if i != j:
                others |= loop_ids(l)
        vc = dict((k, v) for k, v in case.items() if k not in ('more', 'seq', 'import_order'))
        vc.update(loop)
        vc['k'] = seq.count(j)
        vc['outs'] = [dict(o, refs=[r for r in o['refs'] if (r[0], r[1]) not in others]) for o in case['outs']]
        vo = obs
        if 'error' not in obs:
            vo = dict(obs)
            vo['nodes'] = [n for n in obs['nodes'] if not _is_instance_of(n, others)]
            vo['steps'] = [s for s, jj in zip(obs['steps'], obs['step_docs']) if jj == j]
            vo['state'] = obs['states'].get('stage%d.%s' % (loop['S'], loop['dwname']),
                                            {'currentCondition': None, 'currentIteration': None})
        views.append((vc, vo))
    return views


COND_MSG = ('the Controller does not register the producer of the condition of the newest iteration as the component '
            'whose termination decides the next iteration of the loop (comp_condition_to_dowhile / status report)')


def predicate(case, obs):
    """-> list of messages, one per part of the statement that is false of the implementation on this case; the
    statement is evaluated for every DoWhile document of the workflow (each with its own iteration count)"""
    if 'error' in obs:
        return ['the real code raised %s while loading/iterating a valid DoWhile package' % obs['error']]
    bad = []
    for vc, vo in loop_views(case, obs):
        bad += predicate_loop(vc, vo)
    loops = c05_impl.loops_of(case)
    seq = c05_impl.sequence_of(case)
    if sorted(obs['states']) != sorted('stage%d.%s' % (l['S'], l['dwname']) for l in loops):
        bad.append('the workflow does not hold exactly the DoWhile documents it imports')
    # what the Controller registered after initialise and after each instantiation: for every document the instance
    # of the condition's producer (stage AND name) of that document's newest iteration
    def registered(t):
        out = {}
        for j, l in enumerate(loops):
            out['stage%d.%d#%s' % (l['S'] + (l['cond'][0] or 0), seq[:t].count(j), l['cond'][1])] = \
                'stage%d.%s' % (l['S'], l['dwname'])
        return out
    if obs.get('conds'):
        if len(obs['conds']) != len(seq) + 1 or any(obs['conds'][t] != registered(t) for t in range(len(seq) + 1)):
            bad.append(COND_MSG)
    if obs.get('ctags') is not None and obs['ctags'] != sorted(registered(len(seq))):
        bad.append(COND_MSG)
    seen, uniq = set(), []
    for b in bad:
        if b not in seen:
            seen.add(b)
            uniq.append(b)
    return uniq


def predicate_loop(case, obs):
    """the statement for ONE DoWhile document (case/obs: a view of loop_views)"""
    S, k = case['S'], case['k']
    bad = []
    node = lambda c, i: 'stage%d.%d#%s' % (S + c['stage'], i, c['name'])
    # instances
    want = set(node(c, i) for c in case['comps'] for i in range(k + 1))
    want |= set('stage%d.%s' % (s[1], s[0]) for s in case['srcs'])
    want |= set('stage%d.%s' % (o['stage'], o['name']) for o in case['outs'])
    if set(obs['nodes']) != want:
        bad.append('after k further iterations the workflow does not contain exactly the instances 0..k of every '
                   'looped component')
    for j, (it, new) in enumerate(obs['steps']):
        if it != j + 1 or sorted(new) != sorted(node(c, j + 1) for c in case['comps']):
            bad.append('a call of instantiate_dowhile_next_iteration did not create exactly the next iteration')
            break
    # wiring
    for c in case['comps']:
        for i in range(k + 1):
            got = obs['insts'].get(node(c, i))
            if got is None:
                continue
            if got['refs'] != expected_refs(case, c, i) or got['stage'] != S + c['stage'] or got['loopIteration'] != i:
                bad.append('an instance does not take its loop-carried inputs from the previous iteration and its '
                           'other inputs from the original bindings (or its stage drifted)')
                break
        else:
            continue
        break
    # latest / order / condition
    for c in case['comps']:
        p = 'stage%d.%s' % (S + c['stage'], c['name'])
        ph = obs['placeholders'].get(p)
        if ph is None or ph['latest'] != node(c, k) or obs['map_latest'].get(p) != node(c, k):
            bad.append('the newest instance of a looped component is not the numerically highest iteration')
            break
        if set(ph['represents']) != set(node(c, i) for i in range(k + 1)):
            bad.append('a placeholder does not represent all instances')
            break
    byid = dict(((c['stage'], c['name']), c) for c in case['comps'])
    for o in case['outs']:
        for r in o['refs']:
            st, name, f, m = r
            c = byid.get((st - S, name))
            if c is None:
                # a component outside the loop, whatever its name: itself
                got = obs['resolve']['%s|%s' % (o['name'], c05_impl.ref_str(*r))]
                if '#' in got or not re.search(r'(stage%d[/.])%s(/|\)|$)' % (st, re.escape(name)), got):
                    bad.append('a reference to a component outside the loop does not resolve to that component')
                continue
            got = obs['resolve']['%s|%s' % (o['name'], c05_impl.ref_str(*r))]
            if m in ('loopref', 'loopoutput'):
                parts = got.split(' ')
                ok = len(parts) == k + 1 and all(('%d#%s' % (i, name)) in parts[i] and
                                                 ('%d#%s' % (i + 1, name)) not in parts[i] for i in range(k + 1)) and \
                    all(re.search(r'[/.]%d#%s(/|\)|$)' % (i, re.escape(name)), parts[i]) for i in range(k + 1))
                if not ok:
                    bad.append('an aggregate loop reference does not list all instances in increasing iteration order')
            else:
                if not re.search(r'[/.]%d#%s(/|\)|$)' % (k, re.escape(name)), got):
                    bad.append('a reference from outside the loop does not resolve to the numerically highest iteration')
    # the Controller looked at the workflow: nothing may have changed, and what it saw is the placeholders
    if obs.get('inspection_changed'):
        bad.append('a read-only inspection of the workflow by the Controller (initialise / status report / dependency '
                   'analysis) changed the %s of the workflow graph' % ', '.join(obs['inspection_changed']))
    if obs.get('ctl'):
        cc = byid[(case['cond'][0] or 0, case['cond'][1])]
        for c in case['comps']:
            v = obs['ctl'].get('stage%d.%s' % (S + c['stage'], c['name']))
            inst_c = [node(c, i) for i in range(k + 1)]
            if v is None or v['all'] != sorted(inst_c) or v['latest'] != [node(c, k)] or v['subjects'] or \
                    v['producers'] != sorted(set(inst_c + [node(cc, k)])):
                bad.append('the Controller does not see a placeholder as the instances 0..k of its component (latest: '
                           'k) waiting for them and for the condition of iteration k')
                break
    cn = case['cond'][1]
    want_cond = c05_impl.ref_str(S + (case['cond'][0] or 0), '%d#%s' % (k, cn), case['cond'][2], 'output')
    if obs['state']['currentIteration'] != k or obs['state']['currentCondition'] != want_cond:
        bad.append('the current condition of the loop is not the one produced by iteration k')
    seen, uniq = set(), []
    for b in bad:
        if b not in seen:
            seen.add(b)
            uniq.append(b)
    return uniq


# ------------------------------------------------------------------ Coq terms
def cN(n):
    return '(%d)%%N' % n


def c_aref(st, prod, f, m):
    return '(mk_aref %s %s %s %s)' % (cN(st), cstr(prod), cstr(f), cstr(m))


def c_doc(loop):
    types = dict(loop['ibind'])

    def c_ref(r):
        if r[0] == 'B':
            return '(RBind %s %s %s)' % (cstr(r[1]), cstr(r[2]), cstr(types[r[1]]))
        return '(RComp %s %s %s %s)' % (copt(r[1], cN), cstr(r[2]), cstr(r[3]), cstr(r[4]))

    comps = clist(loop['comps'], lambda c: '(mk_comp %s %s %s)' % (cstr(c['name']), cN(c['stage']), clist(c['refs'], c_ref)))
    binds = clist(loop['binds'], lambda bv: cpair(cstr(bv[0]), c_aref(bv[1][0], bv[1][1], bv[1][2], types[bv[0]])))
    lb = lambda v, m: '(mk_lb %s %s %s %s)' % (copt(v[0], cN), cstr(v[1]), cstr(v[2]), cstr(m))
    loopb = clist(loop['loopb'], lambda bv: cpair(cstr(bv[0]), lb(bv[1], types[bv[0]])))
    return '(mk_dw %s %s %s %s %s)' % (cN(loop['S']), comps, binds, loopb, lb(loop['cond'], 'output'))


def c_outs(case):
    outs = [('(mk_ocomp %s %s [])' % (cstr(s[0]), cN(s[1]))) for s in case['srcs']]
    outs += ['(mk_ocomp %s %s %s)' % (cstr(o['name']), cN(o['stage']), clist(o['refs'], lambda r: c_aref(*r)))
             for o in case['outs']]
    return outs


def sl(xs):
    return clist(xs, cstr)


def c_ctl(obs):
    return clist(sorted(obs.get('ctl', {}).items()),
                 lambda kv: cpair(cstr(kv[0]), cpair(sl(kv[1]['producers']), cpair(sl(kv[1]['all']), sl(kv[1]['latest'])))))


def c_mcase(case, obs):
    """a workflow with several DoWhile documents (Loop.Multi.check_mcase)"""
    loops = c05_impl.loops_of(case)
    names = ['stage%d.%s' % (l['S'], l['dwname']) for l in loops]
    conds = obs.get('conds') or []
    steps = []
    for t, (j, st) in enumerate(zip(obs['step_docs'], obs['steps'])):
        after = sorted(conds[t + 1]) if conds else []
        steps.append('(%s, (%s, %s), %s)' % (cnat(j), cN(st[0]), sl(st[1]), sl(after)))
    resolve = [obs['resolve']['%s|%s' % (o['name'], c05_impl.ref_str(*r))] for o in case['outs'] for r in o['refs']]
    mp = [obs['map_latest'].get('stage%d.%s' % (l['S'] + c['stage'], c['name'])) for l in loops for c in l['comps']]
    o = '(mk_mobs %s %s %s %s %s %s %s %s %s %s %s)' % (
        clist(steps, lambda x: x),
        sl(obs['nodes']),
        clist(sorted(obs['insts'].items()),
              lambda kv: cpair(cstr(kv[0]), '(%s, %s, %s)' % (cN(kv[1]['stage']), cN(kv[1]['loopIteration']), sl(kv[1]['refs'])))),
        clist(sorted(obs['preds'].items()), lambda kv: cpair(cstr(kv[0]), sl(kv[1]))),
        clist(sorted(obs['placeholders'].items()),
              lambda kv: cpair(cstr(kv[0]), cpair(cstr(kv[1]['DoWhileId']), cpair(cstr(kv[1]['latest']), sl(kv[1]['represents']))))),
        clist(sorted(obs['states'].items()),
              lambda kv: cpair(cstr(kv[0]), cpair(cstr(kv[1]['currentCondition']), cN(kv[1]['currentIteration'])))),
        sl(resolve),
        clist(mp, lambda x: copt(x, cstr)),
        c_ctl(obs),
        copt(sorted(conds[0]) if conds else None, sl),
        copt(obs.get('ctags'), sl))
    return '(mk_mcase %s %s %s %s %s)' % (clist(loops, c_doc), sl(names), clist(c_outs(case), lambda x: x),
                                          clist(obs['step_docs'], cnat), o)


def c_case(case, obs):
    doc = c_doc(case)
    outs = c_outs(case)
    resolve = [obs['resolve']['%s|%s' % (o['name'], c05_impl.ref_str(*r))] for o in case['outs'] for r in o['refs']]
    mp = [obs['map_latest'].get('stage%d.%s' % (case['S'] + c['stage'], c['name'])) for c in case['comps']]
    o = '(mk_obs %s %s %s %s %s %s %s %s %s %s %s)' % (
        clist(obs['steps'], lambda s: cpair(cN(s[0]), sl(s[1]))),
        sl(obs['nodes']),
        clist(sorted(obs['insts'].items()),
              lambda kv: cpair(cstr(kv[0]), '(%s, %s, %s)' % (cN(kv[1]['stage']), cN(kv[1]['loopIteration']), sl(kv[1]['refs'])))),
        clist(sorted(obs['preds'].items()), lambda kv: cpair(cstr(kv[0]), sl(kv[1]))),
        clist(sorted(obs['placeholders'].items()),
              lambda kv: cpair(cstr(kv[0]), cpair(cstr(kv[1]['latest']), sl(kv[1]['represents'])))),
        cpair(cstr(obs['state']['currentCondition']), cN(obs['state']['currentIteration'])),
        sl(resolve),
        clist(mp, lambda x: copt(x, cstr)),
        c_ctl(obs),
        clist(obs.get('conds') or [], lambda d: sl(sorted(d))),
        copt(obs.get('ctags'), sl))
    return '(mk_case %s %s %s %s)' % (doc, clist(outs, lambda x: x), cnat(case['k']), o)


# ------------------------------------------------------------------ running
def _drive(case):
    try:
        return c05_impl.drive(case)
    except Exception as e:  # machinery error of the driver itself
        return {'error': 'driver:' + type(e).__name__, 'msg': str(e)[:300]}


def explore(ctx, cases, parallel=True):
    for c in cases:
        if is_replicated(c):
            # the references of the outside consumers as the replicated workflow holds them (resolved by the driver)
            c['xouts'] = expand_case(c)['outs']
            c['xcomps'] = [[x['stage'], x['name']] for x in expand_case(c)['comps']]
    if parallel and len(cases) > 4:
        with multiprocessing.get_context('fork').Pool(min(12, NPROC)) as pool:
            observations = pool.map(_drive, cases, chunksize=2)
    else:
        observations = [_drive(c) for c in cases]
    terms, owners = [], []
    mterms, mowners = [], []
    for raw, obs in zip(cases, observations):
        # replication inside the loop: the statement and the model are read on the document with the replicas
        # written out (expand_case); the real code was given the document with workflowAttributes.replicate
        case = expand_case(raw) if is_replicated(raw) else raw
        k = case['k']
        if is_replicated(raw):
            ctx.count('looped component replicated (workflowAttributes.replicate inside the DoWhile)')
            ctx.count('... number of replicas from: %s' % raw.get('rep_source', 'corpus'))
            ctx.count('... import stage %s 0' % ('>' if raw['S'] else '='))
            if raw.get('platform'):
                ctx.count('... on a platform other than default')
            if any(o.get('agg') for o in raw['outs']):
                ctx.count('... aggregating consumer outside the loop reads every replica')
        nontrivial = k >= 2 and bool(case['loopb']) and len(case['comps']) >= 2
        nloops = len(c05_impl.loops_of(case))
        if nloops > 1:
            seq = c05_impl.sequence_of(case)
            counts = [seq.count(j) for j in range(nloops)]
            nontrivial = len(set(counts)) > 1 and max(counts) >= 2
            ctx.count('workflows with %d DoWhile documents' % nloops)
            if len(set(counts)) > 1:
                ctx.count('... at different iteration counts')
            if any(counts[j] > counts[i] for i in range(nloops) for j in range(i + 1, nloops)):
                ctx.count('... a later document ahead of an earlier one')
            if any(seq[t] != seq[t + 1] and seq[t] in seq[t + 1:] for t in range(len(seq) - 1)):
                ctx.count('... instantiated in interleaved order')
            ss = [l['S'] for l in c05_impl.loops_of(case)]
            ctx.count('... imported in the same stage' if len(set(ss)) < len(ss) else '... imported in different stages')
            if case.get('import_order') and case['import_order'] != sorted(case['import_order']):
                ctx.count('... listed in the package in another order')
        cl = c05_impl.loops_of(case)
        if any((l['cond'][0] or 0) > min(c['stage'] for c in l['comps']) for l in cl):
            ctx.count('condition produced in a LATER stage of the loop body' +
                      (' (driven by a Controller)' if case.get('ctl') else ''))
        canonical = dict(raw)
        canonical.pop('xouts', None)
        canonical.pop('xcomps', None)
        ctx.case(canonical, nontrivial)
        ctx.count('k=%d' % k)
        ctx.count('looped_components=%d' % len(case['comps']))
        ctx.count('loop_bindings=%d' % len(case['loopb']))
        ctx.count('import_stage=%d' % case['S'])
        if k >= 10:
            ctx.count('k>=10 (decimal and lexicographic order differ)')
        if 'error' in obs and obs['error'].startswith('driver:'):
            raise RuntimeError('C05 driver failed: %s %s' % (obs['error'], obs.get('msg')))
        classes = [F5C] if loop_args_conflict(case) else []
        if cross_loop_binding(case):
            classes.append(F5D)
            ctx.count('further iteration of a DoWhile bound to a looped component of another DoWhile (class of the '
                      'open finding F5d; fixed corpus cases only)')
        if classes:
            ctx.count('looped command line with overlapping reference texts (class of the open finding F5c)')
        if len(set((c['stage'], c['name']) for c in case['comps'])) > len(set(c['name'] for c in case['comps'])):
            ctx.count('two looped components with the same name in different stages')
        if name_clashes(case):
            ctx.count('outside component with the name of a looped component (other stage)')
            lids = looped_ids(case)
            if any(r[0] == 'B' and [dict(case['binds'])[r[1]][1], dict(case['binds'])[r[1]][0]] in name_clashes(case)
                   for c in case['comps'] for r in c['refs']) or \
                    any(r[0] == 'C' and r[2] in [x[0] for x in name_clashes(case)] and
                        (case['S'] + (c['stage'] if r[1] is None else r[1]), r[2]) not in lids
                        for c in case['comps'] for r in c['refs']):
                ctx.count('... referenced from inside the loop (binding or direct)')
        if any(r[0] == 'C' and (case['S'] + (c['stage'] if r[1] is None else r[1]), r[2]) not in looped_ids(case)
               for c in case['comps'] for r in c['refs']):
            ctx.count('direct reference from inside the loop to a component outside')
        if case.get('ctl'):
            ctx.count('driven by a real Controller, inspect=%s' % case['ctl']['inspect'])
        for what in predicate(case, obs):
            ctx.fail({'case': raw, 'observed': _brief(obs)}, what, classes)
        if 'error' in obs:
            continue
        if nloops > 1:
            mterms.append(c_mcase(case, obs))
            mowners.append((case, obs))
        else:
            terms.append(c_case(case, obs))
            owners.append((case, obs))
        ctx.sample({'case': raw, 'latest': dict((p, v['latest']) for p, v in obs['placeholders'].items()),
                    'state': obs['states'], 'resolve': obs['resolve']}, limit=3)
    bad = ctx.model_mismatches(HEADER, terms, CHECKER, chunk=12, name='c05')
    for n, i in enumerate(bad):
        case, obs = owners[i]
        model = ''
        if n < 2:
            t = terms[i]
            model = ctx.model_eval(HEADER, 'let c := %s in let w := unroll (k_doc c) (k_out c) (k_k c) in '
                                   '(w_steps w, map (fun x => (inst_node x, map pr_ref (i_refs x))) (w_loop w), '
                                   'cur_cond w, cur_iter w, w_edges w, '
                                   'flat_map (fun oc => map (resolve KeyInt w) (o_refs oc)) (w_out w))' % t)[-3000:]
        ctx.disagree({'case': case}, _brief(obs), model,
                     'C05 unrolling: instantiate_dowhile_next_iteration/placeholders/state/resolve vs Loop.Model.unroll')
    bad = ctx.model_mismatches(MHEADER, mterms, MCHECKER, chunk=8, name='c05multi') if mterms else []
    for n, i in enumerate(bad):
        case, obs = mowners[i]
        model = ''
        if n < 2:
            model = ctx.model_eval(MHEADER, 'let c := %s in let m := munroll (mk_docs c) (mk_out c) (mk_seq c) in '
                                   '(m_steps m, map (fun x => (inst_node x, map pr_ref (i_refs x))) (m_loop m), '
                                   'map (fun d => (cur_cond (view m d), cur_iter (view m d), '
                                   'map (fun c => option_map inst_node (latest KeyInt (view m d) (comp_id (d_stage d) c))) (d_comps d))) (m_docs m), '
                                   'm_edges m, flat_map (fun oc => map (mresolve m) (o_refs oc)) (m_out m))' % mterms[i])[-3000:]
        ctx.disagree({'case': case}, _brief(obs), model,
                     'C05 several DoWhile documents: instantiate_dowhile_next_iteration/placeholders/states/resolve/'
                     'comp_condition_to_dowhile vs Loop.Multi.munroll')
    return observations


def _brief(obs):
    if 'error' in obs:
        return obs
    return {'nodes': obs['nodes'], 'state': obs['states'], 'resolve': obs['resolve'],
            'registered_conditions': obs.get('conds'), 'status_report_C_tags': obs.get('ctags'),
            'latest': dict((p, v['latest']) for p, v in obs['placeholders'].items()),
            'map_latest': obs['map_latest'], 'steps': [s[0] for s in obs['steps']],
            'placeholders': obs['placeholders'], 'controller_view': obs.get('ctl'),
            'inspection_changed': obs.get('inspection_changed'),
            'insts': dict((n, v['refs']) for n, v in obs['insts'].items())}


def corpus():
    out = [simple_case(10), simple_case(11), simple_case(0), simple_case(1), simple_case(12)]   # F5 witness first
    # F5b (fixed): whichever instance the unordered set yields first, one of the two conditions exposes a regression
    out += [samename_case(2, 1), samename_case(2, 0), samename_case(11, 1), samename_case(0, None)]
    # F5c (open): reproduced on every run, whatever VERIF_SEED
    out += [overlap_case(0), overlap_case(2)]
    # outside components with the name of a looped component; workflows driven and inspected by a real Controller
    # (aggregate references to a looped component that does not produce the condition: 'fake_add', 'add', 'work')
    out += [clash_case(0), clash_case(2), clash_case(11, {'start': 0, 'inspect': 'each'}),
            with_ctl(simple_case(2), 0, 'end'), with_ctl(simple_case(0), 1, 'end'), with_ctl(simple_case(11), 1, 'each'),
            with_ctl(simple_case(3), 0, 'none'), with_ctl(samename_case(2, 1), 0, 'end'),
            with_ctl(samename_case(3, 0), 1, 'each')]
    # the condition produced in a later stage of the loop body, as the Controller sees it
    out += [latecond_case(0, {'start': 0, 'inspect': 'end'}), latecond_case(2, {'start': 1, 'inspect': 'each'}),
            latecond_case(11)]
    # several DoWhile documents: the later document ahead / behind / level, blocks and interleaved, either listing
    # order, bare and through a Controller
    out += [two_loops_case([]), two_loops_case([1, 1, 1, 0]), two_loops_case([0, 0, 1], [1, 0]),
            two_loops_case([1, 0, 1, 0, 1], [1, 0], {'start': 0, 'inspect': 'each'}),
            two_loops_case([1] * 11 + [0, 0], None, {'start': 1, 'inspect': 'end'}),
            two_loops_case([0] * 10 + [1], [1, 0])]
    # a loop bound to a looped component of another loop: loads (and the first loop iterates); F5d (open): the first
    # further iteration of the bound loop is refused — reproduced on every run
    out += [chained_loops_case([]), chained_loops_case([0, 0]), chained_loops_case([0, 1])]
    # replication inside the loop: the number of replicas is a literal / a global variable / a STAGE variable that
    # overrides the global one (more and fewer replicas) / a stage variable alone; import stage 0 and 2 (F5e, fixed:
    # the stage variables of an import stage > 0)
    out += [replicated_case(2, 0, {}, {}, rep=2), replicated_case(1, 0, {'N': 2}, {}),
            replicated_case(2, 0, {'N': 1}, {'0': {'N': 3}}), replicated_case(1, 0, {'N': 3}, {'0': {'N': 1}}),
            replicated_case(11, 0, {}, {'0': {'N': 2}}, ctl={'start': 0, 'inspect': 'each'}),
            replicated_case(2, 2, {'N': 1}, {'2': {'N': 2}, '0': {'N': 3}}),
            replicated_case(1, 1, {'N': 2}, {'0': {'N': 3}}, ctl={'start': 0, 'inspect': 'end'})]
    d = os.path.join(os.path.dirname(os.path.abspath(__file__)), 'corpus', 'c05')
    if os.path.isdir(d):
        for f in sorted(os.listdir(d)):
            if f.endswith('.json'):
                out.append(json.load(open(os.path.join(d, f))))
    return out


def run(ctx):
    ctx.rule = ('generated DoWhile package (import stage, 1-4 looped components over up to 3 stages, input bindings '
                'bound outside, loop bindings, internal references, direct references to outside components, '
                'condition, outside producers/consumers ~35% of which reuse the name of a looped component in '
                'another stage, consumers with :ref/:output/:copy/:loopref/:loopoutput) x number of further '
                'iterations k x driver (bare WorkflowGraph, or ~45% a real Controller that instantiates the '
                'iterations and inspects the workflow after each / after the last one); non-trivial = k >= 2, at '
                'least one loop binding and at least two looped components; distinct by the whole case; PLUS workflows '
                'with 2-3 DoWhile documents (merged independent packages; same/different import stage, either listing '
                'order, shared names, own iteration count per document in {0,1,2,3,5} (thorough: up to 11), blocks or '
                'interleaved, ~50% through a Controller): non-trivial = the documents are at different iteration '
                'counts and one of them at >= 2')
    rng = ctx.rng
    ks = KS_QUICK if ctx.tier == 'quick' else KS_THOROUGH
    per_k = 30 if ctx.tier == 'quick' else 60
    cases = corpus()
    for k in ks:
        n = 0
        while n < per_k:
            c = gen_case(rng, k)
            if args_conflict(c) or duplicate_refs(c):
                ctx.count('generated_with_overlapping_or_duplicate_references_skipped')
                continue
            cases.append(c)
            n += 1
    # replication inside the loop: every source of the number of replicas, several k
    rks = [0, 1, 2, 3, 10, 11] if ctx.tier == 'quick' else [0, 1, 2, 3, 9, 10, 11, 12, 20]
    for source in sorted(set(REP_SOURCES)):
        n = 0
        while n < (6 if ctx.tier == 'quick' else 14):
            c = gen_rcase(rng, rng.choice(rks), source)
            e = expand_case(c)
            if args_conflict(c) or args_conflict(e) or duplicate_refs(e) or \
                    len(set((x['stage'], x['name']) for x in e['comps'])) != len(e['comps']):
                ctx.count('generated_with_overlapping_or_duplicate_references_skipped')
                continue
            cases.append(c)
            n += 1
    mks = [0, 1, 2, 3, 5] if ctx.tier == 'quick' else [0, 1, 2, 3, 5, 10, 11]
    for _ in range(40 if ctx.tier == 'quick' else 120):
        cases.append(gen_multi(rng, mks))
    explore(ctx, cases)
    subst_correspondence(ctx)
    ctx.count('cases', len(cases))


def replay(ctx, path):
    d = json.load(open(path))
    c = d.get('case') or d.get('first', {}).get('case')
    if isinstance(c, dict) and 'case' in c:
        c = c['case']
    if not isinstance(c, dict) or 'comps' not in c:
        print('replay file names no input (proof/correspondence obligation): re-run ./check C05')
        return 2
    explore(ctx, [c], parallel=False)
    for f in ctx.failures:
        print('REPRODUCED: %s' % f['what'])
    for f in ctx.disagreements:
        print('DISAGREEMENT: %s' % (json.dumps(f, default=str)[:3000],))
    return 1 if (ctx.failures or ctx.disagreements) else 0
