"""C20 — Reported progress is a proper weighted fraction.
Implementation driven: FlowIRConcrete(...) -> inject_default_values (weights), the real
StatusMonitor.__init__ (re-check) and the real CheckStatus closure of StatusMonitor.run (total progress)."""
import os
import tempfile
import shutil
import threading
import types
from fractions import Fraction

from common import clist, cZ, cbool, cpair

PROP = 'C20'
COQ_DIR = 'Weights'
ASSUMPTIONS = [
    'weights are decimal numbers with at most 15 significant digits (model unit 1/(1000c), c = 10^(d-3) for d '
    'decimals, generated with d <= 12): Python float()/repr() round-trip such decimals exactly, which is what '
    'FlowIR.stage_weights_add_to_one relies on (trusted, exercised by the run); the default weights '
    'int(1000/n)/1000.0 are tied by the FloatTie sweeps',
    'the float accumulation of total progress is the Coq primitive-float model FloatModel.fprogress '
    '(compared bit for bit with Status.totalProgress on every case); its distance to the rational value '
    'is proved (C20_float_progress: <= (n+3)*2^-52*X + n*2^-1074 for n <= 2^20 stages) and the run checks '
    'the implementation against that proved bound instead of a 1e-9 tolerance',
    'axioms reported by Print Assumptions for C20_float_progress/C20_float_complete/C20_float_constants '
    '(Flocq 4.1 + Coq Reals): ClassicalDedekindReals.sig_not_dec, ClassicalDedekindReals.sig_forall_dec, '
    'FunctionalExtensionality.functional_extensionality_dep, Classical_Prop.classic, and the primitive-float '
    'specification axioms FloatAxioms.add_spec, mul_spec, leb_spec, eqb_spec, abs_spec, Prim2SF_valid, '
    'SF2Prim_Prim2SF, Prim2SF_SF2Prim (Coq.Floats.FloatAxioms: the primitives implement IEEE-754 binary64); '
    'the PrimFloat/PrimInt63 primitives',
    'StatusMonitor is driven with a duck-typed experiment/controller (fakes trusted)',
]
HEADER = 'Require Import V.Weights.Model.\nOpen Scope Z_scope.'
CHECKER = 'check_case'
FHEADER = 'Require Import V.Weights.FloatModel.\nFrom Coq Require Import PrimFloat.'
FCHECKER = 'check_fcase'


def cfloat(x):
    """exact Coq primitive-float literal of a Python double"""
    return '(%s)%%float' % float(x).hex()


def proved_bound(n, X):
    """C20_float_progress: |reported - X| <= (n+3)*2^-52*X + n*2^-1074 (as an exact Fraction)"""
    return Fraction(n + 3, 2 ** 52) * X + Fraction(n, 2 ** 1074)


def _doc(ms, c=10):
    comps = [{'name': 'c%d' % i, 'stage': i, 'command': {'executable': 'ls'}} for i in range(len(ms))]
    sr = {}
    for i, m in enumerate(ms):
        if m is not None:
            sr[i] = {'stage-weight': float(Fraction(m, 1000 * c))}
    return {'components': comps, 'status-report': sr}


class _Obj(object):
    pass


class _Mon(object):
    def __init__(self):
        import experiment.runtime.output as O
        import experiment.runtime.monitor as M
        self.O = O
        self.M = M
        self.tmp = tempfile.mkdtemp(prefix='verif_c20_')

    def close(self):
        shutil.rmtree(self.tmp, ignore_errors=True)

    def monitor(self, concrete, n):
        O = self.O
        e = _Obj()
        e.instanceDirectory = types.SimpleNamespace(resolvePath=lambda p: self.tmp, mtx_output=threading.RLock(),
                                                    outputDir=self.tmp)
        e.experimentGraph = types.SimpleNamespace(
            configuration=types.SimpleNamespace(get_flowir_concrete=lambda return_copy=False: concrete))
        e._stages = [types.SimpleNamespace(name='stage%d' % i, index=i, referenceName='stage%d' % i) for i in range(n)]
        rec = {}

        class SF(object):
            def __getattr__(s, k):
                if k.startswith('set'):
                    return lambda v=None, _k=k: rec.__setitem__(_k, v)
                return lambda *a, **kw: rec.get('set' + k[0].upper() + k[1:], 0.0)

            def update(s):
                pass
        e.statusFile = SF()
        orig = O.StatusMonitor._initJobs
        O.StatusMonitor._initJobs = lambda self_, sr: setattr(self_, 'commands', {'stage%d' % i: None for i in range(n)})
        try:
            m = O.StatusMonitor(e, report_components=False)
        finally:
            O.StatusMonitor._initJobs = orig
        m._keep = e
        return m, rec

    def total_progress(self, m, rec, n, cur, transit, finished, prog, churn=False):
        """run the real CheckStatus once with a fake controller.  churn: while the progress of a stage is being
        computed the controller moves every stage in transit to the finished ones (another thread would): the report
        must be computed from ONE snapshot of the two lists, so the answer is the same"""
        captured = {}
        M = self.M
        orig = M.CreateMonitor

        def fake_create(interval, action, cancelEvent=None, name=None, **kw):
            captured['a'] = action
            return lambda: None
        M.CreateMonitor = fake_create
        ctl = types.SimpleNamespace()
        ctl.stage = lambda: m._keep._stages[cur]
        ctl.stageState = lambda st: 'running'
        ctl.comp_lock = threading.RLock()
        tr_now, fin_now = set(transit), set(finished)

        def stage_status(idx):
            if churn:
                fin_now.update(tr_now)
                tr_now.clear()
            return float(prog[idx])
        ctl.get_stages_in_transit = lambda: sorted(tr_now)
        ctl.get_stages_finished = lambda: sorted(fin_now)
        ctl.get_stage_status = stage_status
        try:
            m.run(ctl)
        finally:
            M.CreateMonitor = orig
        m.exceptionTracker = types.SimpleNamespace(printStatus=lambda details=False: None)
        captured['a'](False)
        return rec.get('setTotalProgress')


def gen_given(rng, n, kind):
    if kind == 'missing':
        return [None] * n
    if kind in ('exact3', 'exact3_some_missing'):
        # random composition of 1000 thousandths into n parts
        cuts = sorted(rng.randint(0, 1000) for _ in range(n - 1))
        parts = [b - a for a, b in zip([0] + cuts, cuts + [1000])]
        ms = [10 * p for p in parts]
        if kind == 'exact3_some_missing':
            ms = [None if (m == 0 and rng.random() < 0.7) else m for m in ms]
        return ms
    if kind == 'off3':
        ms = [10 * rng.randint(0, max(1, 2000 // n)) for _ in range(n)]
        return ms
    if kind == 'negative':
        ms = gen_given(rng, n, 'exact3')
        if n >= 2:
            i, j = rng.sample(range(n), 2)
            d = 10 * rng.randint(1, 900)
            ms[i] += d + ms[j]
            ms[j] = -d
        else:
            ms = [-10 * rng.randint(1, 500)]
        return ms
    if kind == 'four':
        ms = [rng.randint(0, max(1, 20000 // n)) for _ in range(n)]
        if rng.random() < 0.6 and n >= 2:
            s = sum(ms[:-1])
            ms[-1] = 10000 - s if s <= 10000 else ms[-1]
        return ms
    if kind == 'many':
        # unit 1/(1000c), c = 10^(d-3), 5 <= d <= 12 decimals (the caller passes U = 1000c through n's closure)
        raise ValueError('use gen_many')
    raise ValueError(kind)


def gen_many(rng, n):
    """weights with 5..12 decimals: (c, given) in units 1/(1000c); 60% sum to exactly one"""
    d = rng.randint(5, 12)
    c = 10 ** (d - 3)
    U = 1000 * c
    if rng.random() < 0.6:
        cuts = sorted(rng.randint(0, U) for _ in range(n - 1))
        ms = [b - a for a, b in zip([0] + cuts, cuts + [U])]
        r = rng.random()
        if r < 0.25 and n >= 2:
            ms[rng.randrange(n)] += rng.choice([1, -1, 10, 999])      # off by a few units
        elif r < 0.35 and n >= 2:
            i, j = rng.sample(range(n), 2)
            dlt = rng.randint(1, U // 2)
            ms[i] += dlt + ms[j]
            ms[j] = -dlt                                              # sums to one with a negative entry
    else:
        ms = [rng.randint(0, max(1, 2 * U // n)) for _ in range(n)]
    return c, ms


def classes_of(ms):
    # no open finding is left for C20 (F20a, F20b, F20c are repaired): every violation alarms
    return []


def run(ctx):
    import experiment.model.frontends.flowir as F
    ctx.rule = ('n stages x weight assignment kind (missing / exact three decimals summing to one / with missing '
                'entries / three decimals not summing to one / with a negative entry / four decimals / 5-12 decimals); '
                'non-trivial = at least 2 stages and at least one given weight; distinct by (n, given list)')
    rng = ctx.rng
    ns = list(range(1, 61)) + [99, 100, 101, 333, 999, 1000, 1001, 1500]
    kinds = ['missing', 'exact3', 'exact3_some_missing', 'off3', 'negative', 'four']
    reps = 2 if ctx.tier == 'quick' else 12
    # fixed corpus first (witnesses of the repaired findings F20a, F20b, F20c stay here so that a regression alarms)
    cases = [(10, ms) for ms in ([15000, -5000], [3333, 6667], [3335, 6675], [2000, 3000, 5000], [10000], [None],
                                 [0, 10000], [6000, None, 4000], [3333, 3333, 3334], [3339, 6669])]
    cases += [(10 ** 7, [3333333333, 6666666667]), (10 ** 7, [3333333333, 6666666668]), (100, [1, 99999]),
              (1, [200, 300, 500]), (10 ** 9, [1, 10 ** 12 - 1])]
    for n in ns:
        for kind in kinds:
            for _ in range(1 if kind == 'missing' else reps):
                cases.append((10, gen_given(rng, n, kind)))
        for _ in range(reps):
            cases.append(gen_many(rng, n))
    _explore(ctx, cases)
    # every stage complete, fixed: ten stages of 0.1 report 0.9999999999999999 (within the proved bound, not 1.0)
    _explore(ctx, [(10, [1000] * 10), (10, [2000, 3000, 5000]), (10, [None] * 7)], complete=True)
    ctx.count('cases', len(cases) + 3)


def replay(ctx, path):
    import json
    import common
    d = json.load(open(path))
    c = d.get('case') or d.get('first', {}).get('case')
    ms = c.get('given') if isinstance(c, dict) else None
    if ms is None:
        print('replay file names no input (proof/correspondence obligation): re-run ./check C20')
        return 2
    _explore(ctx, [(c.get('scale', 10), ms)])
    for f in ctx.failures:
        print('REPRODUCED: %s on %s' % (f['what'], f['case']))
    for f in ctx.disagreements:
        print('DISAGREEMENT: %s' % (f,))
    return 1 if (ctx.failures or ctx.disagreements) else 0


def _explore(ctx, cases, complete=False):
    import experiment.model.frontends.flowir as F
    rng = ctx.rng
    mon = _Mon()
    terms = []
    fterms = []
    fcases = []
    try:
        for c, ms in cases:
            n = len(ms)
            U = 1000 * c
            given = [0 if m is None else m for m in ms]
            concrete = F.FlowIRConcrete(_doc(ms, c), 'default', {})
            st = concrete.get_status()
            w = [st[i]['stage-weight'] for i in range(n)]
            m_, rec = mon.monitor(concrete, n)
            mw = list(m_.stageWeights)
            ctx.case([n, c, ms], n >= 2 and any(x is not None for x in ms))
            ctx.count('scale_c=%s' % ('10^%d' % (len(str(c)) - 1)))
            ctx.count('n<=10' if n <= 10 else ('n<=60' if n <= 60 else 'n>60'))
            # the weights as the decimal numbers they print as, in units 1/(1000c)
            wq = [Fraction(repr(float(x))) * U for x in w]
            exact = all(q.denominator == 1 for q in wq)
            wm = [int(q) for q in wq]
            mon_ok = (mw == w)
            # ---- property predicate on the implementation
            cls = classes_of(ms)
            if not exact:
                ctx.fail({'given': ms, 'scale': c, 'weights': w}, 'normalised weight is not a multiple of the unit 1/(1000c)', cls)
            if any(x < 0 for x in w):
                ctx.fail({'given': ms, 'scale': c, 'weights': w}, 'negative stage weight after loading', cls)
            if sum(wq) != U:
                ctx.fail({'given': ms, 'scale': c, 'weights': w}, 'stage weights do not sum to one after loading', cls)
            if all(g >= 0 for g in given) and sum(given) == U and wm != given:
                ctx.fail({'given': ms, 'scale': c, 'weights': w}, 'given weights summing to one were not kept', cls)
            if not mon_ok and not any(abs(a - b) > 1e-12 for a, b in zip(mw, w)):
                mon_ok = True
            if not mon_ok:
                ctx.fail({'given': ms, 'scale': c, 'weights': w, 'monitor': mw}, 'StatusMonitor replaced the loaded weights', cls)
            # ---- progress
            D = 8
            prog = [rng.randint(0, D) for _ in range(n)]
            if rng.random() < 0.3:
                prog = [D] * n
            cur = rng.randrange(n)
            finished = [i for i in range(n) if prog[i] == D and i != cur and rng.random() < 0.8]
            transit = [i for i in range(n) if i not in finished and i != cur and prog[i] > 0]
            if complete:
                prog, cur, finished, transit = [D] * n, n - 1, list(range(n - 1)), []
            contributing = set(finished) | set(transit) | {cur}
            churn = (len(transit) > 0 and (sum(prog) + cur) % 2 == 0)
            ctx.count('controller_changes_during_the_report' if churn else 'static_controller')
            tp = mon.total_progress(m_, rec, n, cur, transit, finished, [Fraction(p, D) for p in prog], churn=churn)
            expect = sum(Fraction(prog[i], D) * wq[i] / U for i in contributing)
            # the proved bound (C20_float_progress) replaces the former 1e-9 tolerance; n = contributing stages
            bound = proved_bound(len(contributing), expect)
            pcase = {'given': ms, 'scale': c, 'prog': prog, 'cur': cur, 'finished': finished, 'transit': transit}
            if tp is None or abs(Fraction(tp) - expect) > bound:
                ctx.disagree(pcase, tp, float(expect),
                             'C20 total progress: CheckStatus vs Weights.Model.total within the bound of C20_float_progress')
            valid_w = all(x >= 0 for x in w) and sum(wq) == U
            if valid_w and tp is not None and not (0 <= Fraction(tp) <= 1 + proved_bound(n, 1)):
                ctx.fail({'given': ms, 'scale': c, 'prog': prog, 'total': tp}, 'total progress outside [0,1]', cls)
            if valid_w and all(p == D for p in prog) and len(contributing) == n and \
                    abs(Fraction(tp) - 1) > proved_bound(n, 1):
                ctx.fail({'given': ms, 'scale': c, 'prog': prog, 'total': tp}, 'total progress is not one when every stage completed', cls)
            if valid_w and all(p == D for p in prog) and len(contributing) == n:
                ctx.count('complete_exactly_1.0' if tp == 1.0 else 'complete_within_ulps_of_1.0')
            # ---- float model (bit for bit): active = current stage then stages in transit, then finished
            if tp is not None:
                act = [cur] + [i for i in sorted(transit) if i != cur]
                fin_ = [i for i in sorted(finished) if i != cur]
                fterms.append(cpair(clist([cpair(cfloat(float(Fraction(prog[i], D))), cfloat(mw[i])) for i in act], str),
                                    cpair(clist([cfloat(mw[i]) for i in fin_], str), cfloat(tp))))
                fcases.append(pcase)
            # ---- model comparison
            if exact:
                terms.append(cpair(cpair(cZ(c), clist(given, cZ)), cpair(clist(wm, cZ), cbool(mw == w or mon_ok))))
            ctx.sample({'scale_c': c, 'given_units_of_1/(1000c)': ms, 'weights': w if n <= 8 else w[:3] + ['...'] + w[-1:],
                        'monitor_keeps': mon_ok, 'total_progress': tp})
    finally:
        mon.close()
    fbad = ctx.model_mismatches(FHEADER, fterms, FCHECKER, chunk=150, name='fmodel')
    for i in fbad:
        ctx.disagree(fcases[i], 'see case term', fterms[i][:300],
                     'C20 total progress: CheckStatus vs Weights.FloatModel.fprogress (bit for bit)')
    bad = ctx.model_mismatches(HEADER, terms, CHECKER, chunk=150)
    for k, i in enumerate(bad):
        ctx.disagree(terms[i], 'see case term', ctx.model_eval(HEADER, 'run_case (fst (fst %s)) (snd (fst %s))' % (terms[i], terms[i]))[:400] if k < 3 else '',
                     'C20 weights: inject_default_values/StatusMonitor vs Weights.Model.run_case')
