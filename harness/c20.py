"""C20 — Reported progress is a proper weighted fraction.
Implementation driven: FlowIRConcrete(...) -> inject_default_values (weights), the real
StatusMonitor.__init__ (re-check and its own fallback) and the real CheckStatus closure of StatusMonitor.run (total
progress); malformed weights through both consumers and through the monitor alone (_explore_malformed); the real
Controller.get_stages_finished/get_stages_in_transit while DoWhile iterations add nodes (_explore_controller)."""
import os
import tempfile
import shutil
import threading
import types
from fractions import Fraction

from common import clist, cZ, cbool, cpair

PROP = 'C20'
COQ_DIR = 'Weights'
ASSUMPTIONS = [
    'weights are decimal numbers with at most 15 significant digits (model unit 1/(1000c), c = 10^(d-3) for d '
    'decimals, generated with d <= 12): Python float()/repr() round-trip such decimals exactly, which is what '
    'FlowIR.stage_weights_add_to_one relies on (trusted, exercised by the run); the default weights '
    'int(1000/n)/1000.0 are tied by the FloatTie sweeps',
    'the float accumulation of total progress is the Coq primitive-float model FloatModel.fprogress '
    '(compared bit for bit with Status.totalProgress on every case); its distance to the rational value '
    'is proved (C20_float_progress: <= (n+3)*2^-52*X + n*2^-1074 for n <= 2^20 stages) and the run checks '
    'the implementation against that proved bound instead of a 1e-9 tolerance',
    'axioms reported by Print Assumptions for C20_float_progress/C20_float_complete/C20_float_constants '
    '(Flocq 4.1 + Coq Reals): ClassicalDedekindReals.sig_not_dec, ClassicalDedekindReals.sig_forall_dec, '
    'FunctionalExtensionality.functional_extensionality_dep, Classical_Prop.classic, and the primitive-float '
    'specification axioms FloatAxioms.add_spec, mul_spec, leb_spec, eqb_spec, abs_spec, Prim2SF_valid, '
    'SF2Prim_Prim2SF, Prim2SF_SF2Prim (Coq.Floats.FloatAxioms: the primitives implement IEEE-754 binary64); '
    'the PrimFloat/PrimInt63 primitives',
    'StatusMonitor is driven with a duck-typed experiment/controller (fakes trusted)',
    'malformed weights (Model.wt): whether a text is numeric, unparsable (ValueError) or nan/inf is decided by Python\'s '
    'float() itself in the harness; objects float() refuses with TypeError are None, a list, a mapping; the value an '
    'unconvertible entry counts as in StatusMonitor.__init__ (fallbackWeight*1000) is modelled as the rational 1000/n '
    '(equal to the code\'s decimal whenever 1000/n terminates, checked n <= 5000; generated n <= 2000); a load that '
    'raises (TypeError for None/list/mapping) counts as "no workflow loaded"; the new theorems C20_malformed_weights, '
    'C20_monitor_weights, C20_weights_numbers, C20_used_progress, C20_stage_lists are closed under the global context '
    '(no axiom)',
    'controller family: the real Controller and CheckStatus are driven by harness/c20_ctl.py (a termination is its two '
    'real steps - the component state becomes finished, then Controller.finishedCheck is delivered, at once or delayed by '
    'the case key lag (the order of terminations and notifications is the driver\'s; the postponement of finishedCheck '
    'while the controller sleeps is not driven) - nothing is launched; harness/c05_impl.py documents/_new_controller imported '
    'read-only); a node counts as active until finishedCheck returned for it; a RESTART from a later stage is the first '
    'Controller.initialise() being called for that stage (c05_impl._new_controller(exp, start)) - the earlier stages '
    'count as completed by an earlier run, nothing is delivered for them (the model marks them: Model.restart_nodes); '
    'restarts in the middle of a DoWhile that iterates again are not generated (the next iteration cannot be '
    'instantiated, the workflow fails); C20_restart_lists, C20_restart_progress are closed under the global context',
]
HEADER = 'Require Import V.Weights.Model.\nOpen Scope Z_scope.'
CHECKER = 'check_case'
FHEADER = 'Require Import V.Weights.FloatModel.\nFrom Coq Require Import PrimFloat.'
FCHECKER = 'check_fcase'
WCHECKER = 'check_wcase'     # load (inject_default_values) then report (StatusMonitor.__init__), malformed entries
MCHECKER = 'check_mcase'     # the monitor alone on a status-report set after loading


def cfloat(x):
    """exact Coq primitive-float literal of a Python double"""
    return '(%s)%%float' % float(x).hex()


def proved_bound(n, X):
    """C20_float_progress: |reported - X| <= (n+3)*2^-52*X + n*2^-1074 (as an exact Fraction)"""
    return Fraction(n + 3, 2 ** 52) * X + Fraction(n, 2 ** 1074)


def _doc(ms, c=10):
    comps = [{'name': 'c%d' % i, 'stage': i, 'command': {'executable': 'ls'}} for i in range(len(ms))]
    sr = {}
    for i, m in enumerate(ms):
        if m == 'entry':         # the stage has an entry (a status executable), the entry has no weight
            sr[i] = dict(EXTRAS[i % len(EXTRAS)])
        elif m is not None:
            sr[i] = {'stage-weight': float(Fraction(m, 1000 * c))}
    return {'components': comps, 'status-report': sr}


class _Obj(object):
    pass


class _Mon(object):
    def __init__(self):
        import experiment.runtime.output as O
        import experiment.runtime.monitor as M
        self.O = O
        self.M = M
        self.tmp = tempfile.mkdtemp(prefix='verif_c20_')

    def close(self):
        shutil.rmtree(self.tmp, ignore_errors=True)

    def monitor(self, concrete, n):
        O = self.O
        e = _Obj()
        e.instanceDirectory = types.SimpleNamespace(resolvePath=lambda p: self.tmp, mtx_output=threading.RLock(),
                                                    outputDir=self.tmp)
        e.experimentGraph = types.SimpleNamespace(
            configuration=types.SimpleNamespace(get_flowir_concrete=lambda return_copy=False: concrete))
        e._stages = [types.SimpleNamespace(name='stage%d' % i, index=i, referenceName='stage%d' % i) for i in range(n)]
        rec = {}

        class SF(object):
            def __getattr__(s, k):
                if k.startswith('set'):
                    return lambda v=None, _k=k: rec.__setitem__(_k, v)
                return lambda *a, **kw: rec.get('set' + k[0].upper() + k[1:], 0.0)

            def update(s):
                pass
        e.statusFile = SF()
        orig = O.StatusMonitor._initJobs
        O.StatusMonitor._initJobs = lambda self_, sr: setattr(self_, 'commands', {'stage%d' % i: None for i in range(n)})
        try:
            m = O.StatusMonitor(e, report_components=False)
        finally:
            O.StatusMonitor._initJobs = orig
        m._keep = e
        return m, rec

    def total_progress(self, m, rec, n, cur, transit, finished, prog, churn=False):
        """run the real CheckStatus once with a fake controller.  churn: while the progress of a stage is being
        computed the controller moves every stage in transit to the finished ones (another thread would): the report
        must be computed from ONE snapshot of the two lists, so the answer is the same"""
        captured = {}
        M = self.M
        orig = M.CreateMonitor

        def fake_create(interval, action, cancelEvent=None, name=None, **kw):
            captured['a'] = action
            return lambda: None
        M.CreateMonitor = fake_create
        ctl = types.SimpleNamespace()
        ctl.stage = lambda: m._keep._stages[cur]
        ctl.stageState = lambda st: 'running'
        ctl.comp_lock = threading.RLock()
        tr_now, fin_now = set(transit), set(finished)

        def stage_status(idx):
            if churn:
                fin_now.update(tr_now)
                tr_now.clear()
            return float(prog[idx])
        ctl.get_stages_in_transit = lambda: sorted(tr_now)
        ctl.get_stages_finished = lambda: sorted(fin_now)
        ctl.get_stage_status = stage_status
        try:
            m.run(ctl)
        finally:
            M.CreateMonitor = orig
        m.exceptionTracker = types.SimpleNamespace(printStatus=lambda details=False: None)
        captured['a'](False)
        return rec.get('setTotalProgress')


def gen_given(rng, n, kind):
    if kind == 'missing':
        return [None] * n
    if kind in ('exact3', 'exact3_some_missing'):
        # random composition of 1000 thousandths into n parts
        cuts = sorted(rng.randint(0, 1000) for _ in range(n - 1))
        parts = [b - a for a, b in zip([0] + cuts, cuts + [1000])]
        ms = [10 * p for p in parts]
        if kind == 'exact3_some_missing':
            if n >= 3:
                # some stages weigh nothing: no entry (None), an entry without a weight ('entry') or the explicit 0.0
                z = rng.randint(1, max(1, n // 3))
                cuts = sorted(rng.randint(0, 1000) for _ in range(n - z - 1))
                ms = [10 * (b - a) for a, b in zip([0] + cuts, cuts + [1000])] + [0] * z
                rng.shuffle(ms)
            ms = [rng.choice([None, None, 'entry', 'entry', 0]) if m == 0 else m for m in ms]
        return ms
    if kind == 'off3':
        ms = [10 * rng.randint(0, max(1, 2000 // n)) for _ in range(n)]
        return ms
    if kind == 'negative':
        ms = gen_given(rng, n, 'exact3')
        if n >= 2:
            i, j = rng.sample(range(n), 2)
            d = 10 * rng.randint(1, 900)
            ms[i] += d + ms[j]
            ms[j] = -d
        else:
            ms = [-10 * rng.randint(1, 500)]
        return ms
    if kind == 'four':
        ms = [rng.randint(0, max(1, 20000 // n)) for _ in range(n)]
        if rng.random() < 0.6 and n >= 2:
            s = sum(ms[:-1])
            ms[-1] = 10000 - s if s <= 10000 else ms[-1]
        return ms
    if kind == 'many':
        # unit 1/(1000c), c = 10^(d-3), 5 <= d <= 12 decimals (the caller passes U = 1000c through n's closure)
        raise ValueError('use gen_many')
    raise ValueError(kind)


def gen_many(rng, n):
    """weights with 5..12 decimals: (c, given) in units 1/(1000c); 60% sum to exactly one"""
    d = rng.randint(5, 12)
    c = 10 ** (d - 3)
    U = 1000 * c
    if rng.random() < 0.6:
        cuts = sorted(rng.randint(0, U) for _ in range(n - 1))
        ms = [b - a for a, b in zip([0] + cuts, cuts + [U])]
        r = rng.random()
        if r < 0.25 and n >= 2:
            ms[rng.randrange(n)] += rng.choice([1, -1, 10, 999])      # off by a few units
        elif r < 0.35 and n >= 2:
            i, j = rng.sample(range(n), 2)
            dlt = rng.randint(1, U // 2)
            ms[i] += dlt + ms[j]
            ms[j] = -dlt                                              # sums to one with a negative entry
    else:
        ms = [rng.randint(0, max(1, 2 * U // n)) for _ in range(n)]
    return c, ms


def classes_of(ms):
    # no open finding is left for C20 (F20a, F20b, F20c are repaired): every violation alarms
    return []


def run(ctx):
    import experiment.model.frontends.flowir as F
    ctx.rule = ('n stages x weight assignment kind (missing / exact three decimals summing to one / with missing '
                'entries / three decimals not summing to one / with a negative entry / four decimals / 5-12 decimals); '
                'non-trivial = at least 2 stages and at least one given weight; distinct by (n, given list); '
                'malformed family: n stages x shape (a malformed entry while the rest sums to one / well-formed numbers '
                'written as texts, booleans, ints or missing / not summing to one / a negative numeric text / nothing '
                'usable / some stages with an ENTRY WITHOUT a stage-weight (status executable, arguments, references or '
                'empty), no entry or 0.0 while the weighted entries sum to one or not) x kind of malformed entry (unparsable text, nan or inf as float or text, None/list/mapping), '
                'loaded through inject_default_values and then StatusMonitor, or set after loading (the monitor alone); '
                'controller family: DoWhile over 1-4 stages x 1-2 components per stage x 1-3 iterations x plain stage '
                'before/after x order of the terminations x notifications delivered at once or delayed by up to 1-3 '
                'terminations (reports inside the window between a termination and its finishedCheck, also across the '
                'entry of a later stage) x stage the run starts at (0 = launch; a later stage = '
                'RESTART: before / at the first stage of / after the loop, inside a loop that does not iterate again), '
                'through the real Controller and the real CheckStatus')
    rng = ctx.rng
    ns = list(range(1, 61)) + [99, 100, 101, 333, 999, 1000, 1001, 1500]
    kinds = ['missing', 'exact3', 'exact3_some_missing', 'off3', 'negative', 'four']
    reps = 2 if ctx.tier == 'quick' else 12
    # fixed corpus first (witnesses of the repaired findings F20a, F20b, F20c stay here so that a regression alarms)
    cases = [(10, ms) for ms in ([15000, -5000], [3333, 6667], [3335, 6675], [2000, 3000, 5000], [10000], [None],
                                 [0, 10000], [6000, None, 4000], [3333, 3333, 3334], [3339, 6669],
                                 [7000, 'entry', 3000], ['entry', None, 10000], [7000, 'entry', 2000], ['entry'])]
    cases += [(10 ** 7, [3333333333, 6666666667]), (10 ** 7, [3333333333, 6666666668]), (100, [1, 99999]),
              (1, [200, 300, 500]), (10 ** 9, [1, 10 ** 12 - 1])]
    for n in ns:
        for kind in kinds:
            for _ in range(1 if kind == 'missing' else reps):
                cases.append((10, gen_given(rng, n, kind)))
        for _ in range(reps):
            cases.append(gen_many(rng, n))
    _explore(ctx, cases)
    # every stage complete, fixed: ten stages of 0.1 report 0.9999999999999999 (within the proved bound, not 1.0)
    _explore(ctx, [(10, [1000] * 10), (10, [2000, 3000, 5000]), (10, [None] * 7)], complete=True)
    ctx.count('cases', len(cases) + 3)
    # malformed weights through both consumers (load, then the monitor) and through the monitor alone
    load, direct = malformed_cases(rng, ctx.tier)
    _explore_malformed(ctx, load, direct=False)
    _explore_malformed(ctx, direct, direct=True)
    ctx.count('malformed_cases', len(load) + len(direct))
    # the real Controller driven through DoWhile iterations: which stages the report counts
    # (launched from stage 0 or RESTARTED from a later stage)
    quick = ctx.tier == 'quick'
    _explore_controller(ctx, CTL_CORPUS + [gen_ctl(rng) for _ in range(3 if quick else 24)]
                        + [gen_ctl(rng, restart=True) for _ in range(2 if quick else 10)]
                        + [gen_ctl(rng, lag=True) for _ in range(2 if quick else 10)])


def replay(ctx, path):
    import json
    import common
    d = json.load(open(path))
    c = d.get('case') or d.get('first', {}).get('case')
    ms = c.get('given') if isinstance(c, dict) else None
    if isinstance(c, dict) and c.get('controller'):
        _explore_controller(ctx, [c['controller']])
        ms = ()
    if isinstance(c, dict) and c.get('malformed'):
        mc = c['malformed']
        _explore_malformed(ctx, [(mc['scale'], mc['entries'])], direct=bool(mc.get('direct')))
        ms = ()
    if ms is None:
        print('replay file names no input (proof/correspondence obligation): re-run ./check C20')
        return 2
    if ms != ():
        _explore(ctx, [(c.get('scale', 10), ms)])
    for f in ctx.failures:
        print('REPRODUCED: %s on %s' % (f['what'], f['case']))
    for f in ctx.disagreements:
        print('DISAGREEMENT: %s' % (f,))
    return 1 if (ctx.failures or ctx.disagreements) else 0


# ----------------------------------------------------------------------------------------------------------
# MALFORMED weights: an entry of the status-report is described by a JSON-able tag list
#   ['num', m]            the float m/U                      ['int', k]   the int k (0 or 1)
#   ['bool', b]           True / False                       ['missing']  no entry / no key
#   ['text', s, m|None]   the text s; float(s) is m/U or raises ValueError (None)
#   ['nan', s]            s in NAN_FLOATS: that float; otherwise the text s (float(s) is nan or +-inf)
#   ['bad', s]            'none' | 'list' | 'dict': float() raises TypeError
#   ['entry', k]          the stage HAS a status-report entry (EXTRAS[k]: a status executable / arguments / references,
#                         or an empty mapping) WITHOUT the key 'stage-weight' - not the same code path as ['missing']
#                         (no entry for the stage at all); Model.WEntry
#   ['numx', m, k]        the float m/U in an entry that also defines EXTRAS[k]
# (U = 1000 c units per one).  Model type: Weights.Model.wt.
MISSING = object()
NOKEY = object()      # the loaded status-report has an entry for the stage, the entry has no 'stage-weight'
UNPARSABLE = ['n/a', '', ' ', 'high', '0,5', '50%', '1/3', '0.5.0', 'None', 'true', 'tbd', '--', '0x10', '1e', 'O.5',
              'half', '0.5 0.5', '.']
NAN_FLOATS = ['fnan', 'finf', 'f-inf']
NAN_TEXTS = ['nan', 'NaN', 'inf', '-inf', 'Infinity', '+infinity', ' nan ', '-Infinity']
BAD = ['none', 'list', 'dict']
EXTRAS = [{'executable': '/bin/echo', 'arguments': '0.5'}, {}, {'arguments': '-n 1'},
          {'references': ['stage0.c0:ref'], 'executable': 'cat', 'arguments': 'stage0.c0:ref'}, {'executable': 'true'}]


class _Entry(object):
    """a status-report entry with other keys; weight MISSING = the entry has no 'stage-weight' key"""
    def __init__(self, extra, weight):
        self.extra, self.weight = dict(extra), weight

    def as_dict(self):
        d = dict(self.extra)
        if self.weight is not MISSING:
            d['stage-weight'] = self.weight
        return d


def dec(m, U):
    """the decimal m/U written out exactly (U a power of ten)"""
    d = len(str(U)) - 1
    sign = '-' if m < 0 else ''
    a = abs(m)
    return '%s%d.%s' % (sign, a // U, str(a % U).rjust(d, '0'))


def numeric_text(rng, m, U):
    d = len(str(U)) - 1
    form = rng.randrange(7)
    t = dec(m, U)
    if form == 1:
        t = ' ' + t + ' '
    elif form == 2 and m >= 0:
        t = '+' + t
    elif form == 3:
        t = '%de-%d' % (m, d)
    elif form == 4:
        t = t + '00'
    elif form == 5:
        t = '\t' + t + '\n'
    elif form == 6:
        t = '%dE-%d' % (m, d)
    if Fraction(repr(float(t))) * U != m:      # cannot happen for <= 15 significant digits
        t = dec(m, U)
    return ['text', t, m]


def raw_of(e, U):
    k = e[0]
    if k == 'num':
        return float(Fraction(e[1], U))
    if k == 'int':
        return int(e[1])
    if k == 'bool':
        return bool(e[1])
    if k == 'missing':
        return MISSING
    if k == 'entry':
        return _Entry(EXTRAS[e[1] % len(EXTRAS)], MISSING)
    if k == 'numx':
        return _Entry(EXTRAS[e[2] % len(EXTRAS)], float(Fraction(e[1], U)))
    if k == 'text':
        return e[1]
    if k == 'nan':
        return float(e[1][1:]) if e[1] in NAN_FLOATS else e[1]
    if k == 'bad':
        return {'none': None, 'list': [0.5], 'dict': {'w': 0.5}}[e[1]]
    raise ValueError(e)


def wt_of(e, U):
    k = e[0]
    if k in ('num', 'numx'):
        return '(WNum %s)' % cZ(e[1])
    if k == 'entry':
        return 'WEntry'
    if k == 'int':
        return '(WNum %s)' % cZ(e[1] * U)
    if k == 'bool':
        return '(WNum %s)' % cZ(U if e[1] else 0)
    if k == 'missing':
        return 'WMissing'
    if k == 'text':
        return '(WText %s)' % ('None' if e[2] is None else '(Some %s)' % cZ(e[2]))
    if k == 'nan':
        return 'WNan'
    return 'WBad'


def value_of(e, U):
    """the number a clean entry stands for (units), None for nan / unparsable / bad"""
    k = e[0]
    if k in ('num', 'numx'):
        return e[1]
    if k == 'int':
        return e[1] * U
    if k == 'bool':
        return U if e[1] else 0
    if k in ('missing', 'entry'):
        return 0
    if k == 'text':
        return e[2]
    return None


def wt_of_raw(x, U):
    """canonical form (Coq term of type wt) of what the implementation holds in a status-report entry;
    None when it is a number that is not a whole number of units"""
    import math
    if x is MISSING:
        return 'WMissing'
    if x is NOKEY:
        return 'WEntry'
    if isinstance(x, (bool, int, float)):
        f = float(x)
        if math.isnan(f) or math.isinf(f):
            return 'WNan'
        q = Fraction(repr(f)) * U
        return '(WNum %s)' % cZ(int(q)) if q.denominator == 1 else None
    if isinstance(x, (str, bytes)):
        try:
            f = float(x)
        except ValueError:
            return '(WText None)'
        if math.isnan(f) or math.isinf(f):
            return 'WNan'
        q = Fraction(repr(f)) * U
        return '(WText (Some %s))' % cZ(int(q)) if q.denominator == 1 else None
    return 'WBad'


def exact_used(x, n):
    """the exact value a weight in use stands for: the monitor's own fallback 1.0/n is 1/n, anything else is
    the decimal it prints as.  None: not a finite number"""
    import math
    try:
        f = float(x)
    except Exception:
        return None
    if math.isnan(f) or math.isinf(f):
        return None
    if f == 1.0 / n:
        return Fraction(1, n)
    return Fraction(repr(f))


def render_clean(rng, m, U, fancy):
    """a well-formed entry of value m units; fancy = probability of a form other than a float"""
    if rng.random() >= fancy:
        return ['num', m]
    r = rng.random()
    if m == 0 and r < 0.35:
        return ['missing'] if rng.random() < 0.5 else ['entry', rng.randrange(len(EXTRAS))]
    if m in (0, U) and r < 0.55:
        return ['bool', m == U] if rng.random() < 0.5 else ['int', m // U]
    return numeric_text(rng, m, U)


def special(rng, kinds):
    k = rng.choice(kinds)
    if k == 'unparsable':
        return ['text', rng.choice(UNPARSABLE), None]
    if k == 'nan':
        return ['nan', rng.choice(NAN_FLOATS + NAN_TEXTS)]
    return ['bad', rng.choice(BAD)]


def composition(rng, total, parts):
    if parts == 0:
        return []
    cuts = sorted(rng.randint(0, total) for _ in range(parts - 1))
    return [b - a for a, b in zip([0] + cuts, cuts + [total])]


def gen_malformed(rng, n, direct=False):
    """-> (c, entries, shape).  direct: entries for a status-report set after loading (the monitor alone)"""
    c = rng.choice([1, 10, 10, 100, 10 ** rng.randint(3, 6)])
    U = 1000 * c
    shapes = (['rest_one'] * 7 + ['clean_forms_one'] * 4 + ['rest_off'] * 4 + ['negative_text'] * 2 + ['all_special'] * 3
              + ['no_weight_one'] * 4 + ['no_weight_off'] * 2)
    shape = rng.choice(shapes)
    if shape in ('no_weight_one', 'no_weight_off'):
        # some stages give NO weight - no entry at all, an entry that only defines the status executable / arguments /
        # references (or is empty), or the explicit 0.0 - the other stages are weighted (some of their entries define
        # an executable too) and sum to one / do not
        k = rng.randint(1, max(1, min(n - 1, 1 + n // 3)))
        if shape == 'no_weight_one' or n == k:
            vals = composition(rng, U, n - k)
        else:
            vals = [rng.randint(0, max(1, 2 * U // n)) for _ in range(n - k)]
        ent = [['numx', m, rng.randrange(len(EXTRAS))] if rng.random() < 0.3 else render_clean(rng, m, U, 0.15) for m in vals]
        for _ in range(k):
            r = rng.random()
            ent.append(['entry', rng.randrange(len(EXTRAS))] if r < 0.6 else ['missing'] if r < 0.85 else ['num', 0])
        rng.shuffle(ent)
        return c, ent, shape
    if shape == 'rest_one' or shape == 'rest_off':
        k = rng.randint(1, min(n, 3))
        kinds = rng.choice([['unparsable'], ['unparsable'], ['unparsable'], ['nan'], ['bad'] if not direct else ['unparsable', 'bad'],
                            ['unparsable', 'nan', 'bad']])
        if shape == 'rest_one':
            vals = composition(rng, U, n - k)
        else:
            vals = [rng.randint(0, max(1, 2 * U // n)) for _ in range(n - k)]
        ent = [render_clean(rng, m, U, 0.25) for m in vals] + [special(rng, kinds) for _ in range(k)]
        if direct and rng.random() < 0.3:
            ent[-1] = ['missing']                        # a missing key counts as fallbackWeight * 1000 in the monitor
        rng.shuffle(ent)
    elif shape == 'clean_forms_one':
        ent = [render_clean(rng, m, U, 0.7) for m in composition(rng, U, n)]
    elif shape == 'negative_text':
        vals = composition(rng, U, n)
        if n >= 2:
            i, j = rng.sample(range(n), 2)
            dlt = rng.randint(1, U // 2)
            vals[i] += dlt + vals[j]
            vals[j] = -dlt
        else:
            vals = [-rng.randint(1, U)]
        ent = [numeric_text(rng, m, U) if (m < 0 or rng.random() < 0.3) else ['num', m] for m in vals]
    else:
        ent = [special(rng, ['unparsable', 'unparsable', 'nan']) if rng.random() < 0.8 else ['missing'] for _ in range(n)]
    return c, ent, shape


MALFORMED_CORPUS = [
    # (c, entries): the boundary cases of each class, fixed
    (10, [['text', 'n/a', None], ['num', 4000], ['num', 6000]]),                 # unparsable + rest sums to one, n = 3
    (10, [['num', 5000], ['num', 5000], ['text', '', None], ['num', 0], ['num', 0], ['num', 0], ['num', 0]]),   # n = 7
    (10, [['num', 5000], ['text', 'high', None], ['num', 2500], ['num', 2500]]),  # n = 4 divides 1000
    (1, [['num', 100], ['num', 200], ['text', 'tbd', None], ['num', 300], ['num', 400], ['missing']]),          # n = 6
    (10, [['text', 'n/a', None]]),                                               # n = 1: nothing sums to one
    (10, [['text', 'n/a', None], ['text', '', None], ['num', 10000]]),           # two unparsable texts
    (10, [['nan', 'fnan'], ['num', 4000], ['num', 6000]]),                       # nan: never accepted
    (10, [['nan', 'finf'], ['num', 4000], ['num', 6000]]), (10, [['nan', 'f-inf'], ['num', 10000]]),
    (10, [['nan', 'nan'], ['num', 4000], ['num', 6000]]), (10, [['nan', 'Infinity'], ['num', 10000]]),
    (10, [['bool', True], ['num', 0], ['num', 0]]), (10, [['bool', True], ['num', 5000], ['num', 5000]]),
    (10, [['bool', False], ['num', 4000], ['num', 6000]]), (10, [['int', 1], ['int', 0]]),
    (10, [['text', '0.4', 4000], ['text', '0.6', 6000]]), (10, [['text', ' 0.5 ', 5000], ['num', 5000]]),
    (10, [['text', '0.5', 5000], ['num', 2500]]), (10, [['text', '-0.5', -5000], ['num', 15000]]),
    (10, [['text', '1e-3', 10], ['num', 9990]]),
    (10, [['bad', 'none'], ['num', 4000], ['num', 6000]]), (10, [['bad', 'list'], ['num', 10000]]),
    (10, [['num', 10000], ['bad', 'dict']]), (10, [['missing'], ['text', 'n/a', None], ['bool', True]]),
    # entries WITHOUT a weight (status executable / references only, empty) next to weights that sum to one / do not,
    # next to a stage without entry, next to a weighted entry with an executable; alone
    (10, [['num', 7000], ['entry', 0], ['num', 3000]]), (10, [['entry', 0], ['entry', 3], ['num', 10000]]),
    (10, [['num', 7000], ['entry', 2], ['num', 2000]]), (10, [['numx', 5000, 0], ['entry', 1], ['missing'], ['num', 5000]]),
    (10, [['entry', 0]]), (1, [['entry', 1], ['text', '0.25', 250], ['numx', 750, 4], ['missing']]),
    (10, [['entry', 4], ['text', 'n/a', None], ['num', 10000]]),
]
DIRECT_CORPUS = [
    (10, [['missing'], ['num', 5000]]), (10, [['bad', 'none'], ['num', 4000], ['num', 6000]]),
    (10, [['entry', 0], ['num', 5000]]), (10, [['num', 7000], ['entry', 3], ['num', 3000]]),
    (10, [['numx', 7000, 0], ['num', 3000]]),
    (10, [['num', 3330], ['num', 3330], ['num', 3330]]), (10, [['num', 15000], ['num', -5000]]),
    (10, [['text', 'n/a', None], ['num', 4000], ['num', 6000]]), (10, [['nan', 'fnan'], ['num', 10000]]),
    (10, [['num', 2000], ['num', 3000], ['num', 5000]]), (10, [['text', '0.4', 4000], ['num', 6000]]),
    # the value an unconvertible entry counts as (fallbackWeight * 1000 = 1000/n) can itself complete the sum
    (1, [['text', 'n/a', None]] + [['num', 0]] * 999),
    (1, [['missing'], ['num', 500]] + [['num', 0]] * 1998),
]


def _explore_malformed(ctx, cases, direct):
    """cases: [(c, entries)].  not direct: FlowIRConcrete(document) -> inject_default_values -> the status-report of
    the loaded FlowIR -> StatusMonitor.__init__ -> the weights in use -> CheckStatus.  direct: the status-report of a
    loaded FlowIRConcrete is set to the entries afterwards (no validation, no normalisation), then the monitor."""
    import experiment.model.frontends.flowir as F
    rng = ctx.rng
    mon = _Mon()
    terms, tcases = [], []
    fterms, fcases = [], []
    D = 8
    try:
        for c, ent in cases:
            n = len(ent)
            U = 1000 * c
            raws = [raw_of(e, U) for e in ent]
            case = {'malformed': {'scale': c, 'entries': ent, 'direct': direct}}
            kinds = set(e[0] if e[0] != 'text' else ('text_numeric' if e[2] is not None else 'text_unparsable') for e in ent)
            for k in sorted(kinds):
                ctx.count(('direct:' if direct else 'load:') + k)
            ctx.case(['malformed', direct, c, ent], n >= 2 and bool(kinds - {'num', 'missing'}))
            if 'entry' in kinds and kinds & {'num', 'numx', 'text_numeric', 'int', 'bool'}:
                ctx.count(('direct:' if direct else 'load:') + 'entry_without_weight_next_to_weighted_entries')
            has_bad = any(e[0] == 'bad' for e in ent)
            given_term = clist([wt_of(e, U) for e in ent], str)
            loaded_term = None
            concrete = None
            if direct:
                concrete = F.FlowIRConcrete(_raw_doc([1.0] + [0.0] * (n - 1)), 'default', {})
                st = concrete.get_status(return_copy=False)
                for i, x in enumerate(raws):
                    if isinstance(x, _Entry):
                        st[i].clear()
                        st[i].update(x.as_dict())
                    elif x is MISSING:
                        st[i].pop('stage-weight', None)
                    else:
                        st[i]['stage-weight'] = x
            else:
                try:
                    concrete = F.FlowIRConcrete(_raw_doc(raws), 'default', {})
                except Exception as exc:
                    ctx.count('load_raises:' + type(exc).__name__)
                    concrete = None
                    if not has_bad:
                        ctx.fail(case, 'loading raised %s although every weight is a number, a text or missing'
                                 % type(exc).__name__, [])
                if concrete is not None:
                    if n <= 60 and rng.random() < 0.5:
                        try:
                            verrs = [e for e in concrete.validate() if 'stage-weight' in str(e)]
                        except Exception:
                            verrs = ['raised']
                        ctx.count('validation_rejects_the_weights' if verrs else 'validation_accepts_the_weights')
                    st = concrete.get_status()
                    loaded = [MISSING if i not in st else st[i].get('stage-weight', NOKEY) for i in range(n)]
                    if any(x is MISSING or x is NOKEY for x in loaded):
                        ctx.fail(dict(case, loaded=[('no entry' if x is MISSING else 'entry without stage-weight' if x is NOKEY
                                                     else repr(x)) for x in loaded]),
                                 'a stage of the loaded workflow has no stage weight', [])
                    lt = [wt_of_raw(x, U) for x in loaded]
                    if any(t is None for t in lt):
                        ctx.fail(dict(case, loaded=[repr(x) for x in loaded]),
                                 'a loaded stage weight is not a multiple of the unit 1/(1000c)', [])
                    else:
                        loaded_term = '(Some %s)' % clist(lt, str)
            if concrete is None:
                terms.append(cpair(cpair(cZ(c), given_term), cpair('None', 'None')))
                tcases.append(case)
                continue
            # ---- the weights the monitor uses
            try:
                m_, rec = mon.monitor(concrete, n)
            except Exception as exc:
                ctx.fail(case, 'StatusMonitor raised %s on the weights of the loaded workflow' % type(exc).__name__, [])
                continue
            mw = list(m_.stageWeights)
            q = [exact_used(x, n) for x in mw]
            shown = dict(case, used=[repr(x) for x in (mw if n <= 12 else mw[:4] + ['...'] + mw[-2:])])
            ok = len(mw) == n and all(x is not None for x in q)
            if not ok:
                ctx.fail(shown, 'the weights in use are not one finite number per stage', [])
                continue
            if any(x < 0 for x in q):
                ctx.fail(shown, 'negative stage weight in use by the status monitor', [])
            if sum(q) != 1:
                ctx.fail(dict(shown, sum=str(sum(q))), 'the weights in use by the status monitor do not sum to one', [])
            vals = [value_of(e, U) for e in ent]
            clean = all(v is not None for v in vals) and (not direct or all(e[0] not in ('missing', 'entry') for e in ent))
            if clean and all(v >= 0 for v in vals) and sum(vals) == U:
                ctx.count('well_formed_weights_summing_to_one')
                if [x * U for x in q] != vals:
                    ctx.fail(shown, 'given weights summing to one are not the weights in use', [])
            fine = [x * U * n for x in q]
            if all(x.denominator == 1 for x in fine):
                used_term = clist([int(x) for x in fine], cZ)
                if direct:
                    terms.append(cpair(cpair(cZ(c), given_term), used_term))
                    tcases.append(shown)
                elif loaded_term is not None:
                    terms.append(cpair(cpair(cZ(c), given_term), cpair(loaded_term, '(Some %s)' % used_term)))
                    tcases.append(shown)
            else:
                ctx.fail(shown, 'a weight in use is neither 1/n nor a multiple of the unit 1/(1000c)', [])
            if all(x == Fraction(1, n) for x in q) and not all(v is not None and v * n == U for v in vals):
                ctx.count('monitor_uses_its_own_equal_weights')
            # ---- progress with the weights in use
            valid_w = all(x >= 0 for x in q) and sum(q) == 1
            for complete in ((True,) if rng.random() < 0.5 else (False,)):
                prog = [D] * n if complete else [rng.randint(0, D) for _ in range(n)]
                cur = n - 1 if complete else rng.randrange(n)
                finished = [i for i in range(n) if prog[i] == D and i != cur and (complete or rng.random() < 0.8)]
                transit = [i for i in range(n) if i not in finished and i != cur and prog[i] > 0]
                contributing = set(finished) | set(transit) | {cur}
                tp = mon.total_progress(m_, rec, n, cur, transit, finished, [Fraction(p, D) for p in prog])
                expect = sum(Fraction(prog[i], D) * q[i] for i in contributing)
                pcase = dict(case, prog=prog, cur=cur, finished=finished, transit=transit, total=tp)
                if tp is None or abs(Fraction(tp) - expect) > proved_bound(len(contributing), expect):
                    ctx.disagree(pcase, tp, float(expect), 'C20 total progress with the weights in use: CheckStatus vs '
                                 'Weights.Model.total within the bound of C20_float_progress')
                if tp is None:
                    continue
                if valid_w and not (0 <= Fraction(tp) <= 1 + proved_bound(n, 1)):
                    ctx.fail(pcase, 'total progress outside [0,1]', [])
                if complete and abs(Fraction(tp) - 1) > proved_bound(n, 1):
                    ctx.fail(pcase, 'total progress is not one when every stage completed', [])
                act = [cur] + [i for i in sorted(transit) if i != cur]
                fin_ = [i for i in sorted(finished) if i != cur]
                fterms.append(cpair(clist([cpair(cfloat(float(Fraction(prog[i], D))), cfloat(mw[i])) for i in act], str),
                                    cpair(clist([cfloat(mw[i]) for i in fin_], str), cfloat(tp))))
                fcases.append(pcase)
            ctx.sample(dict(shown, direct=direct), limit=10)
    finally:
        mon.close()
    fbad = ctx.model_mismatches(FHEADER, fterms, FCHECKER, chunk=150, name='fmodel_mal_%d' % direct)
    for i in fbad:
        ctx.disagree(fcases[i], 'see case term', fterms[i][:300],
                     'C20 total progress: CheckStatus vs Weights.FloatModel.fprogress (bit for bit)')
    chk = MCHECKER if direct else WCHECKER
    bad = ctx.model_mismatches(HEADER, terms, chk, chunk=150, name='model_mal_%d' % direct)
    for k, i in enumerate(bad):
        what = ('mon_used (fst (fst %s)) (snd (fst %s))' if direct else
                '(inject (fst (fst %s)) (snd (fst %s)), used (fst (fst %s)) (snd (fst %s)))').replace('%s', terms[i])
        ctx.disagree(tcases[i], terms[i][-400:], ctx.model_eval(HEADER, what)[:600] if k < 3 else '',
                     'C20 malformed weights: ' + ('StatusMonitor.__init__ vs Weights.Model.mon_used' if direct else
                                                  'inject_default_values + StatusMonitor.__init__ vs Weights.Model.inject/used'))


def _raw_doc(raws):
    comps = [{'name': 'c%d' % i, 'stage': i, 'command': {'executable': 'ls'}} for i in range(len(raws))]
    return {'components': comps,
            'status-report': dict((i, x.as_dict() if isinstance(x, _Entry) else {'stage-weight': x})
                                  for i, x in enumerate(raws) if x is not MISSING)}


def malformed_cases(rng, tier):
    ns = list(range(1, 41)) + [60, 99, 101, 333]
    reps = 3 if tier == 'quick' else 14
    load, direct = list(MALFORMED_CORPUS), list(DIRECT_CORPUS)
    for n in ns:
        for _ in range(reps):
            c, ent, _shape = gen_malformed(rng, n)
            load.append((c, ent))
        for _ in range(1 if tier == 'quick' else 5):
            c, ent, _shape = gen_malformed(rng, n, direct=True)
            direct.append((c, ent))
    for n in ([1000] if tier == 'quick' else [1000, 1001, 1500, 2000]):
        c, ent, _shape = gen_malformed(rng, n)
        load.append((c, ent))
    return load, direct


# ----------------------------------------------------------------------------------------------------------
# The REAL Controller: which stages CheckStatus counts while nodes are added to stages that had finished
SCHECKER = 'check_wincase'
CTL_CORPUS = [
    # a loop over three stages after a plain stage, two iterations (a stage other than the current one finishes, then
    # the next iteration adds a node to it); the same with two components per stage; a loop over two stages
    {'pre': 1, 'K': 3, 'width': [1, 1, 1], 'iters': 2, 'post': 0, 'weights': [200, 200, 500, 100], 'seed': 1},
    {'pre': 0, 'K': 2, 'width': [1, 2], 'iters': 2, 'post': 1, 'weights': None, 'seed': 2},
    # RESTARTS from a later stage ('start' > 0: the first Controller.initialise is for that stage, the stages before it
    # were completed by an earlier run): at a plain stage before a loop that then iterates; at the first stage of the
    # loop with the default weights; at the last stage (everything else skipped, the loop never runs); in the middle of
    # a loop that does not iterate again
    {'pre': 2, 'K': 2, 'width': [1, 2], 'iters': 2, 'post': 1, 'weights': [400, 300, 100, 100, 100], 'seed': 3, 'start': 1},
    {'pre': 1, 'K': 2, 'width': [1, 1], 'iters': 2, 'post': 0, 'weights': None, 'seed': 4, 'start': 1},
    {'pre': 1, 'K': 2, 'width': [2, 1], 'iters': 1, 'post': 1, 'weights': [100, 200, 300, 400], 'seed': 5, 'start': 3},
    {'pre': 0, 'K': 3, 'width': [1, 1, 1], 'iters': 1, 'post': 0, 'weights': [500, 250, 250], 'seed': 6, 'start': 1},
    # the WINDOW between a termination and its notification ('lag' = how many components may have reached their
    # terminal state without Controller.finishedCheck having run for them): the report is taken inside the window, also
    # with the controller already on a later stage; with a loop that iterates; after a restart
    {'pre': 2, 'K': 1, 'width': [2], 'iters': 1, 'post': 1, 'weights': [600, 200, 100, 100], 'seed': 7, 'lag': 1},
    {'pre': 1, 'K': 2, 'width': [1, 2], 'iters': 2, 'post': 1, 'weights': [600, 200, 100, 100], 'seed': 5, 'lag': 2},
    {'pre': 2, 'K': 2, 'width': [2, 1], 'iters': 1, 'post': 0, 'weights': None, 'seed': 8, 'start': 1, 'lag': 3},
]


def restart_stages(case):
    """the stages > 0 a run of the case may be restarted from: any stage outside the interior of the loop, and any
    stage at all when the loop does not iterate again (a restart in the middle of a DoWhile that iterates again cannot
    instantiate the next iteration - the workflow fails, there is no progress of a completed workflow to judge)"""
    pre, K = case['pre'], case['K']
    n = pre + K + case['post']
    return [s for s in range(1, n) if s <= pre or s >= pre + K or case['iters'] == 1]


def gen_ctl(rng, restart=None, lag=None):
    """restart: None = an ordinary launch (stage 0) or a restart from a later stage, evenly; True = a restart.
    lag: None = terminations are notified at once or up to 1-3 of them stay un-notified for a while, evenly; True = the latter"""
    K = rng.choice([1, 2, 3, 3, 3, 4])
    pre, post = rng.randint(0, 1), rng.randint(0, 1)
    restart = (rng.random() < 0.5) if restart is None else restart
    if restart:
        pre = rng.randint(0, 2)
        if pre + post == 0 and K == 1:
            pre = 1
    n = pre + K + post
    cuts = sorted(rng.randint(0, 1000) for _ in range(n - 1))
    w = [b - a for a, b in zip([0] + cuts, cuts + [1000])]
    case = {'pre': pre, 'K': K, 'width': [rng.randint(1, 2) for _ in range(K)], 'iters': rng.randint(1, 3), 'post': post,
            'weights': w if rng.random() < 0.7 else None, 'seed': rng.randint(0, 10 ** 6)}
    if restart:
        if not restart_stages(case):
            case['iters'] = 1
        case['start'] = rng.choice(restart_stages(case))
    if (rng.random() < 0.5) if lag is None else lag:
        case['lag'] = rng.choice([1, 1, 2, 3])
    return case


def _explore_controller(ctx, cases):
    import c20_ctl
    terms, tcases = [], []
    for case in cases:
        obs = c20_ctl.drive(case)
        ctx.case(['controller', case], True)
        ctx.count('controller:loop_over_%d_stages' % case['K'])
        ctx.count('controller:iterations=%d' % case['iters'])
        if 'error' in obs:
            ctx.disagree({'controller': case}, obs, 'the workflow loads and the controller is driven to the end',
                         'C20 controller driver (harness/c20_ctl.py)')
            continue
        w = [Fraction(repr(x)) for x in obs['weights']]
        n = len(w)
        start = obs.get('start', 0)
        skipped_weight = sum(w[:start])
        ctx.count('controller:ordinary_launch_from_stage_0' if start == 0 else 'controller:restart_from_a_later_stage')
        if start:
            first_loop, last_loop = case['pre'], case['pre'] + case['K'] - 1
            ctx.count('controller:restart_' + ('before_the_loop' if start < first_loop else 'at_the_first_stage_of_the_loop'
                                               if start == first_loop else 'inside_the_loop' if start <= last_loop
                                               else 'after_the_loop'))
            if skipped_weight > 0:
                ctx.count('controller:restart_skips_stages_with_weight')
        seen_again = False
        was_finished = set()
        ctx.count('controller:notifications_delayed_by_up_to_%d' % int(case.get('lag') or 0))
        windows = set()
        for ev in obs['events']:
            pend = ev.get('pending') or []
            if pend:
                windows.add('controller:report_between_a_termination_and_its_notification')
                if any(st != ev['current'] for st in pend):
                    windows.add('controller:...with_the_controller_on_another_stage')
                if any(st in ev['complete'] for st in pend):
                    windows.add('controller:...the_last_component_of_its_stage')
            shown = {'controller': case, 'event': ev['event'], 'finished': ev['finished'], 'transit': ev['transit'],
                     'total': ev['total']}
            both = sorted(set(ev['finished']) & set(ev['transit']))
            if both:
                ctx.fail(shown, 'stages %s are reported both finished and in transit' % both, [])
            neither = sorted(set(range(n)) - set(ev['finished']) - set(ev['transit']))
            if neither:
                ctx.fail(shown, 'stages %s are reported neither finished nor in transit: their weight is not counted'
                         % neither, [])
            unknown = sorted((set(ev['finished']) | set(ev['transit'])) - set(range(n)))
            if unknown:
                ctx.fail(shown, 'stages %s are reported but do not exist' % unknown, [])
            not_done = sorted(set(range(start)) - set(ev['finished']))
            if not_done:
                ctx.fail(shown, 'the run was restarted from stage %d but the stages %s completed before are not '
                         'reported finished' % (start, not_done), [])
            if was_finished & set(ev['transit']):
                seen_again = True
            was_finished |= set(ev['finished'])
            tp = ev['total']
            expect = sum(w[int(s)] * Fraction(d[0], d[1]) for s, d in ev['done'].items())
            if tp is None or abs(Fraction(tp) - expect) > proved_bound(n, expect):
                ctx.disagree(shown, tp, float(expect), 'C20 total progress with the real Controller: CheckStatus vs the '
                             'weighted fraction of terminated components per stage (Weights.Model.total)')
            if tp is not None and not (0 <= Fraction(tp) <= 1 + proved_bound(n, 1)):
                ctx.fail(shown, 'total progress outside [0,1]', [])
            if ev['event'] == 'end' and (tp is None or abs(Fraction(tp) - 1) > proved_bound(n, 1)):
                ctx.fail(shown, 'total progress is not one when every stage completed', [])
            if tp is not None and Fraction(tp) < skipped_weight - proved_bound(n, skipped_weight):
                ctx.fail(shown, 'total progress is below the weight %s of the stages completed before the restart'
                         % float(skipped_weight), [])
            terms.append(cpair(cpair(cpair(cZ(start), clist(list(range(n)), cZ)),
                                     clist([cpair(cZ(a), ['NRunning', 'NReported', 'NObserved'][b]) for a, b in ev['nodes']], str)),
                               cpair(clist(ev['finished'], cZ), clist(ev['transit'], cZ))))
            tcases.append(shown)
        for k in sorted(windows):
            ctx.count(k)
        if seen_again:
            ctx.count('controller:a_finished_stage_became_active_again')
        ctx.sample({'controller': case, 'events': [[e['event'], e['finished'], e['transit'], e['total']] for e in obs['events']][:12]},
                   limit=12)
    bad = ctx.model_mismatches(HEADER, terms, SCHECKER, chunk=300, name='model_ctl')
    for i in bad:
        ctx.disagree(tcases[i], terms[i][-300:], '', 'C20 stages counted: Controller.get_stages_finished/'
                     'get_stages_in_transit vs Weights.Model.win_finished/win_in_transit (ctl_finished/ctl_in_transit of '
                     'the nodes the controller has OBSERVED, after Model.restart_nodes)')


def _explore(ctx, cases, complete=False):
    import experiment.model.frontends.flowir as F
    rng = ctx.rng
    mon = _Mon()
    terms = []
    fterms = []
    fcases = []
    try:
        for c, ms in cases:
            n = len(ms)
            U = 1000 * c
            given = [0 if (m is None or m == 'entry') else m for m in ms]
            concrete = F.FlowIRConcrete(_doc(ms, c), 'default', {})
            st = concrete.get_status()
            if any(i not in st or 'stage-weight' not in st[i] for i in range(n)):
                ctx.fail({'given': ms, 'scale': c, 'status-report': repr(st)[:400]},
                         'a stage of the loaded workflow has no stage weight', classes_of(ms))
                continue
            if any(m == 'entry' for m in ms):
                ctx.count('entry_without_weight')
            w = [st[i]['stage-weight'] for i in range(n)]
            m_, rec = mon.monitor(concrete, n)
            mw = list(m_.stageWeights)
            ctx.case([n, c, ms], n >= 2 and any(x is not None and x != 'entry' for x in ms))
            ctx.count('scale_c=%s' % ('10^%d' % (len(str(c)) - 1)))
            ctx.count('n<=10' if n <= 10 else ('n<=60' if n <= 60 else 'n>60'))
            # the weights as the decimal numbers they print as, in units 1/(1000c)
            wq = [Fraction(repr(float(x))) * U for x in w]
            exact = all(q.denominator == 1 for q in wq)
            wm = [int(q) for q in wq]
            mon_ok = (mw == w)
            # ---- property predicate on the implementation
            cls = classes_of(ms)
            if not exact:
                ctx.fail({'given': ms, 'scale': c, 'weights': w}, 'normalised weight is not a multiple of the unit 1/(1000c)', cls)
            if any(x < 0 for x in w):
                ctx.fail({'given': ms, 'scale': c, 'weights': w}, 'negative stage weight after loading', cls)
            if sum(wq) != U:
                ctx.fail({'given': ms, 'scale': c, 'weights': w}, 'stage weights do not sum to one after loading', cls)
            if all(g >= 0 for g in given) and sum(given) == U and wm != given:
                ctx.fail({'given': ms, 'scale': c, 'weights': w}, 'given weights summing to one were not kept', cls)
            if not mon_ok and not any(abs(a - b) > 1e-12 for a, b in zip(mw, w)):
                mon_ok = True
            if not mon_ok:
                ctx.fail({'given': ms, 'scale': c, 'weights': w, 'monitor': mw}, 'StatusMonitor replaced the loaded weights', cls)
            # ---- progress
            D = 8
            prog = [rng.randint(0, D) for _ in range(n)]
            if rng.random() < 0.3:
                prog = [D] * n
            cur = rng.randrange(n)
            finished = [i for i in range(n) if prog[i] == D and i != cur and rng.random() < 0.8]
            transit = [i for i in range(n) if i not in finished and i != cur and prog[i] > 0]
            if complete:
                prog, cur, finished, transit = [D] * n, n - 1, list(range(n - 1)), []
            contributing = set(finished) | set(transit) | {cur}
            churn = (len(transit) > 0 and (sum(prog) + cur) % 2 == 0)
            ctx.count('controller_changes_during_the_report' if churn else 'static_controller')
            tp = mon.total_progress(m_, rec, n, cur, transit, finished, [Fraction(p, D) for p in prog], churn=churn)
            expect = sum(Fraction(prog[i], D) * wq[i] / U for i in contributing)
            # the proved bound (C20_float_progress) replaces the former 1e-9 tolerance; n = contributing stages
            bound = proved_bound(len(contributing), expect)
            pcase = {'given': ms, 'scale': c, 'prog': prog, 'cur': cur, 'finished': finished, 'transit': transit}
            if tp is None or abs(Fraction(tp) - expect) > bound:
                ctx.disagree(pcase, tp, float(expect),
                             'C20 total progress: CheckStatus vs Weights.Model.total within the bound of C20_float_progress')
            valid_w = all(x >= 0 for x in w) and sum(wq) == U
            if valid_w and tp is not None and not (0 <= Fraction(tp) <= 1 + proved_bound(n, 1)):
                ctx.fail({'given': ms, 'scale': c, 'prog': prog, 'total': tp}, 'total progress outside [0,1]', cls)
            if valid_w and all(p == D for p in prog) and len(contributing) == n and \
                    abs(Fraction(tp) - 1) > proved_bound(n, 1):
                ctx.fail({'given': ms, 'scale': c, 'prog': prog, 'total': tp}, 'total progress is not one when every stage completed', cls)
            if valid_w and all(p == D for p in prog) and len(contributing) == n:
                ctx.count('complete_exactly_1.0' if tp == 1.0 else 'complete_within_ulps_of_1.0')
            # ---- float model (bit for bit): active = current stage then stages in transit, then finished
            if tp is not None:
                act = [cur] + [i for i in sorted(transit) if i != cur]
                fin_ = [i for i in sorted(finished) if i != cur]
                fterms.append(cpair(clist([cpair(cfloat(float(Fraction(prog[i], D))), cfloat(mw[i])) for i in act], str),
                                    cpair(clist([cfloat(mw[i]) for i in fin_], str), cfloat(tp))))
                fcases.append(pcase)
            # ---- model comparison
            if exact:
                terms.append(cpair(cpair(cZ(c), clist(given, cZ)), cpair(clist(wm, cZ), cbool(mw == w or mon_ok))))
            ctx.sample({'scale_c': c, 'given_units_of_1/(1000c)': ms, 'weights': w if n <= 8 else w[:3] + ['...'] + w[-1:],
                        'monitor_keeps': mon_ok, 'total_progress': tp})
    finally:
        mon.close()
    fbad = ctx.model_mismatches(FHEADER, fterms, FCHECKER, chunk=150, name='fmodel')
    for i in fbad:
        ctx.disagree(fcases[i], 'see case term', fterms[i][:300],
                     'C20 total progress: CheckStatus vs Weights.FloatModel.fprogress (bit for bit)')
    bad = ctx.model_mismatches(HEADER, terms, CHECKER, chunk=150)
    for k, i in enumerate(bad):
        ctx.disagree(terms[i], 'see case term', ctx.model_eval(HEADER, 'run_case (fst (fst %s)) (snd (fst %s))' % (terms[i], terms[i]))[:400] if k < 3 else '',
                     'C20 weights: inject_default_values/StatusMonitor vs Weights.Model.run_case')
