"""C06 — DSL 2.0 compilation preserves the dataflow and parameter bindings.

Implementation driven (real, in-process): experiment.model.frontends.dsl.Namespace(**doc),
namespace_to_flowir(namespace) and FlowIRConcrete.validate().

Cases are ABSTRACT namespaces (token lists, the input type of coq/Dsl/Model.v) generated bottom-up
(component templates, then workflow templates of increasing level, each instantiated 1-3 times, nesting
depth <= 4; text parameters forwarded / defaulted / overridden / mixed with literals; output references to a
sibling component, into a sibling workflow (1-2 levels down), or received through "partial reference"
parameters and completed 0-2 levels further down with a path and a method) plus single-fault mutants.  Each
case is rendered to a YAML-like document (several spellings of the same tokens: <a/b/c>:m, "<a/b>"/c:m,
<a/b>/c:m, %(x)s/c:m, "%(x)s"/c:m) and given to the real compiler.

Property predicate (evaluated on the implementation's output, the mirror of the Coq spec): an INDEPENDENT
denotational flattener [spec] (instances by location, environment by substitution along the call chain,
producer = longest component location prefixing the absolute path) decides validity and, for a valid
namespace, the expected components; the predicate demands a bijection between the instances and the compiled
components (names are only required to be unique and derived from the step name) under which arguments and
references agree, an empty FlowIRConcrete.validate(), and DSLInvalidError with at least one location for an
invalid namespace (never another exception, never a result, never a hang).

Correspondence: every case is also evaluated by the compiler model inside Coq (check_case of
coq/Dsl/Model.v) and compared: component ids, reference sets, argument strings; on failure the exception
type and the SET of error locations.

Entry points and value kinds (coq/Dsl/Load.v): a namespace is compiled (a) directly, (b) directly with
override_entrypoint_args, (c) through experiment.model.conf.DSLExperimentConfiguration without / with user
variable files and validate True / False (a document written to a scratch directory).  Parameter values are
strings, NUMBERS (int / float), null and DICTIONARIES (typed tokens V): a typed value is forwarded whole by a
sole "%(p)s" and interpolated as its str() otherwise; a dictionary is only ever forwarded whole and ends as the
environment of a component (command.environment: "%(p)s").  They appear as declared defaults, as arguments of
steps, in entrypoint.execute[0].args, in the override and in the user variables.  The compiled FlowIR's global
variables are compared with coq/Dsl/Load.v [globals] (check_globals), every result goes through
FlowIRConcrete.validate(), and a family of malformed DOCUMENTS (entrypoint missing / empty / unknown template,
schema faults) must be rejected with a DSLInvalidError (possibly wrapped in ExperimentInvalidConfigurationError)
that names a location, through every entry point.

Scopes of names and value kinds in STRING context: the VARIABLES of a component are drawn from the same names as the
parameters of the workflows that call it (directly or further up the chain; never a parameter of the component
itself) and the colliding workflow parameter is forwarded in the arguments of the steps above the component -- a
reference in an argument of a step belongs to the CALLER's scope, a reference in a field of the component to its
variable.  A dictionary referenced inside a longer string (in the arguments a workflow passes to a step at any
depth, in command.arguments of a component, or because a dictionary is supplied -- entrypoint arguments, override,
step arguments -- for a parameter that is interpolated further down) makes the namespace invalid: mutant classes
dict_spliced_args / dict_spliced_component / dict_for_text; the model's subst_d (coq/Dsl/Model.v) and the
specification's dict_ok (coq/Dsl/Spec.v) carry the rule.

Places WITHOUT an enclosing parameter scope, and lightweight_validate: the arguments of the entry instance
(entrypoint.execute[0].args, override_entrypoint_args, the user variables DSLExperimentConfiguration turns into an
override) have no parent scope, so ANY %(name)s in them -- an unknown name, a parameter of the entry template itself,
a parameter of a workflow further down; alone, nested in text, twice, extended like a reference -- makes the
namespace invalid (mutant classes entry_param_ref / override_param_ref / uservar_param_ref; sibling one level down:
noparam_parent_ref, a step of a workflow that declares NO parameter refers to one).  lightweight_validate(namespace,
override_entrypoint_args) is a fourth entry point (mode ('lw',)): on the corpus, on a share of the valid namespaces
and of the mutants of every class and on the malformed documents it must answer with nothing or with a
DSLInvalidError that names locations, must not reject a valid namespace, must not accept a STRUCTURALLY invalid one
(Invalid.deep False: decided without evaluating values), and is compared with coq/Dsl/Load.v [lightweight] (the
traversal alone) by check_lw.

KEY OUTPUTS (entrypoint.output[].data-in) and ENVIRONMENT families: ~35% of the generated namespaces declare 1-3 key outputs
whose data-in is an absolute complete reference to a file of a component instance at any depth; the flattener resolves it
like any reference (producer = longest component location prefixing the path) and the predicate demands the compiled
data-in under the same naming bijection; a data-in that leads to no component instance (misspelt step, a workflow
instance, not absolute) or a second output with one name makes the namespace invalid (mutant classes output_*);
coq/Dsl/Outputs.v (compile_out / lightweight_out) models the block and is tied by check_out / check_lw_out.  The
dictionaries of one namespace come mostly from ONE family (base + variables whose value is empty / 0 / False ...), so that
sibling and nested instances run in environments that differ only in such variables."""
import json
import os
import re
import shutil
import signal
import tempfile

from common import clist, cstr, cnat, cpair, copt

PROP = 'C06'
COQ_DIR = 'Dsl'
ASSUMPTIONS = [
    'token level: the tokenisation of strings by the regular expressions of dsl.py (OutputReferenceVanilla/Nested, '
    'ParameterPattern, LegacyReferencePattern, SignatureNamePattern) and pydantic validation are glue, exercised only '
    'through the renderer of harness/c06.py (several spellings per token) and the correspondence run',
    'fragment: values are strings, numbers (int/float; read as their Python str() when interpolated), null (entry '
    'instance only) and dictionaries (forwarded whole and used as command.environment, or - invalid - spliced into a '
    'longer string; a dictionary is ONE literal token holding its JSON text, which starts with "{" and no literal text '
    'of the fragment does; a dictionary reference preceded only by parameters bound to the empty text is not '
    'generated); booleans and lists are not '
    'legal ParameterValueType (a list is a schema fault, checked through the configuration loader only); '
    'a partial reference (<a/b> without :method) is the sole content of a value; '
    'literal text avoids < > % " / : ; no "replica", no workflowAttributes/replicate, no environments section, key outputs hold name and data-in only, '
    'no legacy "input/file":ref references, parameter defaults are literal text or typed values, no step is called '
    'entry-instance; user variable files hold a global section of scalars only',
    'the worklist of discover_all_instances_of_templates is modelled as the equivalent depth-first recursion '
    '(order observable through de-duplicated names and checked by the correspondence)',
]
HEADER = 'Require Import V.Lib.PyStr V.Dsl.Model.\nOpen Scope string_scope.\nOpen Scope list_scope.'
SPEC_HEADER = 'Require Import V.Lib.PyStr V.Dsl.Model V.Dsl.Spec.\nOpen Scope string_scope.\nOpen Scope list_scope.'
LOAD_HEADER = 'Require Import V.Lib.PyStr V.Dsl.Model V.Dsl.Load.\nOpen Scope string_scope.\nOpen Scope list_scope.'

OUT_HEADER = ('Require Import V.Lib.PyStr V.Dsl.Model V.Dsl.Load V.Dsl.Outputs.\nOpen Scope string_scope.\n'
              'Open Scope list_scope.')

METHODS = ['ref', 'output', 'copy', 'link']


# ------------------------------------------------------------------ tokens
def L(s): return ('L', s)
def P(x): return ('P', x)
def O(path, m=None): return ('O', tuple(path), m)
def PO(x, path, m=None): return ('PO', x, tuple(path), m)
def V(x): return ('V', x)      # a typed YAML value: int / float / None / dict


def vstr(x):
    """the token reading of a typed value: what _replace_many_parameter_references interpolates (str());
    a dictionary is never interpolated, its reading is an opaque canonical text"""
    if isinstance(x, dict):
        return json.dumps(x, sort_keys=True)
    return str(x)


def vkind(x):
    if isinstance(x, dict):
        return 'KDict'
    if x is None:
        return 'KNone'
    if isinstance(x, str):
        return 'KStr'
    return 'KNum'


def render_value(v, sp=0, in_component=False):
    """token list -> DSL string; sp selects the spelling of references; a sole typed token -> the typed value"""
    if len(v) == 1 and v[0][0] == 'V':
        return v[0][1]
    out = []
    for t in v:
        if t[0] == 'L':
            out.append(t[1])
        elif t[0] == 'V':
            out.append(vstr(t[1]))
        elif t[0] == 'P':
            out.append('%%(%s)s' % t[1])
        elif t[0] == 'O':
            path, m = list(t[1]), t[2]
            k = len(path)
            if m is None:
                s = '<%s>' % '/'.join(path) if sp % 2 == 0 else '"<%s>"' % '/'.join(path)
            else:
                mode = sp % 4
                cut = max(1, k - 1 - (sp // 4) % 2) if k > 1 else k
                if mode == 0:
                    s = '<%s>:%s' % ('/'.join(path), m)
                elif mode == 1 and cut < k:
                    s = '"<%s>"/%s:%s' % ('/'.join(path[:cut]), '/'.join(path[cut:]), m)
                elif mode == 2 and cut < k:
                    s = '<%s>/%s:%s' % ('/'.join(path[:cut]), '/'.join(path[cut:]), m)
                elif mode == 3:
                    s = '"<%s>":%s' % ('/'.join(path), m)
                else:
                    s = '<%s>:%s' % ('/'.join(path), m)
            out.append(s)
        else:
            _, x, path, m = t
            if in_component or sp % 2 == 0 or not path:
                s = '%%(%s)s' % x
            else:
                s = '"%%(%s)s"' % x
            if path:
                s += '/' + '/'.join(path)
            if m is not None:
                s += ':' + m
            out.append(s)
    return ''.join(out)


def to_doc(ns):
    sp = ns.get('sp', 0)

    def params(ps):
        return [({'name': n} if d is None else {'name': n, 'default': render_value(d)}) for n, d in ps]
    k = [0]

    def rv(v):
        k[0] += 1
        return render_value(v, sp + k[0] * (1 if sp else 0))
    doc = {'entrypoint': {'entry-instance': ns['entry'],
                          'execute': [{'target': '<entry-instance>', 'args': {n: rv(v) for n, v in ns['eargs']}}]},
           'workflows': [], 'components': []}
    if ns.get('outputs'):
        # key outputs (entrypoint.output[].data-in): absolute complete references, in the spellings of render_value
        doc['entrypoint']['output'] = [{'name': n, 'data-in': render_value([t], sp + 3 * i)}
                                       for i, (n, t) in enumerate(ns['outputs'])]
    for w in ns['wfs']:
        doc['workflows'].append({'signature': {'name': w['name'], 'parameters': params(w['params'])},
                                 'steps': {s: t for s, t in w['steps']},
                                 'execute': [{'target': '<%s>' % tg, 'args': {n: rv(v) for n, v in args}}
                                             for tg, args in w['exec']]})
    for c in ns['comps']:
        d = {'signature': {'name': c['name'], 'parameters': params(c['params'])},
             'command': {'executable': 'echo', 'arguments': render_value(c['args'], 0, True)}}
        if c.get('envp'):
            d['command']['environment'] = '%%(%s)s' % c['envp']
        if c['vars']:
            d['variables'] = {v: 'val-' + v for v in c['vars']}
        doc['components'].append(d)
    return doc


def update(a, b):
    """dict.update on association lists"""
    db = dict(b)
    return [(n, db.get(n, v)) for n, v in a] + [(n, v) for n, v in b if n not in dict(a)]


def effective(ns, uservars=None):
    """the namespace the compiler sees: entrypoint arguments updated by the override / the user variables"""
    ea = list(ns['eargs'])
    if uservars is not None:
        ea = update(ea, update(ea, uservars))
    elif ns.get('override') is not None:
        ea = update(ea, ns['override'])
    if uservars is None and ns.get('override') is None:
        return ns
    out = dict(ns)
    out['eargs'] = ea
    out['override'] = None
    return out


# ------------------------------------------------------------------ implementation driver
class _Hang(Exception):
    pass


def _alarm(*_a):
    raise _Hang()


def _collect(f, errs):
    comps = []
    for c in f.get_components():
        env = c.get('command', {}).get('environment')
        if env is not None:
            env = {} if env == 'none' else dict(f.get_environment(env))
        comps.append([int(c.get('stage', 0)), c['name'], sorted(c.get('references', [])),
                      c.get('command', {}).get('arguments', ''), env])
    gl = f.get_platform_global_variables('default')
    outs = f.raw().get('output') or {}
    return {'kind': 'ok', 'outputs': sorted([n, json.dumps(o, sort_keys=True, default=str) if set(o) != {'data-in'}
                                              else o['data-in']] for n, o in outs.items()), 'comps': sorted(comps, key=lambda c: json.dumps(c, sort_keys=True)),
            'globals': sorted([n, vkind(v), vstr(v)] for n, v in gl.items()),
            'validate': [type(e).__name__ + ': ' + str(e)[:200] for e in errs]}


def _rejection(e):
    import experiment.model.errors as E
    d = e if isinstance(e, E.DSLInvalidError) else getattr(e, 'underlyingError', None)
    if isinstance(d, E.DSLInvalidError):
        locs = sorted(set(tuple(x.location) for x in d.underlying_errors), key=lambda t: json.dumps(t))
        return {'kind': 'dsl', 'locs': [list(x) for x in locs]}
    if isinstance(e, _Hang):
        return {'kind': 'exc', 'type': 'HANG(>20s)'}
    u = getattr(e, 'underlyingError', None)
    return {'kind': 'exc', 'type': type(e).__name__ + ('(%s)' % type(u).__name__ if u is not None else '')}


def drive(doc, override=None):
    """namespace_to_flowir(Namespace(**doc), override_entrypoint_args=override) + FlowIRConcrete.validate()"""
    import experiment.model.frontends.dsl as D
    import experiment.model.errors as E
    signal.signal(signal.SIGALRM, _alarm)
    signal.alarm(20)
    try:
        try:
            nsp = D.Namespace(**doc)
            if override is None:
                f = D.namespace_to_flowir(nsp)
            else:
                f = D.namespace_to_flowir(nsp, override_entrypoint_args=dict(override))
            return _collect(f, f.validate())
        except E.DSLInvalidError as e:
            return _rejection(e)
        except _Hang as e:
            return _rejection(e)
        except Exception as e:  # noqa
            return {'kind': 'exc', 'type': type(e).__name__}
    finally:
        signal.alarm(0)


def drive_lw(doc, override=None):
    """lightweight_validate(Namespace(**doc), override_entrypoint_args=override): the validation the tools run on a
    namespace they do not compile -> {'kind': 'lwok'} (returned: nothing reported) / 'dsl' / 'exc'"""
    import experiment.model.frontends.dsl as D
    import experiment.model.errors as E
    signal.signal(signal.SIGALRM, _alarm)
    signal.alarm(20)
    try:
        try:
            nsp = D.Namespace(**doc)
            if override is None:
                D.lightweight_validate(nsp)
            else:
                D.lightweight_validate(nsp, override_entrypoint_args=dict(override))
            return {'kind': 'lwok'}
        except E.DSLInvalidError as e:
            return _rejection(e)
        except _Hang as e:
            return _rejection(e)
        except Exception as e:  # noqa
            return {'kind': 'exc', 'type': type(e).__name__}
    finally:
        signal.alarm(0)


def predicate_lw(ns, impl):
    """the rejection half of the property for lightweight_validate: never another exception, an error names its
    locations, a valid namespace is not rejected, a STRUCTURALLY invalid one (Invalid.deep False) is not accepted"""
    if impl['kind'] == 'exc':
        return 'lightweight_validate raised %s instead of DSLInvalidError' % impl.get('type')
    if impl['kind'] == 'dsl' and (not impl['locs'] or not all(impl['locs'])):
        return 'lightweight_validate rejected the namespace without naming a location'
    try:
        spec(ns)
    except Invalid as e:
        if not e.deep and impl['kind'] != 'dsl':
            return 'lightweight_validate accepts a structurally invalid namespace (%s)' % e
        return None
    if impl['kind'] == 'dsl':
        return 'lightweight_validate rejects a valid namespace: %s' % impl['locs'][:3]
    return None


_SCRATCH = []


def _scratch():
    if not _SCRATCH:
        _SCRATCH.append(tempfile.mkdtemp(prefix='c06-'))
    return _SCRATCH[0]


def _cleanup():
    while _SCRATCH:
        shutil.rmtree(_SCRATCH.pop(), ignore_errors=True)


def drive_conf(doc, uservars, validate, text=None):
    """experiment.model.conf.DSLExperimentConfiguration on the document written to a scratch file, with the user
    variables (None: no variable files; a dict: the content of one variables file) -- the loader of elaunch/etest.
    A rejection counts as DSLInvalidError when it is one or wraps one (ExperimentInvalidConfigurationError)."""
    import yaml
    import experiment.model.conf as C
    root = _scratch()
    path = os.path.join(root, 'dsl.yaml')
    with open(path, 'w') as fh:
        if text is not None:
            fh.write(text)
        else:
            yaml.safe_dump(doc, fh, sort_keys=False)
    files = None
    if uservars is not None:
        vp = os.path.join(root, 'variables.yaml')
        with open(vp, 'w') as fh:
            yaml.safe_dump(uservars, fh, sort_keys=False)
        files = [vp]
    signal.signal(signal.SIGALRM, _alarm)
    signal.alarm(30)
    try:
        try:
            cf = C.DSLExperimentConfiguration(path=path, variable_files=files, is_instance=False,
                                              createInstanceFiles=False, primitive=True, validate=validate,
                                              platform=None, system_vars=None)
            f = cf.get_flowir_concrete()
            return _collect(f, f.validate())
        except Exception as e:  # noqa
            return _rejection(e)
    finally:
        signal.alarm(0)


# ------------------------------------------------------------------ independent specification
class Invalid(Exception):
    """deep=False: a STRUCTURAL fault, visible without evaluating any value (templates, steps, arguments supplied /
    missing, names of the parameters a value refers to) -- what lightweight_validate must already report;
    deep=True: decided by the VALUES (kinds, reference shapes, producers)"""
    def __init__(self, msg, deep=False):
        Exception.__init__(self, msg)
        self.deep = deep


class Flat(dict):
    """what the flattener returns: {location: ...} plus the key outputs [(name, producer location, file, method)]"""
    outputs = ()


_NAME = re.compile(r'(stage(?P<stage>([0-9]+))\.)?(?P<name>([A-Za-z0-9._-]*[A-Za-z_-]+))')


def is_dict_value(b):
    return b is not None and len(b) == 1 and b[0][0] == 'V' and isinstance(b[0][1], dict)


def spec(ns):
    """denotational flattener: {location: (closed argument tokens, {(producer location, file, method)})}
    raises Invalid for a namespace the property calls invalid"""
    templates = {}
    for w in ns['wfs']:
        if w['name'] in templates:
            raise Invalid('duplicate template')
        templates[w['name']] = ('w', w)
    for c in ns['comps']:
        if c['name'] in templates:
            raise Invalid('duplicate template')
        templates[c['name']] = ('c', c)
    if ns['entry'] not in templates:
        raise Invalid('unknown entry')
    onames = [n for n, _t in ns.get('outputs') or []]
    if len(set(onames)) != len(onames):
        raise Invalid('two key outputs carry the same name')
    instances = {}

    def ev(v, env, loc, siblings, keep=()):
        # a parameter bound to a dictionary may only be referenced by a value that is nothing but that reference
        # (the dictionary is then forwarded whole); spliced into more text it makes the namespace invalid
        if not (len(v) == 1 and v[0][0] == 'P'):
            for t in v:
                if t[0] in ('P', 'PO') and not (t[0] == 'P' and t[1] in keep) and is_dict_value(env.get(t[1])):
                    raise Invalid('dictionary parameter %s spliced into a longer string' % t[1], deep=True)
        out = []
        for t in v:
            if t[0] in ('L', 'V'):
                out.append(t)
            elif t[0] == 'P':
                if t[1] in keep:
                    out.append(t)
                elif t[1] not in env:
                    raise Invalid('unknown parameter %s' % t[1])
                else:
                    out.extend(env[t[1]])
            elif t[0] == 'O':
                if siblings is None or not t[1] or t[1][0] not in siblings:
                    raise Invalid('reference does not start at a sibling step', deep=True)
                out.append(('O', tuple(loc) + t[1], t[2]))
            else:
                _, x, path, m = t
                if x not in env:
                    raise Invalid('unknown parameter %s' % x)
                b = env[x]
                if not (len(b) == 1 and b[0][0] == 'O' and b[0][2] is None):
                    raise Invalid('parameter %s is extended like a reference but is not one' % x, deep=True)
                out.append(('O', b[0][1] + path, m))
        if len(out) > 1 and any(t[0] == 'O' and t[2] is None for t in out):
            raise Invalid('partial reference mixed with text', deep=True)
        return out

    def inst(loc, tname, supplied, env_outer, loc_outer, siblings, chain):
        kind, t = templates[tname]
        pn = [n for n, _ in t['params']]
        if len(set(pn)) != len(pn):
            raise Invalid('duplicate parameter')
        for n in supplied:
            if n not in pn:
                raise Invalid('unknown argument %s' % n)
        env = {}
        for n, d in t['params']:
            if n in supplied:
                env[n] = ev(supplied[n], env_outer, loc_outer, siblings)
            elif d is not None:
                env[n] = list(d)
            else:
                raise Invalid('missing argument %s' % n)
        if kind == 'c':
            instances[loc] = (t, env)
            return
        steps = dict(t['steps'])
        targets = [e[0] for e in t['exec']]
        if len(set(targets)) != len(targets) or set(targets) != set(steps):
            raise Invalid('steps and execute do not match')
        for tg, args in t['exec']:
            if steps[tg] not in templates:
                raise Invalid('unknown template')
            if steps[tg] in chain + [tname]:
                raise Invalid('cycle')
            inst(loc + (tg,), steps[tg], dict(args), env, loc, [s for s in steps if s != tg], chain + [tname])

    inst(('entry-instance',), ns['entry'], dict(ns['eargs']), {}, (), [], [])
    comp_locs = sorted(instances)

    def producer(path):
        best = None
        for l in comp_locs:
            if len(l) <= len(path) and tuple(path[:len(l)]) == l and (best is None or len(l) > len(best)):
                best = l
        if best is None:
            raise Invalid('reference %s has no producer' % (path,), deep=True)
        return best
    res = Flat()
    for loc, (c, env) in instances.items():
        if _NAME.fullmatch(loc[-1]) is None:
            raise Invalid('step name is not a component name', deep=True)
        args = ev(c['args'], env, None, None, keep=set(c['vars']))
        refs = set()
        complete = set()
        for t in args:
            if t[0] == 'O':
                if t[2] is None:
                    raise Invalid('partial reference in arguments', deep=True)
                complete.add(t[1])
        for t in list(args) + [t for v in env.values() for t in v]:
            if t[0] == 'O':
                if t[2] is None:
                    if t[1] not in complete:
                        raise Invalid('partial reference never completed', deep=True)
                    continue
                pr = producer(t[1])
                refs.add((pr, t[1][len(pr):], t[2]))
        envd = None
        if c.get('envp'):
            ev_ = env.get(c['envp'])
            if not (ev_ is not None and len(ev_) == 1 and ev_[0][0] == 'V' and isinstance(ev_[0][1], dict)):
                raise Invalid('the environment of a component is not a dictionary', deep=True)
            envd = ev_[0][1]
        res[loc] = (args, refs, producer, envd)
    # key outputs: the data-in of an output is an absolute reference; its producer is, like for any reference, the
    # component instance with the longest location that prefixes it -- no such instance: the namespace is invalid
    outs = []
    for name, t in ns.get('outputs') or []:
        if t[0] != 'O' or t[2] is None:
            raise Invalid('the data-in of a key output is not a complete reference', deep=True)
        pr = producer(t[1])
        outs.append((name, pr, t[1][len(pr):], t[2]))
    res.outputs = outs
    return res


def _ref_str(name, file, m):
    return 'stage%d.%s%s:%s' % (name[0], name[1], ('/' + '/'.join(file)) if file else '', m)


def predicate(ns, impl):
    """None if the property holds of the implementation's output on this namespace, else a description"""
    try:
        want = spec(ns)
    except Invalid as e:
        if impl['kind'] == 'dsl':
            return None if impl['locs'] else 'invalid namespace rejected without any location'
        return 'invalid namespace (%s) not rejected with DSLInvalidError: %s' % (e, impl.get('type', impl['kind']))
    if impl['kind'] != 'ok':
        return 'valid namespace rejected: %s %s' % (impl['kind'], impl.get('type', impl.get('locs')))
    if impl['validate']:
        return 'FlowIRConcrete.validate() not empty: %s' % impl['validate'][:2]
    comps = impl['comps']
    ids = [(c[0], c[1]) for c in comps]
    if len(set(ids)) != len(ids):
        return 'component names are not unique'
    if len(comps) != len(want):
        return 'expected %d components, got %d' % (len(want), len(comps))
    locs = sorted(want)
    cands = {}
    for l in locs:
        m = _NAME.fullmatch(l[-1])
        st, base = int(m.group('stage') or 0), m.group('name')
        cands[l] = [i for i in ids if i[0] == st and (i[1] == base or i[1].startswith(base + '-'))]
    by_id = {(c[0], c[1]): c for c in comps}

    def ok_one(l, beta):
        args, refs, producer, envd = want[l]
        s = ''
        for t in args:
            if t[0] == 'L':
                s += t[1]
            elif t[0] == 'V':
                s += vstr(t[1])
            elif t[0] == 'P':
                s += '%%(%s)s' % t[1]
            else:
                pr = producer(t[1])
                s += _ref_str(beta[pr], t[1][len(pr):], t[2])
        c = by_id[beta[l]]
        # the variables of an environment reach the FlowIR as strings (FlowIRConcrete.get_environment)
        envs = None if envd is None else {k: str(v) for k, v in envd.items()}
        return c[3] == s and set(c[2]) == set(_ref_str(beta[pr], f, m) for pr, f, m in refs) and c[4] == envs

    # producers before consumers, so that each instance is checked as soon as it is named
    order, placed = [], set()
    while len(order) < len(locs):
        progress = False
        for l in locs:
            if l not in placed and all(pr in placed or pr == l for pr, _f, _m in want[l][1]):
                order.append(l)
                placed.add(l)
                progress = True
        if not progress:
            return 'the specification\'s producer relation is cyclic (generator error)'
    budget = [200000]

    def search(i, beta, used):
        if i == len(order):
            # the key outputs point to the (renamed) producers of the specification
            return sorted([n, _ref_str(beta[pr], f, m)] for n, pr, f, m in want.outputs) == impl.get('outputs', [])
        for cid in cands[order[i]]:
            if cid in used:
                continue
            budget[0] -= 1
            if budget[0] < 0:
                raise OverflowError()
            beta[order[i]] = cid
            if ok_one(order[i], beta) and search(i + 1, beta, used | {cid}):
                return True
            del beta[order[i]]
        return False
    try:
        found = search(0, {}, frozenset())
    except OverflowError:
        return 'INCONCLUSIVE'
    if not found:
        return 'no naming of the instances makes arguments, references, environments of the compiled components and the key outputs agree with the specification'
    return None


# ------------------------------------------------------------------ Coq terms
def c_tok(t):
    if t[0] == 'L':
        return '(Lit %s)' % cstr(t[1])
    if t[0] == 'P':
        return '(Param %s)' % cstr(t[1])
    if t[0] == 'V':
        return '(Lit %s)' % cstr(vstr(t[1]))
    if t[0] == 'O':
        return '(Out %s %s)' % (clist(t[1], cstr), copt(t[2], cstr))
    return '(POut %s %s %s)' % (cstr(t[1]), clist(t[2], cstr), copt(t[3], cstr))


def c_val(v): return clist(v, c_tok)
def c_params(ps): return clist(ps, lambda p: cpair(cstr(p[0]), copt(p[1], c_val)))
def c_args(a): return clist(a, lambda nv: cpair(cstr(nv[0]), c_val(nv[1])))


def c_ns(ns):
    wfs = clist(ns['wfs'], lambda w: '{| w_name := %s; w_params := %s; w_steps := %s; w_exec := %s |}' % (
        cstr(w['name']), c_params(w['params']), clist(w['steps'], lambda s: cpair(cstr(s[0]), cstr(s[1]))),
        clist(w['exec'], lambda e: cpair(cstr(e[0]), c_args(e[1])))))
    comps = clist(ns['comps'], lambda c: '{| c_name := %s; c_params := %s; c_vars := %s; c_args := %s |}' % (
        cstr(c['name']), c_params(c['params']), clist(c['vars'], cstr), c_val(c['args'])))
    return '{| n_entry := %s; n_eargs := %s; n_wfs := %s; n_comps := %s |}' % (
        cstr(ns['entry']), c_args(ns['eargs']), wfs, comps)


def tkind(v):
    return vkind(v[0][1]) if len(v) == 1 and v[0][0] == 'V' else 'KStr'


def c_kval(v): return '(%s, %s)' % (tkind(v), c_val(v))
def c_kargs(a): return clist(a, lambda nv: cpair(cstr(nv[0]), c_kval(nv[1])))


def c_globals_case(ns, impl):
    """(declared parameters of the entry template, entrypoint arguments, override, global variables of the FlowIR)"""
    t = [x for x in ns['comps'] + ns['wfs'] if x['name'] == ns['entry']][0]
    return '(%s, %s, %s, %s)' % (
        clist(t['params'], lambda p: cpair(cstr(p[0]), copt(p[1], c_kval))), c_kargs(ns['eargs']),
        copt(ns.get('override'), c_kargs),
        clist(impl['globals'], lambda g: cpair(cstr(g[0]), '(%s, [Lit %s])' % (g[1], cstr(g[2])))))


def c_uvars(uv):
    return 'NoFiles' if uv is None else '(Files (Some %s))' % c_args(uv)


def c_loc(l):
    return clist(l, lambda x: '(LN %s)' % cnat(x) if isinstance(x, int) else '(LS %s)' % cstr(str(x)))


def c_impl(impl):
    if impl['kind'] == 'ok':
        return '(IOk %s)' % clist(impl['comps'], lambda c: '((%d)%%N, %s, %s, %s)' % (
            c[0], cstr(c[1]), clist(c[2], cstr), cstr(c[3])))
    if impl['kind'] == 'dsl':
        return '(IErr %s)' % clist(impl['locs'], c_loc)
    return '(IExc %s)' % cstr(impl['type'])


def c_kouts(outs):
    """the key outputs as a term of type list kout of coq/Dsl/Outputs.v"""
    return clist(outs, lambda o: '(%s, (%s, %s))' % (cstr(o[0]), clist(o[1][1], cstr), cstr(o[1][2])))


def c_lw_impl(impl):
    if impl['kind'] == 'lwok':
        return 'LIOk'
    if impl['kind'] == 'dsl':
        return '(LIErr %s)' % clist(impl['locs'], c_loc)
    return '(LIExc %s)' % cstr(impl['type'])


# ------------------------------------------------------------------ generator
STEP_NAMES = ['a', 'b', 'c', 'gen', 'a-I', 'b-I', 'stage1.b', 'stage0.a', 'a-II', 'stage1.gen', 'x_y', 'c.d']
PARAM_NAMES = ['p', 'q', 'r', 'msg', 'in.put', 'o-p', 'x', 'y']
WORDS = ['cat', 'run', '-n', 'hello world', 'v1.2', 'x', 'out_dir', '--flag', 'abc-def', '42']
FILES = [['out.txt'], ['d', 'f.dat'], ['results'], []]
NUMS = [0, 7, 42, -3, 1.5, 0.0, 2.25]
ENVS = [{}, {'A': 'b'}, {'DEFAULTS': 'PATH', 'WHO': 'me'}, {'OMP_NUM_THREADS': '4'}]
# variables whose value is meaningful although "falsy" / not a string: two environments that differ in nothing but such
# a variable are DIFFERENT environments (the compiler shares one FlowIR environment between components whose
# dictionaries are equal); each namespace draws most of its dictionaries from ONE family base + extension
ENV_EXTRAS = [('CUDA_VISIBLE_DEVICES', ''), ('PYTHONHASHSEED', 0), ('DEBUG', False), ('EMPTY', ''), ('N', 0),
              ('RATE', 0.0), ('Z', '0'), ('VERBOSE', True), ('LEVEL', 1), ('A', ''), ('A', 'B')]
KEY_OUTPUT_NAMES = ['energies', 'k', 'out-1', 'table', 'Model', 'x.y']


def near_envs(envs):
    """coverage: two of the dictionaries are different but equal once the variables with an empty / zero / false value
    are left out"""
    keys = set(json.dumps(d, sort_keys=True) for d in envs if d)
    trimmed = set(json.dumps({k: v for k, v in json.loads(x).items() if v}, sort_keys=True) for x in keys)
    return len(trimmed) < len(keys)


class Gen(object):
    """bottom-up typed generation.  A parameter has a kind:
         'text'            literal text (maybe containing complete references)
         ('ref', 'comp')   a partial reference to a component instance
         ('ref', T)        a partial reference to an instance of the workflow template T"""

    def __init__(self, rng, depth):
        self.rng = rng
        self.depth = depth
        self.templates = {}     # name -> dict(kind, level, params=[(name, kind, default)], ...)
        self.env_base = dict(rng.choice(ENVS[1:]))
        self.comps = []
        self.wfs = []

    def lit(self):
        return L(' ' + self.rng.choice(WORDS) + ' ')

    def text_default(self, entry=False):
        """a declared default of a text parameter: literal text, a number, (entry instance only) null"""
        x = self.rng.random()
        if x < 0.25:
            return [V(self.rng.choice(NUMS))]
        if entry and x < 0.35:
            return [V(None)]
        return [L(self.rng.choice(WORDS))]

    def env_value(self):
        r = self.rng
        if r.random() < 0.55:
            # the family of this namespace: its base, alone or extended by one or two variables (mostly falsy ones)
            d = dict(self.env_base)
            for _ in range(r.choice([0, 1, 1, 1, 2])):
                k, v = r.choice(ENV_EXTRAS[:6] if r.random() < 0.7 else ENV_EXTRAS)
                d[k] = v
            if r.random() < 0.3:
                d = dict(reversed(list(d.items())))     # the order of the keys is not part of the environment
            return [V(d)]
        return [V(dict(r.choice(ENVS)))]

    def gen_component(self, name):
        r = self.rng
        n = r.choice([0, 1, 1, 2, 2, 3, 2])
        names = r.sample(PARAM_NAMES, n)
        params = []
        args = [L(r.choice(WORDS))]
        for pn in names:
            kind = r.choice(['text', 'text', ('ref', 'comp'), 'cref'])
            default = None
            if kind == 'text' and r.random() < 0.4:
                default = self.text_default()
            params.append((pn, kind, default))
            if kind == 'text':
                if r.random() < 0.85:
                    args += [L(' '), P(pn)]
            elif kind == 'cref':
                args += [L(' '), P(pn)]
            else:
                args += [L(' '), PO(pn, [], r.choice(METHODS[:2]))]
                if r.random() < 0.2:
                    args += [L(' '), PO(pn, [], r.choice(METHODS))]
        cvars = []
        if r.random() < 0.4:
            # the component's own VARIABLES: private names, or (legal: no parameter of the component itself is
            # shadowed) names that parameters of CALLING workflows may carry -- a reference in an argument of a step
            # belongs to the caller's scope, a reference in the component's fields to the component's variable
            if r.random() < 0.7:
                free = [x for x in PARAM_NAMES if x not in names]
                cvars = r.sample(free, min(len(free), r.choice([1, 1, 2])))
            else:
                cvars = [r.choice(['v', 'w.z'])]
            for v in cvars:
                args += [L(' '), P(v)]
        if r.random() < 0.5:
            args.append(self.lit())
        envp = None
        if r.random() < 0.3:
            # a dictionary parameter that becomes the environment of the task (command.environment: "%(envp)s")
            envp = r.choice([x for x in PARAM_NAMES + ['env', 'e.v'] if x not in names and x not in cvars])
            params.insert(r.randrange(len(params) + 1), (envp, 'dict', self.env_value() if r.random() < 0.5 else None))
        t = {'kind': 'c', 'level': 0, 'name': name, 'params': params, 'vars': cvars, 'args': args, 'envp': envp}
        self.templates[name] = t
        self.comps.append(t)

    # paths from an instance of template tname down to component steps: list of (path, )
    def comp_paths(self, tname, limit=2):
        t = self.templates[tname]
        if t['kind'] == 'c':
            return [[]]
        out = []
        if limit == 0:
            return out
        for s, tn in t['steps']:
            for p in self.comp_paths(tn, limit - 1):
                out.append([s] + p)
        return out

    def vars_below(self, tname, limit=4):
        """names of the variables of the components instantiated (at any depth) below an instance of tname"""
        t = self.templates[tname]
        if t['kind'] == 'c':
            return set(t['vars'])
        out = set()
        if limit:
            for _s, tn in t['steps']:
                out |= self.vars_below(tn, limit - 1)
        return out

    def param_names(self, steps):
        """names of the parameters of a new workflow; half of the time one of them is the name of a VARIABLE of a
        component below one of its steps (name collision across scopes)"""
        r = self.rng
        names = r.sample(PARAM_NAMES, r.choice([0, 1, 2, 2, 3]))
        below = sorted(set().union(*[self.vars_below(tn) for _s, tn in steps]) & set(PARAM_NAMES)) if steps else []
        collide = None
        if below and r.random() < 0.5:
            collide = r.choice(below)
            if collide not in names:
                names = names[:-1] + [collide] if names and r.random() < 0.5 else names + [collide]
        return names, collide

    def gen_workflow(self, name, level, entry=False):
        r = self.rng
        lower = [t for t in self.templates.values() if t['level'] < level]
        nsteps = r.choice([1, 2, 2, 3, 3, 4])
        snames = r.sample(STEP_NAMES, nsteps)
        steps = []
        for i, s in enumerate(snames):
            pool = ([t for t in lower if t['level'] == level - 1] or lower) if (i == 0 and level > 1) else lower
            if r.random() < 0.55:
                pool = [t for t in pool if t['kind'] == 'c'] or pool
            steps.append((s, r.choice(pool)['name']))
        # parameters of this workflow
        params = []
        pnames, collide = self.param_names(steps)
        if not entry:
            for pn in pnames:
                kr = r.random()
                if pn == collide and kr < 0.8:
                    kr = 0.3        # text: forwarded inside the arguments of steps
                if kr < 0.12:
                    kind = 'dict'
                elif kr < 0.5:
                    kind = 'text'
                elif kr < 0.8 or not self.wfs:
                    kind = ('ref', 'comp')
                else:
                    kind = ('ref', r.choice(self.wfs)['name'])
                    if not self.comp_paths(kind[1]):
                        kind = ('ref', 'comp')
                default = self.text_default() if (kind == 'text' and r.random() < 0.35) else None
                if kind == 'dict' and r.random() < 0.35:
                    default = self.env_value()
                params.append((pn, kind, default))
        else:
            # the ENTRY template: text (string / number / null) and dictionary parameters, defaulted or not
            for pn in pnames:
                if r.random() < (0.3 if pn != collide else 0.1):
                    params.append((pn, 'dict', self.env_value() if r.random() < 0.5 else None))
                else:
                    params.append((pn, 'text', self.text_default(entry=True) if r.random() < 0.5 else None))
        execs = []
        for i, (s, tn) in enumerate(steps):
            t = self.templates[tn]
            earlier = steps[:i]
            args = []
            coll = [x for x, k, _d in params if k == 'text' and x in self.vars_below(tn)]
            for pn, kind, default in t['params']:
                v = self.supply(kind, params, earlier)
                if kind == 'text' and coll and r.random() < 0.5:
                    # forward the parameter whose name a variable of a component below this step carries
                    c = r.choice(coll)
                    v = r.choice([[P(c)], [self.lit(), P(c)], [P(c), L(' '), self.lit()]])
                if v is None:
                    if kind == 'text':
                        v = [self.lit()]
                    else:
                        return None     # cannot satisfy a reference parameter here
                if kind in ('text', 'dict') and default is not None and r.random() < 0.5:
                    continue            # defaulted
                if kind == 'text' and default is not None and r.random() < 0.3:
                    v = [L('')]         # an explicitly supplied EMPTY argument must still override the default
                if kind == 'dict' and default is not None and r.random() < 0.3:
                    v = [V({})]         # ... and so must an explicitly supplied EMPTY dictionary
                args.append((pn, v))
            r.shuffle(args)
            execs.append((s, args))
        r.shuffle(execs)
        t = {'kind': 'w', 'level': level, 'name': name, 'params': params, 'steps': steps, 'exec': execs}
        self.templates[name] = t
        self.wfs.append(t)
        return t

    def partial_sources(self, shape, params, earlier):
        """token lists denoting a partial reference of the given shape"""
        out = []
        for s, tn in earlier:
            t = self.templates[tn]
            if shape == 'comp':
                if t['kind'] == 'c':
                    out.append([O([s])])
                else:
                    for p in self.comp_paths(tn):
                        out.append([O([s] + p)])
            elif tn == shape:
                out.append([O([s])])
        for pn, kind, _d in params:
            if isinstance(kind, tuple):
                if kind[1] == shape:
                    out.append([P(pn)])
                elif shape == 'comp' and kind[1] != 'comp':
                    for p in self.comp_paths(kind[1]):
                        out.append([PO(pn, p, None)])
        return out

    def complete_ref(self, params, earlier):
        src = self.partial_sources('comp', params, earlier)
        if not src:
            return None
        t = self.rng.choice(src)[0]
        f = self.rng.choice(FILES)
        m = self.rng.choice(METHODS)
        if t[0] == 'O':
            return O(list(t[1]) + f, m)
        if t[0] == 'P':
            return PO(t[1], f, m)
        return PO(t[1], list(t[2]) + f, m)

    def supply(self, kind, params, earlier):
        r = self.rng
        if isinstance(kind, tuple):
            src = self.partial_sources(kind[1], params, earlier)
            return r.choice(src) if src else None
        if kind == 'cref':
            c = self.complete_ref(params, earlier)
            return [c] if c else None
        if kind == 'dict':
            dicts = [pn for pn, k, _d in params if k == 'dict']
            if dicts and r.random() < 0.75:
                return [P(r.choice(dicts))]     # forwarded whole
            return self.env_value()
        texts = [pn for pn, k, _d in params if k == 'text']
        if r.random() < 0.08:
            return [V(r.choice(NUMS))]          # a number written as such in the arguments of a step
        if texts and r.random() < 0.08:
            return [P(r.choice(texts))]         # a (possibly typed) parameter forwarded whole
        v = []
        for _ in range(r.choice([1, 1, 2, 3])):
            x = r.random()
            if x < 0.35 and texts:
                v.append(P(r.choice(texts)))
            elif x < 0.55:
                c = self.complete_ref(params, earlier)
                v.append(c if c else self.lit())
            else:
                v.append(self.lit())
            v.append(L(' '))
        return v[:-1]


def strip(ns_templates, entry, eargs, sp, override=None, outputs=None):
    wfs, comps = [], []
    for t in ns_templates:
        ps = [(n, d) for n, _k, d in t['params']]
        if t['kind'] == 'w':
            wfs.append({'name': t['name'], 'params': ps, 'steps': list(t['steps']), 'exec': list(t['exec'])})
        else:
            comps.append({'name': t['name'], 'params': ps, 'vars': list(t['vars']), 'args': list(t['args']),
                          'envp': t.get('envp')})
    kinds = {t['name']: {n: (k if isinstance(k, str) else 'ref') for n, k, _d in t['params']} for t in ns_templates}
    return {'entry': entry, 'eargs': eargs, 'wfs': wfs, 'comps': comps, 'sp': sp, 'kinds': kinds, 'override': override,
            'outputs': list(outputs or [])}


def instance_locations(ns, limit=6):
    """(locations of the component instances, locations of the workflow instances) below the entry instance --
    a plain walk over steps, used to aim key outputs (the flattener decides what is valid)"""
    tm = {t['name']: t for t in ns['wfs'] + ns['comps']}
    comps, wfs = [], []

    def walk(loc, tn, depth):
        t = tm.get(tn)
        if t is None or depth > limit:
            return
        if 'steps' not in t:
            comps.append(loc)
            return
        wfs.append(loc)
        for s, x in t['steps']:
            walk(loc + (s,), x, depth + 1)
    walk(('entry-instance',), ns['entry'], 0)
    return comps, wfs


def key_output(rng, loc):
    return O(list(loc) + rng.choice(FILES), rng.choice(METHODS[:2]))


def gen_outputs(ns, rng):
    """0-3 key outputs produced by component instances at any depth (the same instance may produce several)"""
    comps, _w = instance_locations(ns)
    names = rng.sample(KEY_OUTPUT_NAMES, rng.choice([1, 1, 2, 3]))
    return [(n, key_output(rng, rng.choice(comps))) for n in names] if comps else []


def gen_namespace(rng):
    for _try in range(50):
        depth = rng.choice([1, 2, 2, 3, 3, 4, 4])
        g = Gen(rng, depth)
        for i in range(rng.choice([1, 2, 2, 3])):
            g.gen_component(['ca', 'cb', 'cc'][i])
        k = 0
        ok = True
        for level in range(1, depth):
            for _ in range(rng.choice([1, 1, 2])):
                for _t in range(10):
                    if g.gen_workflow('w' + 'abcdefghijklmnop'[k], level) is not None:
                        break
                else:
                    ok = False
                k += 1
        if not ok:
            continue
        e = None
        for _t in range(10):
            e = g.gen_workflow('main', depth, entry=True)
            if e is not None:
                break
        if e is None:
            continue
        def entry_value(kind):
            if kind == 'dict':
                return g.env_value()
            x = rng.random()
            if x < 0.2:
                return [V(rng.choice(NUMS))]
            if x < 0.27:
                return [V(None)]
            if x < 0.32:
                return [L('')]
            return [L(rng.choice(WORDS))]
        # where the value of a parameter of the entry instance comes from: its declared default,
        # entrypoint.execute[0].args, or override_entrypoint_args (which wins)
        override = None
        if rng.random() < 0.3:
            override = [(pn, entry_value(k)) for pn, k, _d in e['params'] if rng.random() < 0.6]
            rng.shuffle(override)
        eargs = []
        for pn, k, d in e['params']:
            overridden = override is not None and pn in dict(override)
            if (d is None and not (overridden and rng.random() < 0.5)) or rng.random() < 0.5:
                eargs.append((pn, entry_value(k)))
        order = g.wfs[:]
        rng.shuffle(order)
        comps = g.comps[:]
        rng.shuffle(comps)
        ns = strip(order + comps, 'main', eargs, rng.choice([0, 0, 1, 2, 3, 5, 6, 7]), override)
        if rng.random() < 0.35:
            ns['outputs'] = gen_outputs(ns, rng)
        return ns
    raise RuntimeError('generator failed')


def var_collisions(ns):
    """coverage counters: a component VARIABLE carries the name of a parameter of a calling workflow"""
    tm = {t['name']: t for t in ns['wfs'] + ns['comps']}

    def below(tn, limit=5):
        t = tm.get(tn)
        if t is None:
            return set()
        if 'steps' not in t:
            return set(t['vars'])
        return set().union(*[below(x, limit - 1) for _s, x in t['steps']]) if limit and t['steps'] else set()
    out = set()
    for w in reachable_wfs(ns):
        pn = set(p[0] for p in w['params'])
        steps = dict(w['steps'])
        for tg, args in w['exec']:
            b = below(steps.get(tg)) & pn
            if not b:
                continue
            out.add('a component variable is called like a parameter of a workflow on its call chain')
            if any(t[0] in ('P', 'PO') and t[1] in b for _n, v in args for t in v):
                out.add('... and that parameter is referenced in the arguments passed towards the component')
                if 'steps' in tm.get(steps.get(tg), {}):
                    out.add('... through at least one intermediate workflow')
    return sorted(out)


def reachable_wfs(ns):
    t = {w['name']: w for w in ns['wfs']}
    seen, todo = [], [ns['entry']]
    while todo:
        n = todo.pop()
        if n in t and n not in seen:
            seen.append(n)
            todo += [tn for _s, tn in t[n]['steps']]
    return [t[n] for n in seen]


KINDS = ['unknown_template', 'cycle', 'missing_arg', 'unknown_arg', 'unknown_param', 'non_sibling',
         'not_executed', 'no_step', 'dup_template', 'unknown_entry', 'ref_to_workflow',
         'dangling_in_workflow', 'digit_name', 'dup_execute', 'entry_unknown_arg', 'entry_ref',
         'override_unknown', 'entry_missing_arg',
         # value KINDS in string context: a dictionary spliced into a longer string (in the arguments a workflow passes
         # to a step / in a field of a component), a dictionary supplied where the text is interpolated further down
         'dict_spliced_args', 'dict_spliced_component', 'dict_for_text',
         # parameter references in places that have NO enclosing parameter scope: the arguments of the entry instance
         # (entrypoint.execute[0].args / override_entrypoint_args; user variables: see _conf_mode(fault='ref'))
         'entry_param_ref', 'override_param_ref',
         # ... and the sibling one level down: a step refers to a parameter although its parent workflow has NONE
         'noparam_parent_ref',
         # key outputs (entrypoint.output): a data-in that is a well formed absolute reference but leads to no component
         # instance -- a misspelt step at any depth, a workflow instance (the entry instance itself, a nested one,
         # with or without a file below it), a reference that is not absolute -- and two outputs with one name
         'output_unknown_step', 'output_to_workflow', 'output_not_absolute', 'output_dup_name']


def scopeless_value(ns, rng, dict_param=False):
    """a value that refers to a parameter: an unknown name, a parameter of the entry template ITSELF, a parameter of
    a workflow further down; alone, inside more text, twice, or extended like a reference"""
    own = [p[0] for t in ns['wfs'] + ns['comps'] if t['name'] == ns['entry'] for p in t['params']]
    deeper = sorted(set(p[0] for w in ns['wfs'] if w['name'] != ns['entry'] for p in w['params']))
    pools = [['nosuchparam', 'user', 'p.q', 'salutation']] + ([own] if own else []) + ([deeper] if deeper else [])
    x = rng.choice(rng.choice(pools))
    if dict_param:
        return [P(x)]
    return rng.choice([[P(x)], [L('x '), P(x)], [P(x), L(' tail')], [L('a '), P(x), L(' b')], [P(x), L(' '), P(x)],
                       [L('say '), P(x), L(' and '), P(rng.choice(pools[0]))],
                       [PO(x, ['out.txt'], 'ref')], [L('cat '), PO(x, [], 'output')]])


def splice(rng, d, text=None):
    """a value that mixes the reference to the (dictionary) parameter d with more text"""
    shapes = [[L('--env '), P(d)], [P(d), L(' tail')], [L('a '), P(d), L(' b')], [L('x='), P(d), P(d)]]
    if text is not None:
        shapes += [[P(text), L(' '), P(d)], [P(d), L(' '), P(text)]]
    return rng.choice(shapes)


def mutate(ns, rng, kind=None):
    """single-fault mutant of a valid namespace -> (namespace, fault class) or None"""
    ns = _norm(ns)
    rw = reachable_wfs(ns)
    w = rng.choice(rw)
    kind = kind or rng.choice(KINDS)
    tmap = {t['name']: t for t in ns['wfs'] + ns['comps']}
    ei = rng.randrange(len(w['exec']))
    tg, args = w['exec'][ei]
    steps = dict(w['steps'])
    if kind == 'unknown_template':
        i = rng.randrange(len(w['steps']))
        w['steps'][i] = (w['steps'][i][0], 'nosuch')
    elif kind == 'cycle':
        i = rng.randrange(len(w['steps']))
        w['steps'][i] = (w['steps'][i][0], rng.choice([w['name'], 'main']))
    elif kind == 'missing_arg':
        req = [a for a in args if dict(tmap[steps[tg]]['params']).get(a[0], 0) is None]
        if not req:
            return None
        args.remove(rng.choice(req))
    elif kind == 'unknown_arg':
        args.append(('zz', [L('v')]))
    elif kind == 'unknown_param':
        texts = [p for p, k in ns['kinds'].get(steps[tg], {}).items() if k == 'text']
        if not texts:
            return None
        pn = rng.choice(texts)
        w['exec'][ei] = (tg, [a for a in args if a[0] != pn] + [(pn, [L('x '), P('nosuchparam')])])
    elif kind in ('non_sibling', 'ref_to_workflow', 'dangling_in_workflow'):
        texts = [p for p, k in ns['kinds'].get(steps[tg], {}).items() if k == 'text']
        if not texts:
            return None
        pn = rng.choice(texts)
        if kind == 'non_sibling':
            ref = O(['nosuchstep'], 'ref')
        else:
            wsteps = [s for s, tn in w['steps'] if s != tg and tn in tmap and 'steps' in tmap[tn]]
            if not wsteps:
                return None
            ref = O([rng.choice(wsteps)] + ([] if kind == 'ref_to_workflow' else ['nosuchinner']), 'ref')
        w['exec'][ei] = (tg, [a for a in args if a[0] != pn] + [(pn, [ref])])
    elif kind == 'not_executed':
        del w['exec'][ei]
    elif kind == 'no_step':
        w['exec'].append(('ghost', []))
    elif kind == 'dup_template':
        ns['comps'].append(json.loads(json.dumps(rng.choice(ns['comps']))))
        ns['comps'][-1]['args'] = [_t(t) for t in ns['comps'][-1]['args']]
        ns['comps'][-1]['params'] = [(p[0], None if p[1] is None else [_t(t) for t in p[1]]) for p in ns['comps'][-1]['params']]
    elif kind == 'unknown_entry':
        ns['entry'] = 'nosuchentry'
    elif kind == 'digit_name':
        cs = [i for i, (s, tn) in enumerate(w['steps']) if tn in tmap and 'steps' not in tmap[tn]]
        if not cs:
            return None
        i = rng.choice(cs)
        old = w['steps'][i][0]
        new = old + '7'
        w['steps'][i] = (new, w['steps'][i][1])
        w['exec'] = [((new if e[0] == old else e[0]), [(a[0], [_rename(t, old, new) for t in a[1]]) for a in e[1]])
                     for e in w['exec']]
    elif kind == 'dup_execute':
        w['exec'].append((tg, list(args)))
    elif kind == 'entry_unknown_arg':
        ns['eargs'].append(('zz', [L('v')]))
    elif kind == 'override_unknown':
        ns['override'] = (ns['override'] or []) + [('zz', [rng.choice([L('v'), V(3), V({'A': 'b'})])])]
    elif kind == 'entry_missing_arg':
        e = tmap[ns['entry']]
        req = [p[0] for p in e['params'] if p[1] is None]
        if not req:
            return None
        pn = rng.choice(req)
        ns['eargs'] = [a for a in ns['eargs'] if a[0] != pn]
        if ns['override'] is not None:
            ns['override'] = [a for a in ns['override'] if a[0] != pn]
    elif kind == 'dict_spliced_args':
        # a workflow (any depth) splices one of its dictionary parameters into the text it passes to a step
        cands = []
        for w2 in rw:
            k2 = ns['kinds'].get(w2['name'], {})
            dicts = [p for p, k in k2.items() if k == 'dict']
            st2 = dict(w2['steps'])
            for i, (tg2, _a) in enumerate(w2['exec']):
                texts = [p for p, k in ns['kinds'].get(st2.get(tg2), {}).items() if k == 'text']
                if dicts and texts:
                    cands.append((w2, i, dicts, texts, [p for p, k in k2.items() if k == 'text']))
        if not cands:
            return None
        w2, i, dicts, texts, wtexts = rng.choice(cands)
        tg2, args2 = w2['exec'][i]
        pn = rng.choice(texts)
        v = splice(rng, rng.choice(dicts), rng.choice(wtexts) if wtexts else None)
        w2['exec'][i] = (tg2, [a for a in args2 if a[0] != pn] + [(pn, v)])
    elif kind == 'dict_spliced_component':
        # a component splices its dictionary parameter (its environment) into command.arguments
        used = set(tn for w2 in rw for _s, tn in w2['steps'])
        cs = [c for c in ns['comps'] if c.get('envp') and c['name'] in used]
        if not cs:
            return None
        c = rng.choice(cs)
        texts = [p for p, k in ns['kinds'].get(c['name'], {}).items() if k == 'text']
        v = splice(rng, c['envp'], rng.choice(texts) if texts else None)
        c['args'] = (c['args'] + [L(' ')] + v) if rng.random() < 0.6 else (v + [L(' ')] + c['args'])
    elif kind == 'dict_for_text':
        # a dictionary is supplied (entrypoint arguments / override / the arguments of a step) for a parameter whose
        # value is interpolated into text further down the call chain: the specification decides
        d = [V(dict(rng.choice(ENVS)))]
        e = tmap[ns['entry']]
        etexts = [p for p, k in ns['kinds'].get(ns['entry'], {}).items() if k == 'text']
        texts = [p for p, k in ns['kinds'].get(steps[tg], {}).items() if k == 'text']
        if etexts and (not texts or rng.random() < 0.5):
            pn = rng.choice(etexts)
            if ns['override'] is not None and rng.random() < 0.5:
                ns['override'] = [a for a in ns['override'] if a[0] != pn] + [(pn, d)]
            else:
                ns['eargs'] = [a for a in ns['eargs'] if a[0] != pn] + [(pn, d)]
                if ns['override'] is not None:
                    ns['override'] = [a for a in ns['override'] if a[0] != pn]
        elif texts:
            pn = rng.choice(texts)
            w['exec'][ei] = (tg, [a for a in args if a[0] != pn] + [(pn, d)])
        else:
            return None
    elif kind in ('entry_param_ref', 'override_param_ref'):
        e = tmap[ns['entry']]
        if not e['params']:
            return None
        pn = rng.choice(e['params'])[0]
        v = scopeless_value(ns, rng, ns['kinds'].get(ns['entry'], {}).get(pn) == 'dict')
        if kind == 'entry_param_ref':
            ns['eargs'] = [a for a in ns['eargs'] if a[0] != pn] + [(pn, v)]
            if ns['override'] is not None:
                ns['override'] = [a for a in ns['override'] if a[0] != pn]
        else:
            ns['override'] = [a for a in (ns['override'] or []) if a[0] != pn] + [(pn, v)]
            rng.shuffle(ns['override'])
    elif kind == 'noparam_parent_ref':
        cands = [(w2, i) for w2 in rw if not w2['params'] for i, (tg2, _a) in enumerate(w2['exec'])
                 if [p for p, k in ns['kinds'].get(dict(w2['steps']).get(tg2), {}).items() if k == 'text']]
        if not cands:
            return None
        w2, i = rng.choice(cands)
        tg2, args2 = w2['exec'][i]
        pn = rng.choice([p for p, k in ns['kinds'].get(dict(w2['steps'])[tg2], {}).items() if k == 'text'])
        w2['exec'][i] = (tg2, [a for a in args2 if a[0] != pn] + [(pn, scopeless_value(ns, rng))])
    elif kind.startswith('output_'):
        comps, wfs = instance_locations(ns)
        if not comps:
            return None
        if not ns['outputs']:
            ns['outputs'] = gen_outputs(ns, rng)
        i = rng.randrange(len(ns['outputs']))
        name = ns['outputs'][i][0]
        loc = list(rng.choice(comps))
        if len(loc) < 2:
            return None
        if kind == 'output_unknown_step':
            j = rng.randrange(1, len(loc))
            loc[j] = rng.choice([loc[j] + 'x', loc[j] + 'd', 'nosuchstep', loc[j][:-1] or 'q', loc[j].upper()])
            if rng.random() < 0.3:
                loc = loc[:j + 1]       # ... and nothing below the misspelt step
            bad = key_output(rng, loc)
        elif kind == 'output_to_workflow':
            wl = list(rng.choice(wfs))
            bad = O(wl + rng.choice([[], [], ['out.txt'], ['nosuchinner', 'f.dat'], ['results']]), rng.choice(METHODS[:2]))
        elif kind == 'output_not_absolute':
            if len(loc) < 2:
                return None
            bad = key_output(rng, loc[1:] if rng.random() < 0.7 else ['entry'] + loc[1:])
        else:
            bad = key_output(rng, loc)
            name = rng.choice([n for n, _t in ns['outputs']])
            ns['outputs'].insert(rng.randrange(len(ns['outputs']) + 1), (name, bad))
            return ns, kind
        ns['outputs'][i] = (name, bad)
    elif kind == 'entry_ref':
        e = tmap[ns['entry']]
        if not e['params']:
            return None
        pn = e['params'][0][0]
        ns['eargs'] = [a for a in ns['eargs'] if a[0] != pn] + [(pn, [O(['a'], 'ref')])]
        if ns['override'] is not None:
            ns['override'] = [a for a in ns['override'] if a[0] != pn]
    return ns, kind


def _t(t):
    t = list(t)
    if t[0] == 'O':
        return ('O', tuple(t[1]), t[2])
    if t[0] == 'PO':
        return ('PO', t[1], tuple(t[2]), t[3])
    return tuple(t)


def _rename(t, old, new):
    if t[0] == 'O' and t[1] and t[1][0] == old:
        return ('O', (new,) + tuple(t[1][1:]), t[2])
    return t


def _norm(ns):
    """JSON form -> internal form (tuples)"""
    ns = json.loads(json.dumps(ns))
    for w in ns['wfs']:
        w['steps'] = [tuple(s) for s in w['steps']]
        w['exec'] = [(e[0], [(a[0], [_t(t) for t in a[1]]) for a in e[1]]) for e in w['exec']]
        w['params'] = [(p[0], None if p[1] is None else [_t(t) for t in p[1]]) for p in w['params']]
    for c in ns['comps']:
        c['args'] = [_t(t) for t in c['args']]
        c['params'] = [(p[0], None if p[1] is None else [_t(t) for t in p[1]]) for p in c['params']]
    ns['eargs'] = [(a[0], [_t(t) for t in a[1]]) for a in ns['eargs']]
    ns['override'] = None if ns.get('override') is None else [(a[0], [_t(t) for t in a[1]]) for a in ns['override']]
    for c in ns['comps']:
        c.setdefault('envp', None)
    ns['outputs'] = [(o[0], _t(o[1])) for o in ns.get('outputs') or []]
    return ns


# ------------------------------------------------------------------ corpus: witnesses of the repaired defects
def _c(name, params, args, cvars=()):
    return {'name': name, 'params': params, 'vars': list(cvars), 'args': args}


def _ce(name, params, args, envp):
    return {'name': name, 'params': params, 'vars': [], 'args': args, 'envp': envp}


def _w(name, params, steps, execs):
    return {'name': name, 'params': params, 'steps': steps, 'exec': execs}


CORPUS = [
    # F6 (fixed): steps a, a, a-I in three workflows
    ('F6_a_a_aI', {'entry': 'main', 'eargs': [], 'sp': 0,
                   'wfs': [_w('main', [], [('a', 'c'), ('w', 'wa'), ('v', 'wb')], [('a', []), ('w', []), ('v', [])]),
                           _w('wa', [], [('a', 'c')], [('a', [])]), _w('wb', [], [('a-I', 'c')], [('a-I', [])])],
                   'comps': [_c('c', [], [L('hi')])]}),
    # F6 (fixed): stage0.foo next to foo
    ('F6_stage0', {'entry': 'main', 'eargs': [], 'sp': 0,
                   'wfs': [_w('main', [], [('stage0.foo', 'c'), ('foo', 'c')], [('stage0.foo', []), ('foo', [])])],
                   'comps': [_c('c', [], [L('hi')])]}),
    # F6b (fixed): component step whose name ends with a digit
    ('F6b_digit', {'entry': 'main', 'eargs': [], 'sp': 0,
                   'wfs': [_w('main', [], [('a1', 'c')], [('a1', [])])], 'comps': [_c('c', [], [L('hi')])]}),
    # F6c (fixed): complete reference to a sibling workflow step / into it without reaching a component
    ('F6c_wfref', {'entry': 'main', 'eargs': [], 'sp': 0,
                   'wfs': [_w('main', [], [('x', 'c'), ('w', 'wa'), ('k', 'cc')],
                              [('x', []), ('w', []), ('k', [('p', [O(['w'], 'ref')])])]),
                           _w('wa', [], [('y', 'c')], [('y', [])])],
                   'comps': [_c('c', [], [L('hi')]), _c('cc', [('p', None)], [L('cat '), P('p')])]}),
    ('F6c_dangling', {'entry': 'main', 'eargs': [], 'sp': 0,
                      'wfs': [_w('main', [], [('x', 'c'), ('w', 'wa'), ('k', 'cc')],
                                 [('x', []), ('w', []), ('k', [('p', [O(['w', 'nonexist'], 'ref')])])]),
                              _w('wa', [], [('y', 'c')], [('y', [])])],
                      'comps': [_c('c', [], [L('hi')]), _c('cc', [('p', None)], [L('cat '), P('p')])]}),
    # tests/test_dsl.py: dsl_step_via_param_more_complex
    ('via_param', {'entry': 'main', 'eargs': [], 'sp': 0,
                   'wfs': [_w('main', [], [('producer', 'inner-produce'), ('consumer', 'inner-consume')],
                              [('producer', []), ('consumer', [('producer', [O(['producer', 'producer'])])])]),
                           _w('inner-produce', [], [('producer', 'generate')], [('producer', [])]),
                           _w('inner-consume', [('producer', None)], [('consumer', 'echo')],
                              [('consumer', [('message', [PO('producer', ['outputs', 'msg.txt'], 'output')])])])],
                   'comps': [_c('generate', [], [L('-c hi')]), _c('echo', [('message', None)], [P('message')])]}),
    # value kinds on the ENTRY template: a dictionary (declared default) forwarded whole through a nested workflow to
    # the environment of the tasks, a number, a null; the FlowIR must validate (no dictionary / null global variable)
    ('entry_dict_default', {'entry': 'main', 'eargs': [('n', [V(0)])], 'sp': 0,
                            'wfs': [_w('main', [('env', [V({})]), ('n', None), ('s', [V(None)]), ('t', [L('hi')])],
                                       [('first', 'say'), ('nested', 'inner')],
                                       [('first', [('env', [P('env')]), ('msg', [P('t'), L(' '), P('n'), L(' '), P('s')])]),
                                        ('nested', [('env', [P('env')]), ('src', [O(['first'])]), ('n', [P('n')])])]),
                                    _w('inner', [('env', None), ('src', None), ('n', None)], [('second', 'say'), ('third', 'say')],
                                       [('second', [('env', [P('env')]), ('msg', [P('n'), L(' '), PO('src', [], 'output')])]),
                                        ('third', [('msg', [O(['second'], 'ref')])])])],
                            'comps': [_ce('say', [('msg', None), ('env', [V({'DEFAULTS': 'PATH', 'WHO': 'me'})])],
                                          [L('echo '), P('msg')], 'env')]}),
    ('entry_dict_eargs', {'entry': 'main', 'eargs': [('env', [V({'A': 'b'})]), ('n', [V(1.5)])], 'sp': 0,
                          'wfs': [_w('main', [('env', None), ('n', [V(3)])], [('first', 'say')],
                                     [('first', [('env', [P('env')]), ('msg', [P('n')])])])],
                          'comps': [_ce('say', [('msg', None), ('env', None)], [L('echo '), P('msg')], 'env')]}),
    ('entry_dict_override', {'entry': 'main', 'eargs': [('n', [L('x')])], 'sp': 0,
                             'override': [('env', [V({'A': 'b'})]), ('n', [V(7)])],
                             'wfs': [_w('main', [('env', None), ('n', None)], [('first', 'say')],
                                        [('first', [('env', [P('env')]), ('msg', [L('-n '), P('n')])])])],
                             'comps': [_ce('say', [('msg', None), ('env', [V({})])], [L('echo '), P('msg')], 'env')]}),
    # the entry template is a Component with a dictionary parameter
    ('entry_component_dict', {'entry': 'say', 'eargs': [('msg', [V(42)])], 'sp': 0, 'override': [('env', [V({'A': 'b'})])],
                              'wfs': [], 'comps': [_ce('say', [('msg', None), ('env', [V({})])], [L('echo '), P('msg')], 'env')]}),
    # references in the arguments of a step belong to the CALLER's scope: the component that receives them has a
    # VARIABLE with the name of the parameter of the calling workflows (two levels, forwarded / mixed with text)
    ('var_collision', {'entry': 'main', 'eargs': [('greeting', [L('hello')])], 'sp': 0,
                       'wfs': [_w('main', [('greeting', [L('dflt')])], [('first', 'echo'), ('inner', 'nested')],
                                  [('first', [('message', [P('greeting')])]),
                                   ('inner', [('greeting', [P('greeting'), L(' forwarded')])])]),
                               _w('nested', [('greeting', None)], [('second', 'echo'), ('plain', 'pecho')],
                                  [('second', [('message', [L('nested says '), P('greeting')])]),
                                   ('plain', [('message', [P('greeting')])])])],
                       'comps': [_c('echo', [('message', None)], [P('message'), L(' - '), P('greeting')], ['greeting']),
                                 _c('pecho', [('message', None)], [P('message')])]}),
    # value kinds in string context: a dictionary forwarded whole through two workflow levels (valid; the component
    # has a variable called like the workflows' parameter) ...
    ('dict_whole_chain', {'entry': 'main', 'eargs': [('env', [V({'MODE': 'fast', 'THREADS': '4'})])], 'sp': 0,
                          'wfs': [_w('main', [('env', None)], [('inner', 'nested')], [('inner', [('env', [P('env')])])]),
                                  _w('nested', [('env', None)], [('run', 'runner')],
                                     [('run', [('environment', [P('env')]), ('message', [L('hello')])])])],
                          'comps': [dict(_ce('runner', [('environment', None), ('message', None)],
                                             [P('message'), L(' - '), P('env')], 'environment'), vars=['env'])]}),
    # ... spliced into the arguments of the component / into the text a workflow passes to its step (invalid)
    ('dict_spliced_component', {'entry': 'main', 'eargs': [('env', [V({'MODE': 'fast'})])], 'sp': 0,
                                'wfs': [_w('main', [('env', None)], [('inner', 'nested')], [('inner', [('env', [P('env')])])]),
                                        _w('nested', [('env', None)], [('run', 'runner')],
                                           [('run', [('environment', [P('env')]), ('message', [L('hello')])])])],
                                'comps': [_ce('runner', [('environment', None), ('message', None)],
                                              [P('message'), L(' --env '), P('environment')], 'environment')]}),
    ('dict_spliced_args', {'entry': 'main', 'eargs': [], 'sp': 0,
                           'wfs': [_w('main', [('env', [V({'A': 'b'})])], [('inner', 'nested')], [('inner', [('env', [P('env')])])]),
                                   _w('nested', [('env', None)], [('run', 'runner')],
                                      [('run', [('environment', [P('env')]), ('message', [L('running with '), P('env')])])])],
                           'comps': [_ce('runner', [('environment', None), ('message', None)], [P('message')], 'environment')]}),
    # parameter references where NO parameter scope encloses them: the arguments of the entry instance refer to a
    # parameter of the entry template itself (entrypoint.execute[0].args) / to an unknown name nested in text (override);
    # control: one level down, a step of a workflow that has NO parameters refers to one
    ('entry_args_ref_own_param', {'entry': 'main', 'eargs': [('greeting', [L('hello '), P('name')])], 'sp': 0,
                                  'wfs': [_w('main', [('greeting', None), ('name', [L('world')])], [('say', 'echo')],
                                             [('say', [('message', [P('greeting'), L(' '), P('name')])])])],
                                  'comps': [_c('echo', [('message', None)], [P('message')])]}),
    ('override_ref_unknown', {'entry': 'main', 'eargs': [('greeting', [L('hello')])], 'sp': 0,
                              'override': [('name', [L('dear '), P('user'), L('!')])],
                              'wfs': [_w('main', [('greeting', None), ('name', [L('world')])], [('say', 'echo')],
                                         [('say', [('message', [P('greeting'), L(' '), P('name')])])])],
                              'comps': [_c('echo', [('message', None)], [P('message')])]}),
    ('noparam_parent_ref', {'entry': 'main', 'eargs': [], 'sp': 0,
                            'wfs': [_w('main', [], [('inner', 'nested')], [('inner', [])]),
                                    _w('nested', [], [('say', 'echo')], [('say', [('message', [P('greeting')])])])],
                            'comps': [_c('echo', [('message', None)], [P('message')])]}),
    # the environments of sibling / nested instances of ONE component template differ only in variables whose value is
    # empty, zero or false (declared default of a nested workflow, explicit argument, forwarded value): four environments
    ('env_falsy_siblings', {'entry': 'main', 'eargs': [], 'sp': 0,
                            'wfs': [_w('main', [('env', [V({'T': '4'})])], [('one', 'job'), ('sub', 'inner'), ('two', 'job'), ('three', 'job')],
                                       [('one', [('env', [P('env')])]), ('sub', []),
                                        ('two', [('env', [V({'T': '4', 'SEED': 0})])]),
                                        ('three', [('env', [V({'D': False, 'T': '4'})])])]),
                                    _w('inner', [('env', [V({'T': '4', 'GPUS': ''})])], [('post', 'job')],
                                       [('post', [('env', [P('env')])])])],
                            'comps': [_ce('job', [('env', None)], [L('run')], 'env')]}),
    # key outputs: produced by a step of the entry workflow, by a step of a nested workflow (three spellings), twice by
    # one instance; the entry instance is a Component; then the data-in leads to no component instance (misspelt step,
    # a nested workflow instance, a step that does not exist inside it), and two outputs share a name
    ('key_outputs_nested', {'entry': 'main', 'eargs': [], 'sp': 1,
                            'outputs': [('first', O(['entry-instance', 'a', 'out.txt'], 'ref')),
                                        ('deep', O(['entry-instance', 'w', 'a', 'd', 'f.dat'], 'output')),
                                        ('dir', O(['entry-instance', 'w', 'a'], 'ref')),
                                        ('again', O(['entry-instance', 'w', 'b', 'results'], 'output'))],
                            'wfs': [_w('main', [], [('a', 'c'), ('w', 'wa')], [('a', []), ('w', [])]),
                                    _w('wa', [], [('a', 'c'), ('b', 'c')], [('a', []), ('b', [])])],
                            'comps': [_c('c', [], [L('hi')])]}),
    ('key_output_component_entry', {'entry': 'c', 'eargs': [], 'sp': 2,
                                    'outputs': [('k', O(['entry-instance', 'out.txt'], 'output')), ('d', O(['entry-instance'], 'ref'))],
                                    'wfs': [], 'comps': [_c('c', [], [L('hi')])]}),
    ('key_output_misspelt_step', {'entry': 'main', 'eargs': [], 'sp': 0,
                                  'outputs': [('ok', O(['entry-instance', 'a', 'out.txt'], 'ref')),
                                              ('bad', O(['entry-instance', 'w', 'aa', 'out.txt'], 'ref'))],
                                  'wfs': [_w('main', [], [('a', 'c'), ('w', 'wa')], [('a', []), ('w', [])]),
                                          _w('wa', [], [('a', 'c')], [('a', [])])],
                                  'comps': [_c('c', [], [L('hi')])]}),
    ('key_output_to_workflow', {'entry': 'main', 'eargs': [], 'sp': 0,
                                'outputs': [('bad', O(['entry-instance', 'w', 'out.txt'], 'output'))],
                                'wfs': [_w('main', [], [('a', 'c'), ('w', 'wa')], [('a', []), ('w', [])]),
                                        _w('wa', [], [('a', 'c')], [('a', [])])],
                                'comps': [_c('c', [], [L('hi')])]}),
    ('key_output_dup_name', {'entry': 'main', 'eargs': [], 'sp': 0,
                             'outputs': [('k', O(['entry-instance', 'a', 'out.txt'], 'ref')), ('k', O(['entry-instance', 'a'], 'ref'))],
                             'wfs': [_w('main', [], [('a', 'c')], [('a', [])])], 'comps': [_c('c', [], [L('hi')])]}),
    # F6e (open): the only component step carries stage 1 -- compiles and validates, cannot be loaded
    ('F6e_stage_gap', {'entry': 'main', 'eargs': [], 'sp': 0,
                       'wfs': [_w('main', [], [('stage1.b', 'c')], [('stage1.b', [])])], 'comps': [_c('c', [], [L('hi')])]}),
]


# ------------------------------------------------------------------ run
def c_spec(want):
    """what the Python flattener returned, as a Coq term of type option (list py_out) of coq/Dsl/Spec.v"""
    if want is None:
        return 'None'
    return '(Some %s)' % clist(sorted(want), lambda l: '(%s, %s, %s)' % (
        clist(l, cstr), c_val(want[l][0]),
        clist(sorted(want[l][1]), lambda r: '(%s, %s, %s)' % (clist(r[0], cstr), clist(r[1], cstr), cstr(r[2])))))


def stage_gap(want):
    """class of finding F6e: the stage indexes of the component instances are not 0..k"""
    st = set()
    for l in want:
        m = _NAME.fullmatch(l[-1])
        st.add(int(m.group('stage') or 0) if m else 0)
    return sorted(st) != list(range(len(st)))


def _explore(ctx, cases):
    """cases: (label, ns) compiled directly (with ns['override'] when there is one), or
    (label, ns, ('conf', uservars, validate)) loaded through DSLExperimentConfiguration (uservars: None = no variable
    files, else the (name, value) pairs of the global section of one variables file)"""
    terms, sterms, kept, s_kept = [], [], [], []
    ov_terms, ov_kept, ld_terms, ld_kept, gl_terms, gl_kept = [], [], [], [], [], []
    lw_terms, lw_kept = [], []
    out_terms, out_kept, lwo_terms, lwo_kept = [], [], [], []
    for case in cases:
        label, ns = case[0], case[1]
        mode = case[2] if len(case) > 2 else None
        doc = to_doc(ns)
        lw = mode is not None and mode[0] == 'lw'
        if mode is None or lw:
            ov = ns.get('override')
            impl = (drive_lw if lw else drive)(doc, None if ov is None else [(n, render_value(v)) for n, v in ov])
            eff = effective(ns)
            if lw:
                ctx.count('through lightweight_validate%s' % ('' if ov is None else ' with override_entrypoint_args'))
        else:
            uv = mode[1]
            impl = drive_conf(doc, None if uv is None else {'global': {n: render_value(v) for n, v in uv}}, mode[2])
            eff = effective(ns, uv)
            ctx.count('through DSLExperimentConfiguration: %s variable files, validate=%s'
                      % ('no' if uv is None else 'with', mode[2]))
        try:
            want = spec(eff)
            valid = True
        except Invalid:
            want, valid = None, False
        ninst = len(want) if want else 0
        nrefs = sum(len(v[1]) for v in want.values()) if want else 0
        ctx.count('valid' if valid else 'invalid:' + label.split(':')[0])
        if valid:
            ctx.count('instances=%d' % min(ninst, 8))
            ctx.count('edges=%d' % min(nrefs, 6))
            depth = max(len(l) for l in want) - 1
            ctx.count('depth=%d' % depth)
            steps = [l[-1] for l in want]
            if len(set(steps)) < len(steps):
                ctx.count('duplicate step names')
            if any(v[3] for v in want.values()):
                ctx.count('a component runs in a dictionary environment received through its parameters')
            if near_envs([v[3] for v in want.values() if v[3]]):
                ctx.count('two components run in environments that differ only in empty / zero / false variables')
            if want.outputs:
                ctx.count('key outputs declared')
                if any(len(o[1]) > 2 for o in want.outputs):
                    ctx.count('a key output is produced inside a nested workflow')
            if ns.get('override') is not None:
                ctx.count('override_entrypoint_args given')
            for what in var_collisions(eff):
                ctx.count(what)
            t = [x for x in eff['comps'] + eff['wfs'] if x['name'] == eff['entry']][0]
            dflt = dict(t['params'])
            for n, v in [(n, dict(eff['eargs']).get(n, dflt[n])) for n in dflt]:
                ctx.count('entry parameter value: %s' % tkind(v))
        ctx.case(json.dumps([doc, ns.get('override'), mode], sort_keys=True, default=str),
                 (valid and ninst >= 2 and nrefs >= 1) or not valid)
        ctx.sample({'doc': doc, 'impl': impl}, limit=3)
        why = predicate_lw(eff, impl) if lw else predicate(eff, impl)
        if why == 'INCONCLUSIVE':
            ctx.count('predicate search budget exhausted (correspondence only)')
            why = None
        if why is not None:
            classes = []
            if mode is not None and not lw and valid and stage_gap(want) and impl['kind'] == 'exc':
                classes.append('stage_indexes_not_contiguous')
            ctx.fail({'label': label, 'ns': ns, 'mode': mode, 'doc': doc, 'impl': impl}, why, classes)
            if classes:
                continue    # the loader's answer is the finding; the compiler itself is compared on the direct cases
        outs = ns.get('outputs') or []
        if lw and outs:
            lwo_terms.append('(Some %s, %s, %s, %s)' % (c_ns(ns), copt(ns.get('override'), c_args), c_kouts(outs), c_lw_impl(impl)))
            lwo_kept.append((label, ns, doc, impl, mode))
            continue
        if lw:
            lw_terms.append('(Some %s, %s, %s)' % (c_ns(ns), copt(ns.get('override'), c_args), c_lw_impl(impl)))
            lw_kept.append((label, ns, doc, impl, mode))
            continue
        if outs:
            # key outputs: the compiler model with the key-output block (coq/Dsl/Outputs.v compile_out) on the effective
            # namespace, whatever the entry point; the specification of the COMPONENTS is tied on the namespace without them
            out_terms.append('(Some %s, @None (list (string * value)), %s, %s, %s)' % (
                c_ns(eff), c_kouts(outs), c_impl(impl), clist(impl.get('outputs', []), lambda o: cpair(cstr(o[0]), cstr(o[1])))))
            out_kept.append((label, ns, doc, impl, mode))
            eff = dict(eff, outputs=[])
            try:
                want = spec(eff)
            except Invalid:
                want = None
        elif mode is None and ns.get('override') is None:
            terms.append(cpair(c_ns(ns), c_impl(impl)))
            kept.append((label, ns, doc, impl))
        elif mode is None:
            ov_terms.append('(Some %s, Some %s, %s)' % (c_ns(ns), c_args(ns['override']), c_impl(impl)))
            ov_kept.append((label, ns, doc, impl, mode))
        else:
            ld_terms.append('(%s, Some %s, %s, %s)' % ('true' if mode[2] else 'false', c_ns(ns), c_uvars(mode[1]), c_impl(impl)))
            ld_kept.append((label, ns, doc, impl, mode))
        sterms.append(cpair(c_ns(eff), c_spec(want)))
        s_kept.append((label, eff, doc))
        if mode is None and impl['kind'] == 'ok':
            gl_terms.append(c_globals_case(ns, impl))
            gl_kept.append((label, ns, doc, impl, mode))
    bad = ctx.model_mismatches(HEADER, terms, 'check_case', chunk=40)
    for i in bad:
        label, ns, doc, impl = kept[i]
        model = ctx.model_eval(HEADER, 'compile %s' % c_ns(ns)) if len(ctx.disagreements) < 3 else ''
        ctx.disagree({'label': label, 'ns': ns, 'doc': doc}, impl, model[-1500:],
                     'compile (coq/Dsl/Model.v) = namespace_to_flowir on components/references/arguments/error locations')
    for tms, kp, fn, nm, what in (
            (ov_terms, ov_kept, 'check_ov', 'override',
             'compile_ov (coq/Dsl/Load.v) = namespace_to_flowir(namespace, override_entrypoint_args)'),
            (ld_terms, ld_kept, 'check_load', 'load',
             'load (coq/Dsl/Load.v) = DSLExperimentConfiguration (variable files, validate) on components/references/arguments/error locations'),
            (lw_terms, lw_kept, 'check_lw', 'lightweight',
             'lightweight (coq/Dsl/Load.v: the traversal alone) = lightweight_validate(namespace, override_entrypoint_args) on accept / error locations'),
            (gl_terms, gl_kept, 'check_globals', 'globals',
             'globals (entry_kargs ...) (coq/Dsl/Load.v) = the global variables of the compiled FlowIR (names, kinds, values), all acceptable to the validator')):
        if not tms:
            continue
        bad = ctx.model_mismatches(LOAD_HEADER, tms, fn, chunk=40, name=nm)
        for i in bad:
            label, ns, doc, impl, mode = kp[i]
            ctx.disagree({'label': label, 'ns': ns, 'mode': mode, 'doc': doc}, impl, tms[i][-1200:], what)
    for tms, kp, fn, nm, what in (
            (out_terms, out_kept, 'check_out', 'outputs',
             'compile_out (coq/Dsl/Outputs.v) = namespace_to_flowir on a namespace with key outputs: components, compiled data-in of every output, error locations'),
            (lwo_terms, lwo_kept, 'check_lw_out', 'lwoutputs',
             'lightweight_out (coq/Dsl/Outputs.v) = lightweight_validate on a namespace with key outputs')):
        if not tms:
            continue
        for i in ctx.model_mismatches(OUT_HEADER, tms, fn, chunk=40, name=nm):
            label, ns, doc, impl, mode = kp[i]
            ctx.disagree({'label': label, 'ns': ns, 'mode': mode, 'doc': doc}, impl, tms[i][-1200:], what)
    # the Coq specification spec_ns (coq/Dsl/Spec.v, the object of the refinement theorems) is tied twice: it must
    # return what the Python flattener [spec] (the predicate above, evaluated on the implementation) returns, and the
    # compiler model must refine it (same instances, rendered arguments, producer/file/method triples; Err <-> invalid)
    bad = ctx.model_mismatches(SPEC_HEADER, sterms, 'check_spec', chunk=40, name='spec')
    for i in bad:
        label, ns, doc = s_kept[i]
        model = ctx.model_eval(SPEC_HEADER, '(spec_ns %s, check_refines %s)' % (c_ns(ns), c_ns(ns))) if len(ctx.disagreements) < 3 else ''
        try:
            py = c_spec(spec(ns))
        except Invalid as e:
            py = 'Invalid: %s' % e
        ctx.disagree({'label': label, 'ns': ns, 'doc': doc}, py[-1500:], model[-1500:],
                     'spec_ns (coq/Dsl/Spec.v) = the Python flattener spec of harness/c06.py, and compile refines spec_ns')


# ------------------------------------------------------------------ malformed DOCUMENTS through every entry point
def _doc_faults():
    """(label, document, model) -- model: 'none' = the namespace has no entrypoint object (coq/Dsl/Load.v: N = None),
    'schema' = rejected by the schema layer (pydantic; not modelled: the predicate alone), 'finding:<class>'"""
    import copy
    base = to_doc(_norm(dict(CORPUS)['via_param']))

    def mk(f):
        d = copy.deepcopy(base)
        f(d)
        return d
    return [
        ('entrypoint_empty', mk(lambda d: d.__setitem__('entrypoint', None)), 'none'),
        ('entrypoint_missing', mk(lambda d: d.pop('entrypoint')), 'none'),
        ('entry_instance_missing', mk(lambda d: d['entrypoint'].pop('entry-instance')), 'schema'),
        ('entry_instance_null', mk(lambda d: d['entrypoint'].__setitem__('entry-instance', None)), 'schema'),
        ('execute_empty', mk(lambda d: d['entrypoint'].__setitem__('execute', [])), 'schema'),
        ('execute_two', mk(lambda d: d['entrypoint']['execute'].append({'target': '<entry-instance>', 'args': {}})), 'schema'),
        ('execute_args_null', mk(lambda d: d['entrypoint']['execute'][0].__setitem__('args', None)), 'schema'),
        ('execute_bad_target', mk(lambda d: d['entrypoint']['execute'][0].__setitem__('target', '<other>')), 'schema'),
        ('list_value', mk(lambda d: d['workflows'][0]['execute'][0]['args'].__setitem__('zz', [1, 2])), 'schema'),
        ('entry_list_value', mk(lambda d: d['entrypoint']['execute'][0]['args'].__setitem__('zz', [1, 2])), 'schema'),
        ('unknown_field', mk(lambda d: d['components'][0]['command'].__setitem__('bogus', 1)), 'schema'),
        ('workflows_null', mk(lambda d: d.__setitem__('workflows', None)), 'schema'),
        ('param_without_name', mk(lambda d: d['components'][1]['signature']['parameters'].append({'default': 'x'})), 'schema'),
        ('steps_not_a_mapping', mk(lambda d: d['workflows'][0].__setitem__('steps', ['a'])), 'schema'),
        # F6f (open): entrypoint without an execute list
        ('entrypoint_without_execute', mk(lambda d: d['entrypoint'].pop('execute')), 'finding:entrypoint_without_execute'),
    ]


def _explore_docs(ctx):
    """the rejection half of the property at the level of documents: every entry point must answer a malformed
    document with a DSLInvalidError (possibly wrapped) that names at least one non-empty location"""
    ov_terms, ld_terms, ov_kept, ld_kept = [], [], [], []
    lw_terms, lw_kept = [], []
    for label, doc, model in _doc_faults():
        runs = []
        lw_impl = None
        if model != 'schema':
            runs.append((None, drive(doc)))     # Namespace(**doc) itself is the schema layer: direct only when it parses
            # lightweight_validate "can deal with Namespaces which do not have an entrypoint or have an entrypoint
            # with incomplete information": accept, or DSLInvalidError with locations -- never another exception
            lw_impl = drive_lw(doc)
            ctx.count('invalid:document:' + label + ' (lightweight_validate)')
            ctx.case(json.dumps(['document', label, doc, ['lw']], sort_keys=True, default=str), True)
            if lw_impl['kind'] == 'exc' or (lw_impl['kind'] == 'dsl' and (not lw_impl['locs'] or not all(lw_impl['locs']))):
                ctx.fail({'label': 'document:' + label, 'doc': doc, 'mode': ['lw'], 'impl': lw_impl},
                         'lightweight_validate answers a malformed document (%s) with %s' % (label, lw_impl.get('type', 'no location')),
                         [model.split(':')[1]] if model.startswith('finding:') else [])
            if model == 'none':
                lw_terms.append('(@None ns, @None (list (string * value)), %s)' % c_lw_impl(lw_impl))
                lw_kept.append((label, doc, ['lw'], lw_impl))
        for uv in (None, [], [('zz', [V(1)])], [('producer', [L('x')])]):
            for validate in (True, False):
                r = drive_conf(doc, None if uv is None else {'global': {n: render_value(v) for n, v in uv}}, validate)
                runs.append((('conf', uv, validate), r))
        for mode, impl in runs:
            ctx.count('invalid:document:' + label)
            ctx.case(json.dumps(['document', label, doc, mode], sort_keys=True, default=str), True)
            why = None
            if impl['kind'] != 'dsl':
                why = 'malformed document (%s) not rejected with DSLInvalidError: %s' % (label, impl.get('type', impl['kind']))
            elif not impl['locs'] or not all(impl['locs']):
                why = 'malformed document (%s) rejected without naming a location' % label
            if why is not None:
                ctx.fail({'label': 'document:' + label, 'doc': doc, 'mode': mode, 'impl': impl}, why,
                         [model.split(':')[1]] if model.startswith('finding:') else [])
            if model == 'none':
                if mode is None:
                    ov_terms.append('(@None ns, @None (list (string * value)), %s)' % c_impl(impl))
                    ov_kept.append((label, doc, mode, impl))
                else:
                    ld_terms.append('(%s, @None ns, %s, %s)' % ('true' if mode[2] else 'false', c_uvars(mode[1]), c_impl(impl)))
                    ld_kept.append((label, doc, mode, impl))
    for tms, kp, fn, nm in ((ov_terms, ov_kept, 'check_ov', 'docov'), (ld_terms, ld_kept, 'check_load', 'docload'),
                            (lw_terms, lw_kept, 'check_lw', 'doclw')):
        for i in ctx.model_mismatches(LOAD_HEADER, tms, fn, chunk=40, name=nm):
            label, doc, mode, impl = kp[i]
            ctx.disagree({'label': 'document:' + label, 'doc': doc, 'mode': mode}, impl, tms[i][-600:],
                         '%s (coq/Dsl/Load.v) on a namespace without entrypoint = the real entry point' % fn)


def _conf_mode(ns, rng, fault=False):
    """a way of loading the namespace through DSLExperimentConfiguration: user variables (scalars bound to text
    parameters of the entry template; fault True: one unknown name; fault 'ref': one value that refers to a
    parameter) and the validate flag"""
    texts = [n for n, k in ns.get('kinds', {}).get(ns['entry'], {}).items() if k == 'text']
    uv = None
    if fault or rng.random() < 0.6:
        uv = [(n, [rng.choice([L(rng.choice(WORDS)), V(rng.choice(NUMS)), L('')])]) for n in texts if rng.random() < 0.6]
        if fault == 'ref':
            # a user variable whose value refers to a parameter: the arguments of the entry instance have no scope
            pn = rng.choice(texts)
            uv = [a for a in uv if a[0] != pn] + [(pn, scopeless_value(ns, rng))]
        elif fault:
            uv.append(('zz', [V(1)]))
        rng.shuffle(uv)
    return ('conf', uv, rng.random() < 0.6)


def run(ctx):
    ctx.rule = ('valid namespace with >= 2 component instances and >= 1 producer->consumer edge, or an invalid '
                '(single-fault) namespace or malformed document; distinct by rendered document, override and entry point')
    rng = ctx.rng
    n_valid, n_mut, n_conf = (700, 610, 90) if ctx.tier == 'quick' else (5000, 4550, 1000)
    n_lw = 120 if ctx.tier == 'quick' else 900
    try:
        cases = []
        for k, ns in CORPUS:
            ns = _norm(ns)
            cases.append(('corpus:' + k, ns))
            cases.append(('corpus:' + k, ns, ('lw',)))
            if ns.get('override') is None:
                for uv in (None, []):
                    for validate in (True, False):
                        cases.append(('corpus:' + k, ns, ('conf', uv, validate)))
        valid = []
        for _ in range(n_valid):
            ns = gen_namespace(rng)
            valid.append(ns)
            cases.append(('generated', ns))
        # the user variable files bind a value that refers to a parameter (fixed witness, every loader mode)
        base = _norm(dict(CORPUS)['var_collision'])
        for validate in (True, False):
            cases.append(('corpus:uservar_ref', base, ('conf', [('greeting', [L('hi '), P('greeting')])], validate)))
        for ns in valid[:n_lw]:
            cases.append(('generated', ns, ('lw',)))
        plain = [ns for ns in valid if ns.get('override') is None]
        with_text = [ns for ns in plain if 'text' in ns.get('kinds', {}).get(ns['entry'], {}).values()]
        for i in range(n_conf):
            ns = rng.choice(plain)
            cases.append(('generated', ns, _conf_mode(ns, rng)))
        for i in range(n_conf // 8):
            ns = rng.choice(plain)
            cases.append(('uservar_unknown:mutant', ns, _conf_mode(ns, rng, fault=True)))
        for i in range(n_conf // 6):
            ns = rng.choice(with_text)
            cases.append(('uservar_param_ref:mutant', ns, _conf_mode(ns, rng, fault='ref')))
        made = 0
        tries = 0
        while made < n_mut and tries < n_mut * 40:
            kind = KINDS[made % len(KINDS)]
            tries += 1
            m = mutate(rng.choice(valid), rng, kind)
            if m is None:
                continue
            cases.append((m[1] + ':mutant', m[0]))
            if made % 5 == 0 and m[0].get("override") is None and made // 5 < n_conf:
                cases.append((m[1] + ':mutant', m[0], _conf_mode(m[0], rng)))
            if made % 3 == 1 or kind in ('entry_param_ref', 'override_param_ref', 'noparam_parent_ref'):
                cases.append((m[1] + ':mutant', m[0], ('lw',)))
            made += 1
        _explore(ctx, cases)
        _explore_docs(ctx)
    finally:
        _cleanup()
    # F6d (fixed): sibling component steps that reference each other (a dataflow cycle, outside the generator's
    # domain: it is the graph validation that rejects it) must not make the compiler hang
    cyc = {'entrypoint': {'entry-instance': 'main', 'execute': [{'target': '<entry-instance>', 'args': {}}]},
           'workflows': [{'signature': {'name': 'main', 'parameters': []}, 'steps': {'a': 'cc', 'b': 'cc'},
                          'execute': [{'target': '<a>', 'args': {'p': '<b>:ref'}}, {'target': '<b>', 'args': {'p': '<a>:ref'}}]}],
           'components': [{'signature': {'name': 'cc', 'parameters': [{'name': 'p'}]},
                           'command': {'executable': 'echo', 'arguments': 'cat %(p)s'}}]}
    r = drive(cyc)
    ctx.case(['F6d', cyc], True)
    if r.get('kind') == 'exc':
        ctx.fail({'label': 'corpus:F6d_sibling_cycle', 'doc': cyc, 'got': r},
                 'the compiler neither compiles nor reports a DSLInvalidError for sibling steps that reference each other (%s)' % r.get('type'), [])


def replay(ctx, path):
    d = json.load(open(path))
    c = d.get('case') or d.get('first', {}).get('case') or {}
    if 'ns' not in c and str(c.get('label', '')).startswith('document:'):
        try:
            _explore_docs(ctx)
        finally:
            _cleanup()
        ctx.failures = [f for f in ctx.failures if f['case'].get('label') == c['label']]
        for f in ctx.failures:
            print('REPRODUCED: %s' % f['what'])
        return 1 if ctx.failures else 0
    if 'ns' not in c:
        print('replay file names no input (proof/correspondence obligation): re-run ./check C06')
        return 2
    mode = c.get('mode')
    if mode is not None and mode[0] == 'lw':
        mode = ('lw',)
    elif mode is not None:
        mode = ('conf', None if mode[1] is None else [(a[0], [_t(t) for t in a[1]]) for a in mode[1]], mode[2])
    try:
        _explore(ctx, [(c.get('label', 'replay'), _norm(c['ns']))] if mode is None
                 else [(c.get('label', 'replay'), _norm(c['ns']), mode)])
    finally:
        _cleanup()
    for f in ctx.failures:
        print('REPRODUCED: %s' % f['what'])
    for f in ctx.disagreements:
        print('DISAGREEMENT: impl=%s model=%s' % (f['impl'], f['model']))
    return 1 if (ctx.failures or ctx.disagreements) else 0
