"""C20 driver for the REAL experiment.runtime.control.Controller: a workflow with a DoWhile document that spans
several stages is loaded in a scratch directory, a real Controller (real ComponentState objects, nothing is launched)
is told about the termination of the components one at a time the way its notifyFinished subscription does
(Controller.finishedCheck; a condition component that printed True makes the Controller instantiate the next
iteration = new nodes in stages that already exist), and after every event the real StatusMonitor.CheckStatus reports.

Observed after every event: Controller.get_stages_finished() / get_stages_in_transit() (one snapshot under comp_lock)
and the total progress CheckStatus stores.  harness/c05_impl.py (documents, _new_controller) is imported read-only.

A case (JSON-able): {'pre': stages before the loop, 'K': stages spanned by the loop, 'width': [components per looped
stage], 'iters': iterations run, 'post': 0|1 plain stage after the loop, 'weights': thousandths per stage (or None),
'seed': order of the terminations, 'start': index of the stage the run STARTS at (absent = 0; > 0 is a RESTART: the first
Controller.initialise() is for a later stage, the stages before it were completed by an earlier run - the Controller
marks their components as done and nothing is ever delivered for them)}

The observation keeps two views of the nodes: 'nodes' = [stage, active?] where active means "no termination was
DELIVERED by this driver" (the model applies the restart itself: Weights.Model.restart_nodes), and 'done' = per stage
[terminated or skipped, nodes] (what the weighted fraction is computed from)."""
import logging
import os
import random
import shutil
import tempfile
import threading
import types

import yaml


def case_documents(case):
    import c05_impl
    K, pre = case['K'], case['pre']
    comps = []
    for j in range(K):
        for a in range(case['width'][j]):
            refs = []
            if j > 0:
                refs = [['C', j - 1, 'l%d_%d' % (j - 1, b), '', 'ref'] for b in range(case['width'][j - 1])]
            comps.append({'name': 'l%d_%d' % (j, a), 'stage': j, 'refs': refs, 'explicit_stage': True})
    c5 = {'S': pre, 'dwname': 'loop', 'srcs': [['p%d' % i, i] for i in range(pre)], 'comps': comps, 'ibind': [],
          'binds': [], 'loopb': [], 'cond': [K - 1, 'l%d_0' % (K - 1), ''], 'outs': [], 'k': 0}
    main, dw = c05_impl.documents(c5)
    nstages = pre + K + case['post']
    if case['post']:
        main['components'].append({'stage': pre + K, 'name': 'after', 'command': {'executable': 'echo', 'arguments': 'x'}})
    if case.get('weights'):
        main['status-report'] = dict((i, {'stage-weight': w / 1000.0}) for i, w in enumerate(case['weights']))
    return main, dw, nstages


def drive(case):
    """-> {'events': [{'event', 'finished', 'transit', 'total', 'done': {stage: [done, nodes]}, 'current'}],
           'weights': [...]} or {'error': ...}"""
    logging.disable(logging.CRITICAL)
    import c05_impl
    import experiment.model.codes as codes
    import experiment.model.storage
    import experiment.model.data
    import experiment.runtime.output as O
    import experiment.runtime.monitor as M
    rnd = random.Random(case['seed'])
    main, dw, nstages = case_documents(case)
    tmp = tempfile.mkdtemp(prefix='verif_c20ctl_')
    cwd = os.getcwd()
    try:
        pkg = os.path.join(tmp, 'p.package')
        os.makedirs(os.path.join(pkg, 'conf'))
        with open(os.path.join(pkg, 'conf', 'flowir_package.yaml'), 'w') as f:
            yaml.safe_dump(main, f)
        with open(os.path.join(pkg, 'conf', 'dowhile.yaml'), 'w') as f:
            yaml.safe_dump(dw, f)
        try:
            ep = experiment.model.storage.ExperimentPackage.packageFromLocation(pkg)
            exp = experiment.model.data.Experiment.experimentFromPackage(ep, location=tmp)
            exp.validateExperiment(checkExecutables=False)
            start = int(case.get('start') or 0)
            if not 0 <= start < nstages:
                return {'error': 'case:start outside the stages'}
            ctl, keep = c05_impl._new_controller(exp, start)
            monitor = O.StatusMonitor(exp, report_components=False)
        except Exception as e:
            return {'error': 'load:' + type(e).__name__, 'msg': str(e)[:300]}
        weights = [float(w) for w in monitor.stageWeights]
        totals = []
        original = exp.statusFile.setTotalProgress

        def recorder(value):
            totals.append(value)
            return original(value)
        exp.statusFile.setTotalProgress = recorder
        captured = {}
        orig_create = M.CreateMonitor

        def fake_create(interval, action, cancelEvent=None, name=None, **kw):
            captured['a'] = action
            return lambda: None
        monitor.exceptionTracker = types.SimpleNamespace(printStatus=lambda details=False: None)
        graph = exp.experimentGraph.graph
        first_loop, last_loop = case['pre'], case['pre'] + case['K'] - 1
        cond_name = 'l%d_0' % (case['K'] - 1)
        state = {'cur': start, 'looping': True}
        events = []

        def stage_of(node):
            return graph.nodes[node]['stageIndex']

        def report(what):
            with ctl.comp_lock:
                fin = list(ctl.get_stages_finished())
                tr = list(ctl.get_stages_in_transit())
            del totals[:]
            M.CreateMonitor = fake_create
            try:
                monitor.run(ctl)
            finally:
                M.CreateMonitor = orig_create
            captured['a'](False)
            done = {}
            for node in graph.nodes:
                d = done.setdefault(stage_of(node), [0, 0])
                d[1] += 1
                d[0] += int(node in finished_nodes)
            events.append({'event': what, 'finished': fin, 'transit': tr, 'total': totals[-1] if totals else None,
                           'done': done, 'current': state['cur'],
                           'nodes': [[stage_of(nd), nd not in delivered] for nd in sorted(graph.nodes)]})

        # a restart: the components of the stages before the starting one terminated in an earlier run
        skipped = set(n for n in graph.nodes if stage_of(n) < start)
        finished_nodes = set(skipped)
        delivered = set()
        ctl.initialise(exp._stages[start], c05_impl._FakeStatus())
        report('start')
        for _step in range(400):
            ready = sorted(n for n in graph.nodes if n not in finished_nodes
                           and all(p in finished_nodes for p in graph.predecessors(n)))
            # a stage is entered once every earlier one has no runnable node left, except that the components of the
            # loop (all its stages) run while the controller holds on to the first stage of the loop
            lo = min(stage_of(n) for n in ready) if ready else None
            if lo is None:
                break
            if lo < first_loop or lo > last_loop:
                ready = [n for n in ready if stage_of(n) == lo]
                want = lo
            else:
                ready = [n for n in ready if first_loop <= stage_of(n) <= last_loop]
                want = max(first_loop, start)
            if want != state['cur']:
                state['cur'] = want
                ctl.initialise(exp._stages[want], c05_impl._FakeStatus())
                report('enter stage %d' % want)
            node = rnd.choice(ready)
            comp = ctl.get_compstate(node)
            name = node.split('.', 1)[1]
            if '#' in name and name.split('#', 1)[1] == cond_name:
                it = int(name.split('#', 1)[0])
                with open(os.path.join(comp.specification.workingDir.path, 'out.stdout'), 'w') as f:
                    f.write('True\n' if it + 1 < case['iters'] else 'False\n')
            comp.controllerState = codes.FINISHED_STATE
            ctl.finishedCheck(comp.state, comp)
            finished_nodes.add(node)
            delivered.add(node)
            report('finished ' + node)
        last = nstages - 1
        if state['cur'] != last:
            state['cur'] = last
            ctl.initialise(exp._stages[last], c05_impl._FakeStatus())
        report('end')
        return {'events': events, 'weights': weights, 'nodes': len(graph.nodes), 'nstages': nstages, 'start': start,
                'skipped_nodes': len(skipped)}
    except Exception as e:
        import traceback
        return {'error': 'drive:' + type(e).__name__, 'msg': traceback.format_exc()[-1500:]}
    finally:
        try:
            os.chdir(cwd)
        except Exception:
            pass
        shutil.rmtree(tmp, ignore_errors=True)


if __name__ == '__main__':
    import json
    import sys
    import time
    t = time.time()
    out = drive(json.loads(sys.argv[1]))
    print(json.dumps(out, indent=1)[:6000])
    print(time.time() - t)
