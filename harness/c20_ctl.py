"""C20 driver for the REAL experiment.runtime.control.Controller: a workflow with a DoWhile document that spans
several stages is loaded in a scratch directory, a real Controller (real ComponentState objects, nothing is launched)
is told about the termination of the components one at a time the way its notifyFinished subscription does
(Controller.finishedCheck; a condition component that printed True makes the Controller instantiate the next
iteration = new nodes in stages that already exist), and after every event the real StatusMonitor.CheckStatus reports.

Observed after every event: Controller.get_stages_finished() / get_stages_in_transit() (one snapshot under comp_lock)
and the total progress CheckStatus stores.  harness/c05_impl.py (documents, _new_controller) is imported read-only.

A case (JSON-able): {'pre': stages before the loop, 'K': stages spanned by the loop, 'width': [components per looped
stage], 'iters': iterations run, 'post': 0|1 plain stage after the loop, 'weights': thousandths per stage (or None),
'seed': order of the terminations, 'lag': how many components may have reached their terminal state (engine exited, ComponentState.state final) WITHOUT
Controller.finishedCheck having been delivered for them yet (absent/0 = every termination is notified at once); the real
CheckStatus reports inside that window too (events 'terminated X' ... 'notified X'), also after the controller entered a
later stage, 'start': index of the stage the run STARTS at (absent = 0; > 0 is a RESTART: the first
Controller.initialise() is for a later stage, the stages before it were completed by an earlier run - the Controller
marks their components as done and nothing is ever delivered for them)}

The observation keeps two views of the nodes: 'nodes' = [stage, state] with state 2 = finishedCheck was DELIVERED by this
driver (Model.NObserved), 1 = the component reached its terminal state (in this run or, for a skipped stage, in an earlier
one) and nothing was delivered (Model.NReported), 0 = running (the model applies the restart itself:
Weights.Model.restart_nodes), and 'done' = per stage [terminated or skipped, nodes] (what the weighted fraction is
computed from: get_stage_status reads the states the components REPORT)."""
import logging
import os
import random
import shutil
import tempfile
import threading
import types

import yaml


def case_documents(case):
    import c05_impl
    K, pre = case['K'], case['pre']
    comps = []
    for j in range(K):
        for a in range(case['width'][j]):
            refs = []
            if j > 0:
                refs = [['C', j - 1, 'l%d_%d' % (j - 1, b), '', 'ref'] for b in range(case['width'][j - 1])]
            comps.append({'name': 'l%d_%d' % (j, a), 'stage': j, 'refs': refs, 'explicit_stage': True})
    c5 = {'S': pre, 'dwname': 'loop', 'srcs': [['p%d' % i, i] for i in range(pre)], 'comps': comps, 'ibind': [],
          'binds': [], 'loopb': [], 'cond': [K - 1, 'l%d_0' % (K - 1), ''], 'outs': [], 'k': 0}
    main, dw = c05_impl.documents(c5)
    nstages = pre + K + case['post']
    if case['post']:
        main['components'].append({'stage': pre + K, 'name': 'after', 'command': {'executable': 'echo', 'arguments': 'x'}})
    if case.get('weights'):
        main['status-report'] = dict((i, {'stage-weight': w / 1000.0}) for i, w in enumerate(case['weights']))
    return main, dw, nstages


def drive(case):
    """-> {'events': [{'event', 'finished', 'transit', 'total', 'done': {stage: [done, nodes]}, 'current'}],
           'weights': [...]} or {'error': ...}"""
    logging.disable(logging.CRITICAL)
    import c05_impl
    import experiment.model.codes as codes
    import experiment.model.storage
    import experiment.model.data
    import experiment.runtime.output as O
    import experiment.runtime.monitor as M
    rnd = random.Random(case['seed'])
    main, dw, nstages = case_documents(case)
    tmp = tempfile.mkdtemp(prefix='verif_c20ctl_')
    cwd = os.getcwd()
    try:
        pkg = os.path.join(tmp, 'p.package')
        os.makedirs(os.path.join(pkg, 'conf'))
        with open(os.path.join(pkg, 'conf', 'flowir_package.yaml'), 'w') as f:
            yaml.safe_dump(main, f)
        with open(os.path.join(pkg, 'conf', 'dowhile.yaml'), 'w') as f:
            yaml.safe_dump(dw, f)
        try:
            ep = experiment.model.storage.ExperimentPackage.packageFromLocation(pkg)
            exp = experiment.model.data.Experiment.experimentFromPackage(ep, location=tmp)
            exp.validateExperiment(checkExecutables=False)
            start = int(case.get('start') or 0)
            if not 0 <= start < nstages:
                return {'error': 'case:start outside the stages'}
            ctl, keep = c05_impl._new_controller(exp, start)
            monitor = O.StatusMonitor(exp, report_components=False)
        except Exception as e:
            return {'error': 'load:' + type(e).__name__, 'msg': str(e)[:300]}
        weights = [float(w) for w in monitor.stageWeights]
        totals = []
        original = exp.statusFile.setTotalProgress

        def recorder(value):
            totals.append(value)
            return original(value)
        exp.statusFile.setTotalProgress = recorder
        captured = {}
        orig_create = M.CreateMonitor

        def fake_create(interval, action, cancelEvent=None, name=None, **kw):
            captured['a'] = action
            return lambda: None
        monitor.exceptionTracker = types.SimpleNamespace(printStatus=lambda details=False: None)
        graph = exp.experimentGraph.graph
        first_loop, last_loop = case['pre'], case['pre'] + case['K'] - 1
        cond_name = 'l%d_0' % (case['K'] - 1)
        state = {'cur': start, 'looping': True}
        events = []

        def stage_of(node):
            return graph.nodes[node]['stageIndex']

        def report(what):
            with ctl.comp_lock:
                fin = list(ctl.get_stages_finished())
                tr = list(ctl.get_stages_in_transit())
            del totals[:]
            M.CreateMonitor = fake_create
            try:
                monitor.run(ctl)
            finally:
                M.CreateMonitor = orig_create
            captured['a'](False)
            done = {}
            for node in graph.nodes:
                d = done.setdefault(stage_of(node), [0, 0])
                d[1] += 1
                d[0] += int(node in finished_nodes)
            events.append({'event': what, 'finished': fin, 'transit': tr, 'total': totals[-1] if totals else None,
                           'done': done, 'current': state['cur'],
                           'pending': [stage_of(nd) for nd in pending],
                           'complete': sorted(s_ for s_, d_ in done.items() if d_[0] == d_[1]),
                           'nodes': [[stage_of(nd), 2 if nd in delivered else 1 if nd in finished_nodes else 0]
                                     for nd in sorted(graph.nodes)]})

        lag = int(case.get('lag') or 0)
        pending = []

        def is_condition(node):
            name = node.split('.', 1)[1]
            return '#' in name and name.split('#', 1)[1] == cond_name

        def terminate(node):
            """the component reaches its terminal state: its engine exited, ComponentState.state is `finished`"""
            comp = ctl.get_compstate(node)
            if is_condition(node):
                it = int(node.split('.', 1)[1].split('#', 1)[0])
                with open(os.path.join(comp.specification.workingDir.path, 'out.stdout'), 'w') as f:
                    f.write('True\n' if it + 1 < case['iters'] else 'False\n')
            comp.controllerState = codes.FINISHED_STATE
            finished_nodes.add(node)

        def deliver(node):
            """what the controller's subscription to ComponentState.notifyFinished does"""
            comp = ctl.get_compstate(node)
            ctl.finishedCheck(comp.state, comp)
            delivered.add(node)

        # a restart: the components of the stages before the starting one terminated in an earlier run
        skipped = set(n for n in graph.nodes if stage_of(n) < start)
        finished_nodes = set(skipped)
        delivered = set()
        ctl.initialise(exp._stages[start], c05_impl._FakeStatus())
        report('start')
        for _step in range(800):
            ready = sorted(n for n in graph.nodes if n not in finished_nodes
                           and all(p in finished_nodes for p in graph.predecessors(n)))
            # a stage is entered once every earlier one has no runnable node left, except that the components of the
            # loop (all its stages) run while the controller holds on to the first stage of the loop
            in_loop = [n for n in ready if first_loop <= stage_of(n) <= last_loop]
            held = [n for n in pending if is_condition(n)]
            if pending and (not ready or (held and not in_loop)):
                # nothing else can terminate before a notification arrives; the controller does not leave the loop
                # before it has seen the condition (the next iteration is instantiated by that notification)
                node = held[0] if held else pending[0]
                pending.remove(node)
                deliver(node)
                report('notified ' + node)
                continue
            lo = min(stage_of(n) for n in ready) if ready else None
            if lo is None:
                break
            if lo < first_loop or lo > last_loop:
                ready = [n for n in ready if stage_of(n) == lo]
                want = lo
            else:
                ready = [n for n in ready if first_loop <= stage_of(n) <= last_loop]
                want = max(first_loop, start)
            if want != state['cur']:
                state['cur'] = want
                ctl.initialise(exp._stages[want], c05_impl._FakeStatus())
                report('enter stage %d' % want)
            if lag == 0:
                node = rnd.choice(ready)
                terminate(node)
                deliver(node)
                report('finished ' + node)
                continue
            # the WINDOW between a termination and its notification: up to `lag` components have reached their terminal
            # state (what they REPORT) while the controller has not run finishedCheck for them yet (what it OBSERVED)
            if pending and (len(pending) >= lag or rnd.random() < 0.4):
                node = pending.pop(0 if rnd.random() < 0.7 else rnd.randrange(len(pending)))
                deliver(node)
                report('notified ' + node)
                continue
            node = rnd.choice(ready)
            terminate(node)
            pending.append(node)
            report('terminated ' + node)
        last = nstages - 1
        if state['cur'] != last:
            state['cur'] = last
            ctl.initialise(exp._stages[last], c05_impl._FakeStatus())
        report('end')
        return {'events': events, 'weights': weights, 'nodes': len(graph.nodes), 'nstages': nstages, 'start': start,
                'skipped_nodes': len(skipped)}
    except Exception as e:
        import traceback
        return {'error': 'drive:' + type(e).__name__, 'msg': traceback.format_exc()[-1500:]}
    finally:
        try:
            os.chdir(cwd)
        except Exception:
            pass
        shutil.rmtree(tmp, ignore_errors=True)


if __name__ == '__main__':
    import json
    import sys
    import time
    t = time.time()
    out = drive(json.loads(sys.argv[1]))
    print(json.dumps(out, indent=1)[:6000])
    print(time.time() - t)
