"""C17 — Component environments are built only from their declared sources.

Implementation driven (harness/c17_impl.py, a subprocess whose os.environ is replaced per case by the case's launch
environment): real FlowIRConcrete (FlowIR.from_dict lower-casing, get_environment / get_platform_environment) ->
real FlowIRExperimentConfiguration (defaultEnvironment / environmentWithName / environmentForNode) -> real
WorkflowGraph.environmentForNode(node) and WorkflowGraph.environmentWithName(name, expand=False), built in memory the
way WorkflowGraph.graphFromFlowIR does, with explicit system variables.

Compared inside Coq with Env.Model.env_for_node / env_with_name (tsub = Env.Model.tm_sub, osexp = Env.Model.os_expand:
executable models of string.Template.safe_substitute and posixpath.expandvars; fillin = identity), the two substitution
functions also on their own (flowir.expand_vars / os.path.expandvars vs tm_sub / os_expand, bounded-exhaustive over a
"$ { } A 1 space" alphabet plus random texts), and the Python mirror of the C17 theorems is evaluated on the
implementation's outputs."""
import itertools
import json
import os
import re
import shutil
import subprocess
import tempfile
from string import Template

import common
from common import clist, cstr, cbool, cZ

PROP = 'C17'
COQ_DIR = 'Env'
ASSUMPTIONS = [
    'string.Template.safe_substitute and os.path.expandvars (posixpath, Python 3.12) are modelled by Env.Model.tm_sub / '
    'os_expand on ASCII text; the environment theorems quantify over arbitrary substitution functions, the expansion '
    'theorems are about these two models, tied by the correspondence on values with $NAME, ${NAME}, "$$", lone "$", '
    'unterminated "${", non-identifier and digit-leading names',
    'FlowIR.fill_in (%(workflow-variable)s interpolation of values and of the environment name) is a Section function '
    'on values in the first group of theorems and the identity in the first correspondence (its values contain no "%("); '
    'the session correspondence (harness/c17_session.py, Env.InstModel) generates %(name)s references and models '
    'FlowIR.interpolate on the fragment: literal text without "[" , references %(name)s with names without ".", never '
    '"replica", acyclic definitions (the code recurses without bound), no reference to a variable holding a YAML null '
    '(FlowIRVariableInvalid), every reference inside a GLOBAL variable resolvable among the global variables',
    'platform names are "default" and one other platform "p" (sessions: "default", "p", "q"); all are listed in the document; '
    'FlowIRPlatformUnknown paths are outside the model',
    'sessions call instance()/replicate() with ignore_errors=True (what FlowIRExperimentConfiguration.replicate and '
    'store_unreplicated_flowir_to_disk do); the two fill_in passes of instance() over an environment are modelled as one '
    'lenient pass in the context "global variables updated by the environment" (equal on the fragment; tied by the correspondence)',
    'the configuration is built with validate=False (so an unknown environment surfaces as FlowIREnvironmentUnknown '
    'from environmentForNode, the error named by the property, instead of a load-time validation error)',
    'environment variable names are ASCII identifiers; values are ASCII',
    'configuration sessions (harness/c17_csession.py, Env.SessModel): the configuration object is created in memory '
    '(concrete=FlowIRConcrete(document)) and parametrize()d with validate=False and no variable files, so parametrize() rebuilds '
    'it from the document of creation (environments added with add_environment are dropped - modelled); add_environment '
    'targets platform default or the active platform',
]
HEADER = 'Require Import V.Env.Model.\nOpen Scope string_scope.\nOpen Scope list_scope.'
PATH_VARS = ['PATH', 'PYTHONPATH', 'PYTHONHOME', 'LD_LIBRARY_PATH']
UNKNOWN = 'FlowIREnvironmentUnknown'


# ------------------------------------------------------------------ Coq printing
def craw(v):
    if v is None:
        return 'RNull'
    if isinstance(v, bool):
        return '(RBool %s)' % cbool(v)
    if isinstance(v, int):
        return '(RInt %s)' % cZ(v)
    return '(RStr %s)' % cstr(v)


def cmap(kvs):
    return '(%s : map)' % clist(kvs, lambda kv: '(%s, %s)' % (cstr(kv[0]), cstr(kv[1])))


def ctab(tab):
    return '(%s : envtab)' % clist(tab, lambda ne: '(%s, (%s : rawenv))' % (cstr(ne[0]), clist(ne[1], lambda kv: '(%s, %s)' % (cstr(kv[0]), craw(kv[1])))))


def ccfg(c):
    return '{| is_default := %s; denvs := %s; penvs := %s; sysv := %s |}' % (
        cbool(c['platform'] == 'default'), ctab(c['envs']['default']), ctab(c['envs']['p']), cmap(c['sysv']))


def cres(r):
    return '(@None map)' if r == UNKNOWN else '(Some %s)' % cmap(r)


def cname(n):
    return '(@None string)' if n is None else '(Some %s)' % cstr(n)


def cterm(c, r):
    return '(%s, %s, %s, %s, (%s, %s))' % (ccfg(c), cmap(c['launch']), cname(c['name']), cbool(c['interp']),
                                           cres(r['full']), cres(r['unexp']))


# ------------------------------------------------------------------ Python mirror of the statement
def to_s(v):
    return '' if v is None else str(v)


def candidates(tab, lname):
    return [kvs for n, kvs in tab if n.lower() == lname]


_varprog = re.compile(r'\$(\w+|\{[^}]*\})', re.ASCII)


def expandvars_with(environ, path):
    """posixpath.expandvars with an explicit environment (same algorithm)"""
    if '$' not in path:
        return path
    i = 0
    while True:
        m = _varprog.search(path, i)
        if not m:
            break
        i, j = m.span(0)
        name = m.group(1)
        if name.startswith('{') and name.endswith('}'):
            name = name[1:-1]
        if name in environ:
            tail = path[j:]
            path = path[:i] + environ[name]
            i = len(path)
            path += tail
        else:
            i = j
    return path


def select(c):
    """-> (kind, selected env as dict | None when unknown, ambiguous, all candidate keys)"""
    want = (c['name'] or 'environment').lower()
    dflt = c['platform'] == 'default'
    launch = dict(c['launch'])

    def layered(lname):
        dl = candidates(c['envs']['default'], lname)
        pl = dl if dflt else candidates(c['envs']['p'], lname)
        amb = len(dl) > 1 or len(pl) > 1
        allk = set(k for cand in dl + pl for k, _ in cand)
        if not pl and (dflt or not dl):
            return None, amb, allk
        env = {}
        if not dflt and dl:
            env.update({k: to_s(v) for k, v in dl[-1]})
        if pl:
            env.update({k: to_s(v) for k, v in pl[-1]})
        return env, amb, allk
    if want in ('', 'environment'):
        env, amb, allk = layered('environment')
        if env is None:
            return 'default-launch', dict(launch), False, set(launch)
        return 'default', env, amb, allk
    if want == 'none':
        return 'none', {}, False, set()
    env, amb, allk = layered(want)
    return 'named', env, amb, allk


def predicate(ctx, c, r):
    kind, sel, amb, allk = select(c)
    launch = dict(c['launch'])
    sysv = dict(c['sysv'])
    full, unexp = r['full'], r['unexp']
    case = {'case': c, 'impl': r}
    cls = []
    if sel is None:
        if full != UNKNOWN or unexp != UNKNOWN:
            ctx.fail(case, 'an environment that neither the selected nor the default platform defines did not raise FlowIREnvironmentUnknown', cls)
        return kind, False
    if full == UNKNOWN or unexp == UNKNOWN:
        ctx.fail(case, 'FlowIREnvironmentUnknown for an environment that is defined (%s)' % kind, cls)
        return kind, False
    full, unexp = dict(full), dict(unexp)
    pre = dict(sysv)
    pre.update(sel)
    dnames = pre['DEFAULTS'].split(':') if 'DEFAULTS' in pre else []
    if amb:   # several spellings of the name on one platform: any candidate's import list may be the one in force
        lname = 'environment' if kind == 'default' else (c['name'] or '').lower()
        for plat in ('default', 'p'):
            for cand in candidates(c['envs'][plat], lname):
                dnames = dnames + to_s(dict(cand).get('DEFAULTS')).split(':')
    imported = set(v for v in dnames if v in launch)
    pathv = set(v for v in PATH_VARS if v in launch) if c['interp'] else set()
    allowed = set(sysv) | (allk if amb else set(sel)) | imported | pathv
    # C17_sources / C17_no_leak
    for k in full:
        if k not in allowed:
            ctx.fail(case, ('launch-environment variable leaked into the task environment' if k in launch else
                            'task environment has a variable that comes from none of the declared sources'), cls)
            break
    if kind == 'none' and set(full) - set(sysv) - pathv:
        ctx.fail(case, 'the empty environment ("none") contains more than the system variables', cls)
    # C17_layering (on the unexpanded environment)
    if not amb:
        for k, v in pre.items():
            if k in imported or k == 'DEFAULTS':
                continue
            if unexp.get(k) != v:
                ctx.fail(case, 'unexpanded value of a variable is not the selected platform\'s value layered over the '
                               'default platform\'s (kind=%s)' % kind, cls)
                break
        # imported by name (C17_imported: listed once - a second listing re-substitutes the imported value, "$$" -> "$")
        for v in imported:
            if v not in pre and dnames.count(v) == 1 and unexp.get(v) != launch[v]:
                ctx.fail(case, 'a variable imported through DEFAULTS does not carry the launch value', cls)
                break
    if set(unexp) - allowed - {'DEFAULTS'}:
        ctx.fail(case, 'unexpanded environment has a variable that comes from none of the declared sources', cls)
    # C17_expansion: first from the environment itself, then from the launch environment; empty values vanish
    for k, v in unexp.items():
        if v == '':
            if k in full and k not in pathv:
                ctx.fail(case, 'a variable with an empty value is present in the task environment', cls)
                break
            continue
        want = expandvars_with(launch, Template(v).safe_substitute(unexp))
        if full.get(k) != want:
            ctx.fail(case, 'value is not expanded first from the environment itself and then from the launch environment', cls)
            break
    # C17_system_vars / interpreter variables present
    for k, v in sysv.items():
        if k not in (allk if amb else sel) and k not in imported and v != '' and k not in full:
            ctx.fail(case, 'a system variable of the runtime is missing from the task environment', cls)
            break
    for k in pathv:
        if k not in full:
            ctx.fail(case, 'interpreter component lacks a search-path variable of the launch environment', cls)
            break
    nontriv = kind in ('named', 'default') and bool(sel)
    return kind, nontriv


def held_predicate(ctx, c, r):
    """mirror of C17_declared_spelling / C17_declared_filed / C17_declared_held on what FlowIRConcrete holds after from_dict"""
    for plat in ('default', 'p'):
        tab = c['envs'][plat]
        names = [n for n, _ in tab]
        want = {}
        for m in set(n.lower() for n in names):
            spellings = [n for n in names if n.lower() == m and n != m]
            winner = spellings[-1] if spellings else m      # the last non-lower-case spelling, else the name itself
            want[m] = [k for k, _ in dict(tab)[winner]]
        held = r['held'][plat]
        if len(held) != len(want) or {n: ks for n, ks in held} != want:
            ctx.fail({'case': c, 'impl': r}, 'FlowIR.from_dict does not file each declared environment under the lower-case form of '
                     'its name (the last declared non-lower-case spelling wins a collision)', [])
            return


def twin_of(rng, c):
    """a second case that differs from c only in one launch variable that the environment neither imports (DEFAULTS), nor
    gets as a search-path variable, nor references by name anywhere: C17_launch_independence says the results are equal"""
    if select(c)[0] == 'default-launch':
        return None
    texts = [to_s(v) for plat in ('default', 'p') for _, kvs in c['envs'][plat] for _, v in kvs]
    texts += [v for _, v in c['sysv']]
    ok = []
    for k, v in c['launch']:
        if k in PATH_VARS or any(k in t for t in texts) or any(k in v2 for k2, v2 in c['launch'] if k2 != k):
            continue
        ok.append(k)
    if not ok:
        return None
    x = rng.choice(ok)
    t = dict(c)
    if rng.random() < 0.5:
        t['launch'] = [[k, v] for k, v in c['launch'] if k != x]
    else:
        t['launch'] = [[k, ('changed-' + v if k == x else v)] for k, v in c['launch']]
    return t, x


# ------------------------------------------------------------------ the substitution functions alone
SUBST_M = [['A', 'x$A'], ['1', 'one'], ['A1', '<a1>'], ['1A', '<1a>'], ['AA', ''], [' ', 'sp'], ['A 1', 'a-1'], ['{', 'brace'], ['_', 'us']]


def subst_cases(rng, tier):
    alpha = ['$', '{', '}', 'A', '1', ' ']
    out = []
    for n in range(0, 5 if tier == 'quick' else 6):
        for t in itertools.product(alpha, repeat=n):
            out.append({'subst': {'m': SUBST_M, 's': ''.join(t)}})
    pieces = ODD + LITS + ['$' + n for n in LNAMES[:6]] + ['${%s}' % n for n in LNAMES[:6]] + ['_', 'a', 'Z9', '\\', "'", '"', '%(A)s', '\n', '\t']
    for _ in range(600 if tier == 'quick' else 6000):
        m = [[k, rng.choice(['v-' + k, '$' + k, '', '${A}', 'a b'])] for k in LNAMES if rng.random() < 0.5]
        out.append({'subst': {'m': m, 's': ''.join(rng.choice(pieces) for _ in range(rng.randint(1, 6)))}})
    return out


def explore_subst(ctx, cases):
    results = run_impl(cases, nproc=2)
    terms = []
    for c, r in zip(cases, results):
        m, s = c['subst']['m'], c['subst']['s']
        # mirror of C17_literal_value: text without "$" is left alone by both
        if '$' not in s and (r['tm'] != s or r['os'] != s):
            ctx.fail({'case': c, 'impl': r}, 'a value without any "$" is changed by expansion', [])
        terms.append('(%s, %s, (%s, %s))' % (cmap(m), cstr(s), cstr(r['tm']), cstr(r['os'])))
    ctx.count('subst_texts', len(terms))
    bad = ctx.model_mismatches(HEADER, terms, 'check_subst', chunk=1500, name='subst')
    for k, i in enumerate(bad):
        c = cases[i]
        m = ''
        if k < 3:
            m = ctx.model_eval(HEADER, '(tm_sub %s %s, os_expand %s %s)' % (cmap(c['subst']['m']), cstr(c['subst']['s']),
                                                                            cmap(c['subst']['m']), cstr(c['subst']['s'])))
        ctx.disagree(c, results[i], m, 'C17 substitution: flowir.expand_vars (string.Template.safe_substitute) / os.path.expandvars vs '
                                       'Env.Model.tm_sub / os_expand')


# ------------------------------------------------------------------ generation
LAUNCH0 = [['PATH', '/bin:/usr/bin'], ['HOME', '/h'], ['LV', 'launch'], ['PYTHONPATH', '/pp'], ['SECRET', 's3cr3t'],
           ['A', 'launch-a'], ['LD_LIBRARY_PATH', '/lib']]
SYSV0 = [['INSTANCE_DIR', '/inst/e.instance'], ['FLOW_EXPERIMENT_NAME', 'e'], ['FLOW_RUN_ID', 'r']]


def spell(s, how):
    if how == 'lower':
        return s.lower()
    if how == 'upper':
        return s.upper()
    return s[0].upper() + s[1:2].lower() + s[2:].upper()


def exhaustive():
    cases = []
    env_d = [['DEF', 'def-$LV'], ['A', 'env-a'], ['B', '$A/${SECRET}']]
    env_p = [['DEF2', 'p-$HOME'], ['A', 'env-a-p']]
    specials = [None, '', 'environment', 'ENVIRONMENT', 'Environment', 'none', 'NONE', 'None']
    for plat, name, where, dfl, interp in itertools.product(('default', 'p'), specials, ('neither', 'default', 'p', 'both'),
                                                            (False, True), (False, True)):
        d, p = [], []
        if where in ('default', 'both'):
            d.append(['environment', env_d + ([['DEFAULTS', 'PATH:LV:NOPE']] if dfl else [])])
        if where in ('p', 'both'):
            p.append(['environment', env_p + ([['DEFAULTS', 'HOME:A']] if dfl else [])])
        d.append(['foo', [['F', 'f']]])
        cases.append({'platform': plat, 'envs': {'default': d, 'p': p}, 'sysv': SYSV0, 'launch': LAUNCH0, 'name': name,
                      'interp': interp})
    foo_d = [['A', 'a-default'], ['B', 'b:$A:$LV:$INSTANCE_DIR'], ['ONLYD', 'd-$HOME'], ['E', None], ['N', 7]]
    foo_p = [['A', 'a-p'], ['HOME', 'x$HOME'], ['ONLYP', '${A}/p:${UNDEFINED}']]
    for plat, how, where, decl, dfl, interp, envdef in itertools.product(
            ('default', 'p'), ('lower', 'upper', 'mixed'), ('neither', 'default', 'p', 'both'), ('lower', 'upper', 'mixed'),
            ('no', 'default', 'p'), (False, True), (False, True)):
        d, p = [], []
        if envdef:
            d.append(['environment', env_d])
        if where in ('default', 'both'):
            d.append([spell('foo', decl), foo_d + ([['DEFAULTS', 'PATH:HOME:NOPE']] if dfl == 'default' else [])])
        if where in ('p', 'both'):
            p.append([spell('foo', decl), foo_p + ([['DEFAULTS', 'LV:PATH:A']] if dfl == 'p' else [])])
        d.append(['other', [['O', 'o']]])
        cases.append({'platform': plat, 'envs': {'default': d, 'p': p}, 'sysv': SYSV0, 'launch': LAUNCH0,
                      'name': spell('foo', how), 'interp': interp})
    # names without any cased character (lower() == upper() == the name itself: "3.11", "11_8", "_"): already in the
    # form from_dict files them under, every spelling question collapses - what is left is where they are declared
    for base_name, plat, where, dfl, interp, envdef in itertools.product(
            UNCASED[:3], ('default', 'p'), ('neither', 'default', 'p', 'both'), ('no', 'default', 'p'), (False, True), (False, True)):
        d, p = [], []
        if envdef:
            d.append(['environment', env_d])
        if where in ('default', 'both'):
            d.append([base_name, foo_d + ([['DEFAULTS', 'PATH:HOME:NOPE']] if dfl == 'default' else [])])
        if where in ('p', 'both'):
            p.append([base_name, foo_p + ([['DEFAULTS', 'LV:PATH:A']] if dfl == 'p' else [])])
        d.append(['other', [['O', 'o']]])
        cases.append({'platform': plat, 'envs': {'default': d, 'p': p}, 'sysv': SYSV0, 'launch': LAUNCH0,
                      'name': base_name, 'interp': interp})
    return cases


VNAMES = ['A', 'B', 'C', 'PATH', 'HOME', 'LV', 'PYTHONPATH', 'LD_LIBRARY_PATH', 'PYTHONHOME', 'X1', 'lower_v', '_u',
          'INSTANCE_DIR']
LNAMES = ['PATH', 'HOME', 'LV', 'LW', 'PYTHONPATH', 'LD_LIBRARY_PATH', 'PYTHONHOME', 'A', 'SECRET', 'TOKEN', 'X1', 'lower_v',
          '1X', 'A-B', '_']
SNAMES = ['INSTANCE_DIR', 'FLOW_EXPERIMENT_NAME', 'FLOW_RUN_ID']
LITS = ['x', '/opt/bin', ':', 'v-1', '.', '/', 'a b', '=']
ENAMES = ['foo', 'bar', 'gnu-env', 'environment', 'e1']
# legal names without any cased character (an environment named after a toolchain version ...): str.lower(), upper(),
# islower(), isupper() disagree about them in every possible way, and they are their own lower-case form
UNCASED = ['3.11', '11_8', '_', '42', '-', '2024.1-0', '.']
# names whose cased characters are few / at the end (a digit or a sign in first position)
DIGIT_LED = ['3.11a', '1x', '_b', '9-Z']
# outside the common $NAME / ${NAME} fragment of string.Template and os.path.expandvars
ODD = ['$$', '$', '${', '}', '{', '${}', '${A-B}', '$1X', '${1X}', '$$A', '${A', '$A}', '${ A}', '$-', '$$$', '${A}${', '$LVx', '${LV}x',
       '$A$B', '$ A', '${A$B}', '$_', '$__u']


def gen_value(rng, refs):
    r = rng.random()
    if r < 0.06:
        return None
    if r < 0.10:
        return rng.choice([0, 7, -3, 42, True, False])
    if r < 0.14:
        return ''
    parts = []
    for _ in range(rng.randint(1, 4)):
        q = rng.random()
        if q < 0.45:
            n = rng.choice(refs)
            parts.append('${%s}' % n if rng.random() < 0.5 else '$' + n)
        elif q < 0.57:
            parts.append(rng.choice(ODD))
        else:
            parts.append(rng.choice(LITS))
    return ''.join(parts)


def gen_env(rng, refs, launch_keys):
    kvs = []
    for k in rng.sample(VNAMES, rng.randint(0, 5)):
        kvs.append([k, gen_value(rng, refs)])
    r = rng.random()
    if r < 0.45:
        pool = launch_keys + ['NOPE'] + [k for k, _ in kvs] + LNAMES[:4]
        names = [rng.choice(pool) for _ in range(rng.randint(0, 4))]
        if rng.random() < 0.1:
            names.append('')
        if rng.random() < 0.03:
            names.append('DEFAULTS')
        kvs.insert(rng.randint(0, len(kvs)), ['DEFAULTS', ':'.join(names)])
    return kvs


def gen_case(rng):
    launch = [[k, rng.choice(['L-' + k, '/l/bin:/l/usr', 'lv $LW' if k != 'LW' else 'lw', 'l${SECRET}' if k != 'SECRET' else 's', '1',
                              '$$' + k, '${' + k])]
              for k in LNAMES if rng.random() < 0.55]
    if rng.random() < 0.02:
        launch.append(['DEFAULTS', 'SECRET:TOKEN'])
    rng.shuffle(launch)
    lk = [k for k, _ in launch]
    sysv = [[k, rng.choice(['/inst/x.instance', 'sys-' + k, 'id$LV'])] for k in SNAMES if rng.random() < 0.8]
    refs = VNAMES + LNAMES + SNAMES + ['UNDEFINED']
    tabs = {}
    collide = rng.random() < 0.06
    for plat in ('default', 'p'):
        tab = []
        pool = list(ENAMES)
        if rng.random() < 0.3:      # a document that names environments after versions
            pool += rng.sample(UNCASED, 2) + rng.sample(DIGIT_LED, 1)
        for n in rng.sample(pool, rng.randint(0, 4)):
            tab.append([spell(n, rng.choice(['lower', 'lower', 'upper', 'mixed'])), gen_env(rng, refs, lk)])
        if collide and tab:
            n = rng.choice(tab)[0]
            others = [s for s in (n.lower(), n.upper(), spell(n.lower(), 'mixed')) if s not in [t[0] for t in tab]]
            if others:
                tab.insert(rng.randint(0, len(tab)), [rng.choice(others), gen_env(rng, refs, lk)])
        tabs[plat] = tab
    r = rng.random()
    if r < 0.12:
        name = rng.choice([None, '', 'environment', 'Environment'])
    elif r < 0.18:
        name = rng.choice(['none', 'NONE', 'nOne'])
    else:
        declared = [t[0] for plat in ('default', 'p') for t in tabs[plat]]
        pool = declared if (declared and rng.random() < 0.85) else ENAMES[:3] + ['e1', 'missing', '3.11', '0']
        name = spell(rng.choice(pool).lower(), rng.choice(['lower', 'lower', 'upper', 'mixed']))
    return {'platform': rng.choice(['default', 'p', 'p']), 'envs': tabs, 'sysv': sysv, 'launch': launch, 'name': name,
            'interp': rng.random() < 0.35}


# ------------------------------------------------------------------ driving
def run_impl(cases, nproc=4):
    tmp = tempfile.mkdtemp(prefix='verif_c17_')
    try:
        n = len(cases)
        step = max(1, (n + nproc - 1) // nproc)
        procs = []
        for i, off in enumerate(range(0, n, step)):
            pin, pout = os.path.join(tmp, 'in%d.json' % i), os.path.join(tmp, 'out%d.json' % i)
            json.dump(cases[off:off + step], open(pin, 'w'))
            env = common.impl_env()
            p = subprocess.Popen([common.PY, '-W', 'ignore', '-B', os.path.join(common.VERIF, 'harness', 'c17_impl.py'), pin, pout],
                                 env=env, stdout=subprocess.PIPE, stderr=subprocess.STDOUT, cwd=tmp)
            procs.append((p, pout))
        res = []
        for p, pout in procs:
            o, _ = p.communicate(timeout=1500)
            if p.returncode != 0 or not os.path.exists(pout):
                raise RuntimeError('c17_impl failed: ' + o.decode('utf-8', 'replace')[-3000:])
            res.extend(json.load(open(pout)))
        assert len(res) == n
        return res
    finally:
        shutil.rmtree(tmp, ignore_errors=True)


def expressible(x):
    return x == UNKNOWN or isinstance(x, list)


def explore(ctx, cases, twins=()):
    import time
    t0 = time.time()
    results = run_impl(cases, nproc=6)
    ctx.extra['impl_s'] = round(time.time() - t0, 1)
    terms, low_terms, low_seen = [], [], set()
    for c, r in zip(cases, results):
        if 'build' in r or not expressible(r.get('full')) or not expressible(r.get('unexp')) or 'launch_modified' in r:
            ctx.case(c, False)
            ctx.fail({'case': c, 'impl': r}, 'environment construction raised an error other than FlowIREnvironmentUnknown, '
                     'returned non-string entries or modified the launch environment', [])
            continue
        kind, nontriv = predicate(ctx, c, r)
        held_predicate(ctx, c, r)
        ctx.case(c, nontriv)
        ctx.count('kind_' + kind)
        ctx.count('platform_' + c['platform'])
        ctx.count('result_' + ('unknown' if r['full'] == UNKNOWN else 'env'))
        if c['interp']:
            ctx.count('interpreter')
        if isinstance(r['full'], list):
            ctx.count('result_size_%d' % min(len(r['full']), 12))
        if nontriv:
            ctx.sample({'case': c, 'environmentForNode': r['full'], 'unexpanded': r['unexp']}, limit=4)
        terms.append((cterm(c, r), c, r))
        for plat in ('default', 'p'):
            key = json.dumps([[n, [k for k, _ in kvs]] for n, kvs in c['envs'][plat]])
            if key not in low_seen and len(low_seen) < LOWER_CAP and any(n != n.lower() or not n.islower() for n, _ in c['envs'][plat]):
                low_seen.add(key)
                low_terms.append(('(%s, %s)' % (ctab(c['envs'][plat]),
                                                clist(r['held'][plat], lambda ne: '(%s, %s)' % (cstr(ne[0]), clist(ne[1], cstr)))),
                                  c['envs'][plat], r['held'][plat]))
    for i, j, x in twins:     # mirror of C17_launch_independence
        ri, rj = results[i], results[j]
        ctx.count('twin_pairs')
        if ri.get('full') != rj.get('full') or ri.get('unexp') != rj.get('unexp'):
            ctx.fail({'case': cases[i], 'twin': cases[j], 'variable': x, 'impl': ri, 'impl_twin': rj},
                     'a launch variable that is neither imported through DEFAULTS, nor a search-path variable of an interpreter '
                     'component, nor referenced by any value changed the task environment', [])
    bad = ctx.model_mismatches(HEADER, [t[0] for t in terms], 'check_case', chunk=250)
    for k, i in enumerate(bad):
        _, c, r = terms[i]
        m = ''
        if k < 3:
            m = ctx.model_eval(HEADER, '(env_for_node_c %s %s %s %s, env_with_name_c %s %s %s false)' % (
                ccfg(c), cmap(c['launch']), cname(c['name']), cbool(c['interp']),
                ccfg(c), cmap(c['launch']), cname(c['name'])))
        ctx.disagree(c, r, m, 'C17 environment: WorkflowGraph.environmentForNode / environmentWithName(expand=False) vs '
                              'Env.Model.env_for_node / env_with_name')
    bad = ctx.model_mismatches(HEADER, [t[0] for t in low_terms], 'check_lower', chunk=400, name='lower')
    ctx.count('from_dict_tables', len(low_terms))
    for i in bad:
        _, tab, held = low_terms[i]
        ctx.disagree({'declared': tab}, held, '', 'C17 names: FlowIR.from_dict lower-casing vs Env.Model.lower_names')


LOWER_CAP = 800

CORPUS = [
    # the design-time question: a key defined only on the default platform's same-named environment is inherited
    {'platform': 'p', 'envs': {'default': [['Foo', [['ONLYD', 'd'], ['A', 'a-d']]]], 'p': [['foo', [['A', 'a-p']]]]},
     'sysv': SYSV0, 'launch': LAUNCH0, 'name': 'FOO', 'interp': False},
    # self reference without DEFAULTS, empty value, system variable overridden by the package
    {'platform': 'default', 'envs': {'default': [['foo', [['PATH', 'hello:$PATH'], ['E', ''], ['INSTANCE_DIR', 'mine']]]], 'p': []},
     'sysv': SYSV0, 'launch': LAUNCH0, 'name': 'foo', 'interp': True},
    # spelling collision inside one platform
    {'platform': 'p', 'envs': {'default': [['foo', [['A', '1']]], ['FOO', [['B', '2']]]], 'p': [['Foo', [['C', '3']]], ['foo', [['D', '4']]]]},
     'sysv': SYSV0, 'launch': LAUNCH0, 'name': 'foo', 'interp': False},
    # environment names without any cased character: declared on both platforms (layering), on the selected one only
    # next to a cased spelling pair, on platform default only
    {'platform': 'p', 'envs': {'default': [['3.11', [['PYVER', '3.11'], ['PREFIX', '/opt/python'], ['BIN', '$PREFIX/bin']]]],
                               'p': [['3.11', [['PREFIX', '/gpfs/python']]]]},
     'sysv': SYSV0, 'launch': LAUNCH0, 'name': '3.11', 'interp': True},
    {'platform': 'p', 'envs': {'default': [['Cuda', [['V', 'any']]]], 'p': [['11_8', [['CUDA', '11.8'], ['DEFAULTS', 'LV']]], ['CUDA', [['V', 'p']]]]},
     'sysv': SYSV0, 'launch': LAUNCH0, 'name': '11_8', 'interp': False},
    {'platform': 'default', 'envs': {'default': [['_', [['U', 'u-$HOME']]], ['42', [['N', 42]]]], 'p': []},
     'sysv': SYSV0, 'launch': LAUNCH0, 'name': '_', 'interp': False},
]


def run(ctx):
    global LOWER_CAP
    rng = ctx.rng
    if ctx.tier != 'quick':
        LOWER_CAP = 8000
    ctx.rule = ('exhaustive product: platform {default,p} x 8 spellings of the no-selection/none names x default environment '
                'declared on neither/default/p/both x DEFAULTS x interpreter, and platform x requested spelling '
                '{lower,upper,mixed} x declared on neither/default/p/both x declared spelling x DEFAULTS on no/default/p layer x '
                'interpreter x default environment declared, and name without any cased character {3.11, 11_8, _} x platform '
                'x declared on neither/default/p/both x DEFAULTS layer x interpreter x default environment declared (288); '
                'plus random documents (0-4 environments per platform, random '
                'spellings incl. collisions, 30% of the documents with names without cased characters / digit-led names, values with $N/${N} references to environment, launch, system and undefined '
                'variables, "$$", lone "$", unterminated and non-identifier references, YAML null/int/bool scalars, DEFAULTS lists) '
                'under random launch environments; for 300 (thorough 3000) of them a twin differing in one unreferenced launch '
                'variable; the two substitution functions alone on every text of length <= 4 (thorough 5) over "$ { } A 1 space" '
                'plus 600 (6000) random texts; SESSIONS: sequences of questions to ONE FlowIRConcrete of a three-platform document '
                'with global variables and %(name)s references in environment values (instance / replicate for a platform, '
                'get_environment(name, platform), primitive and non-primitive FlowIRExperimentConfiguration built on the object: '
                'environmentForNode / environmentWithName), each answer compared with Env.InstModel on the original document, with a '
                'fresh object and - configurations - with the document without the environments of other names: systematic family '
                'first-question x platform X then platform Y (30), systematic family two environments where one defines a name '
                'the other references x declaration order x global/foreign/own (6 x 12 questions), 400 (thorough 6000) random '
                'sessions; CONFIGURATION SESSIONS: ONE FlowIRExperimentConfiguration object whose inputs change between questions - '
                'parametrize(platform, systemvars, primitive), add_environment(name, env, platform None/default/active), os.environ '
                'replaced - questions environmentForNode + environmentWithName(expand=False), environmentWithName(name), '
                'defaultEnvironment(); every answer vs Env.SessModel on the CURRENT state and vs a fresh configuration object of the '
                'current inputs: systematic family platform X -> Y -> X x default environment declared by each subset of '
                '{default,p,q} x route (48), family add_environment x platform x route x target x declared-on-default (24), family '
                'launch environment changed x platform x route x default environment declared (8), 3 fixed, 120 (thorough 2000) '
                'random sessions of 4-10 operations; non-trivial = a '
                'non-empty declared environment is selected (named or default); distinct by full case')
    cases = list(CORPUS) + exhaustive()
    ctx.count('exhaustive_product_cases', len(cases) - len(CORPUS))
    ctx.exhaustive = True
    nrand = 1200 if ctx.tier == 'quick' else 25000
    rand = [gen_case(rng) for _ in range(nrand)]
    twins = []
    base = len(cases)
    cases += rand
    for i, c in enumerate(rand[:300 if ctx.tier == 'quick' else 3000]):
        t = twin_of(rng, c)
        if t:
            twins.append((base + i, len(cases), t[1]))
            cases.append(t[0])
    explore(ctx, cases, twins)
    explore_subst(ctx, subst_cases(rng, ctx.tier))
    import c17_session
    c17_session.explore_sessions(ctx, c17_session.session_cases(rng, ctx.tier))
    import c17_csession
    c17_csession.explore_csessions(ctx, c17_csession.csession_cases(rng, ctx.tier))


def replay(ctx, path):
    d = json.load(open(path))
    c = d.get('case') or d.get('first', {}).get('case')
    wrapper = {}
    if isinstance(c, dict) and 'case' in c:
        wrapper, c = c, c['case']
    if isinstance(c, dict) and 'session' in c:
        import c17_session
        c17_session.explore_sessions(ctx, [c])
    elif isinstance(c, dict) and 'csession' in c:
        import c17_csession
        c17_csession.explore_csessions(ctx, [c])
    elif isinstance(c, dict) and 'subst' in c:
        explore_subst(ctx, [c])
    elif not c or 'envs' not in c:
        print('replay file names no input (proof/correspondence obligation): re-run ./check C17')
        return 2
    elif 'twin' in wrapper:
        explore(ctx, [c, wrapper['twin']], [(0, 1, wrapper.get('variable'))])
    else:
        explore(ctx, [c])
    for f in ctx.failures:
        print('REPRODUCED: %s' % f['what'])
    for f in ctx.disagreements:
        print('DISAGREEMENT: %s' % (f,))
    return 1 if (ctx.failures or ctx.disagreements) else 0
