"""C07 driver: writes a generated package to a scratch directory, creates a real Experiment instance from it
(ExperimentPackage.packageFromLocation + Experiment.experimentFromPackage, the way tests/utils.py::experiment_from_flowir
does: conf/flowir_instance.yaml is written by store_unreplicated_flowir_to_disk), optionally instantiates k further
DoWhile iterations (WorkflowGraph.instantiate_dowhile_next_iteration(..., store_flowir_to_disk=True)), then loads the
instance directory again (Experiment.experimentFromInstance, what `elaunch.py --restart` does), twice, and reads back
everything the property talks about from the live experiment and from both reloaded ones.

A case (JSON-able):
  kind 'conf': doc (FlowIR package dictionary), files (list of user-variable dictionaries), platform,
               optional folders {name: 'link'|'copy'}: the package is then ONE FlowIR file plus a manifest
               {name: <external directory>:<method>} (real directories holding FOLDER_FILES), so that the instance directory
               gets top-level folders that are symbolic links / copies and the components' direct references into them
               (e.g. shared/lookup.dat:copy) must still be read as references to FOLDERS after the reload
               (Manifest.fromDirectory on the instance directory)
  kind 'loop': c05 (a case of harness/c05.py: DoWhile package), k further iterations before the reload,
               optional rep {'outside': n, 'inside': m}: REPLICATED components are added to the package - outside the loop
               (stage 0: xrep replicates n times, xagg aggregates it) and / or inside the DoWhile document (zrep replicates m times,
               zagg aggregates it) - so that the description stored after an iteration is the one of an experiment whose
               replicated flavour differs from the primitive one
  both kinds:  post = number of explicit FlowIRExperimentConfiguration.store_unreplicated_flowir_to_disk() calls on the BUILT
               experiment after creation / the iterations and before the reload (what elaunch does after it extracted the
               interface); restore = every RELOADED experiment stores explicitly as well, after it was built, before the next
               reload reads the directory
"""
import copy
import logging
import os
import shutil
import tempfile

import yaml

ENV_KEYS_PREFIX = 'VK_'
FOLDER_FILES = ['lookup.dat', 't.csv']


def _canon(o):
    """JSON-able canonical form: dictionaries with string keys sorted by key, floats by repr"""
    if isinstance(o, dict):
        return dict((str(k), _canon(o[k])) for k in sorted(o, key=str))
    if isinstance(o, (list, tuple)):
        return [_canon(x) for x in o]
    if isinstance(o, float):
        return {'__float__': repr(o)}
    return o


def _sorted_components(doc):
    """instance() collects the components from a set: their order in the file is not part of the description"""
    if isinstance(doc, dict) and isinstance(doc.get('components'), list):
        doc['components'] = sorted(doc['components'], key=lambda c: (c.get('stage', 0), str(c.get('name'))))
    return doc


def snapshot(exp, folders=()):
    g = exp.experimentGraph
    gr = g.graph
    snap = {'nodes': sorted(gr.nodes), 'edges': sorted([a, b] for a, b in gr.edges), 'conf': {}, 'refs': {}, 'env': {},
            'raw': {}}
    # the declared (manifest) top-level folders that the experiment knows as top-level folders of its root directory
    try:
        known = set(exp.configuration.top_level_folders)
        snap['folders'] = sorted(f for f in folders if f in known)
    except Exception as e:
        snap['folders'] = ['error:' + type(e).__name__]
    for n in snap['nodes']:
        try:
            conf = g.configurationForNode(n)
            snap['conf'][n] = ['ok', _canon(conf)]
            snap['refs'][n] = list(conf.get('references', []))
        except RecursionError:
            snap['conf'][n] = ['err', 'RecursionError']
        except Exception as e:
            snap['conf'][n] = ['err', type(e).__name__]
        try:
            snap['raw'][n] = ['ok', _canon(g.configurationForNode(n, raw=True))]
        except Exception as e:
            snap['raw'][n] = ['err', type(e).__name__]
        try:
            env = g.environmentForNode(n) or {}
            snap['env'][n] = ['ok', dict((k, env[k]) for k in sorted(env) if k.startswith(ENV_KEYS_PREFIX))]
        except Exception as e:
            snap['env'][n] = ['err', type(e).__name__]
    try:
        docs = g._documents.get('DoWhile', {})
        snap['loops'] = dict((k, {'iteration': v['state']['currentIteration'], 'condition': v['state']['currentCondition']})
                             for k, v in docs.items())
    except Exception as e:
        snap['loops'] = {'error': type(e).__name__}
    try:
        snap['placeholders'] = dict((p, {'latest': v['latest'], 'represents': sorted(v['represents'])})
                                    for p, v in g._placeholders.items())
    except Exception as e:
        snap['placeholders'] = {'error': type(e).__name__}
    return snap


def loop_documents(case):
    """the two documents of a 'loop' case: the C05 package, plus the replicated components that case['rep'] asks for"""
    import c05_impl
    main, dw = c05_impl.documents(case['c05'])
    rep = case.get('rep') or {}
    if rep.get('outside'):
        main['components'].append({'stage': 0, 'name': 'xrep', 'command': {'executable': 'echo', 'arguments': 'x-%(replica)s'},
                                   'workflowAttributes': {'replicate': rep['outside']}})
        main['components'].append({'stage': 0, 'name': 'xagg', 'command': {'executable': 'echo', 'arguments': 'xrep:ref'},
                                   'references': ['xrep:ref'], 'workflowAttributes': {'aggregate': True}})
    if rep.get('inside'):
        first = min([c.get('stage', 0) for c in dw['components']] or [0])
        zrep = {'name': 'zrep', 'command': {'executable': 'echo', 'arguments': 'z-%(replica)s'},
                'workflowAttributes': {'replicate': rep['inside']}}
        zagg = {'name': 'zagg', 'command': {'executable': 'echo', 'arguments': 'zrep:ref'},
                'references': ['zrep:ref'], 'workflowAttributes': {'aggregate': True}}
        if first:
            zrep['stage'] = first
            zagg['stage'] = first
        dw['components'] += [zrep, zagg]
    return main, dw


def _load_stored(ipath):
    return _sorted_components(yaml.safe_load(open(ipath, 'rb').read()))


def drive(case):
    logging.disable(logging.CRITICAL)
    import experiment.model.storage
    import experiment.model.data
    import experiment.model.frontends.flowir as F
    tmp = tempfile.mkdtemp(prefix='verif_c07_')
    cwd = os.getcwd()
    obs = {}
    try:
        pkg = os.path.join(tmp, 'p.package')
        os.makedirs(os.path.join(pkg, 'conf'))
        platform = None
        var_files = None
        manifest = None
        folders = sorted((case.get('folders') or {}).items())
        if case['kind'] == 'conf':
            platform = case['platform']
            if folders:
                # a package that is one FlowIR file + a manifest of external directories
                shutil.rmtree(pkg)
                manifest = {}
                for name, method in folders:
                    ext = os.path.join(tmp, 'ext_' + name)
                    os.makedirs(ext)
                    for fn in FOLDER_FILES:
                        with open(os.path.join(ext, fn), 'w') as f:
                            f.write('1\n')
                    manifest[name] = '%s:%s' % (ext, method)
                pkg = os.path.join(tmp, 'p.yaml')
                with open(pkg, 'w') as f:
                    F.yaml_dump(copy.deepcopy(case['doc']), f)
            else:
                with open(os.path.join(pkg, 'conf', 'flowir_package.yaml'), 'w') as f:
                    F.yaml_dump(copy.deepcopy(case['doc']), f)
            if case.get('files'):
                var_files = []
                for i, uf in enumerate(case['files']):
                    p = os.path.join(tmp, 'vars_%d.yaml' % i)
                    with open(p, 'w') as f:
                        F.yaml_dump(copy.deepcopy(uf), f)
                    var_files.append(p)
        else:
            main, dw = loop_documents(case)
            with open(os.path.join(pkg, 'conf', 'flowir_package.yaml'), 'w') as f:
                yaml.safe_dump(main, f)
            with open(os.path.join(pkg, 'conf', 'dowhile.yaml'), 'w') as f:
                yaml.safe_dump(dw, f)
        os.chdir(tmp)
        try:
            if manifest:
                ep = experiment.model.storage.ExperimentPackage.packageFromLocation(pkg, manifest=manifest, platform=platform)
            else:
                ep = experiment.model.storage.ExperimentPackage.packageFromLocation(pkg, platform=platform)
            exp = experiment.model.data.Experiment.experimentFromPackage(
                ep, location=tmp, platform=platform, variable_files=var_files)
        except Exception as e:
            return {'error': 'create:' + type(e).__name__, 'msg': str(e)[:1500]}
        inst = exp.instanceDirectory.location
        ipath = os.path.join(inst, 'conf', 'flowir_instance.yaml')
        if not os.path.exists(ipath):
            return {'error': 'create:no-instance-file'}
        # the description written while the configuration was initialised (before the experiment was built)
        obs['stored_at_creation'] = _load_stored(ipath)
        if case['kind'] == 'loop':
            c5 = case['c05']
            g = exp.experimentGraph
            dw_name = 'stage%d.%s' % (c5['S'], c5['dwname'])
            try:
                for _ in range(case['k']):
                    node = g._documents[F.FlowIR.LabelDoWhile][dw_name]
                    nxt = node['state']['currentIteration'] + 1
                    g.instantiate_dowhile_next_iteration(node['document'], nxt, True)
            except Exception as e:
                return {'error': 'iterate:' + type(e).__name__, 'msg': str(e)[:1500]}
        # the description as the experiment left it by itself (creation / last iteration) ...
        obs['stored_before_post'] = _load_stored(ipath)
        # ... and explicit stores by the BUILT experiment (elaunch: after the interface was extracted)
        try:
            for _ in range(case.get('post') or 0):
                exp.configuration.store_unreplicated_flowir_to_disk()
        except Exception as e:
            return {'error': 'store:' + type(e).__name__, 'msg': str(e)[:1500]}
        names = [n for n, _m in folders]
        obs['live'] = snapshot(exp, names)
        obs['folder_is_link'] = dict((n, os.path.islink(os.path.join(inst, n))) for n in names)
        bytes0 = open(ipath, 'rb').read()
        stored = _sorted_components(yaml.safe_load(bytes0))
        obs['stored'] = stored
        # the user variables as the experiment layered them (input/variables.yaml of the instance)
        upath = os.path.join(inst, 'input', 'variables.yaml')
        obs['user'] = yaml.safe_load(open(upath)) if os.path.exists(upath) else {}
        reloads = []
        same_bytes = []
        again = []
        for _ in range(2):
            try:
                exp2 = experiment.model.data.Experiment.experimentFromInstance(inst, platform=platform)
            except Exception as e:
                reloads.append({'error': 'reload:' + type(e).__name__, 'msg': str(e)[:1500]})
                break
            reloads.append(snapshot(exp2, names))
            if case.get('restore'):
                # the reloaded experiment, once built, stores its description on request as well
                try:
                    exp2.configuration.store_unreplicated_flowir_to_disk()
                except Exception as e:
                    reloads[-1] = {'error': 'store-after-reload:' + type(e).__name__, 'msg': str(e)[:1500]}
                    break
            b = open(ipath, 'rb').read()
            same_bytes.append(b == bytes0)
            again.append(_sorted_components(yaml.safe_load(b)))
        obs['reloads'] = reloads
        obs['same_bytes'] = same_bytes
        obs['stored_again'] = again
        return obs
    finally:
        try:
            os.chdir(cwd)
        except Exception:
            pass
        shutil.rmtree(tmp, ignore_errors=True)
