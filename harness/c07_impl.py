"""C07 driver: writes a generated package to a scratch directory, creates a real Experiment instance from it
(ExperimentPackage.packageFromLocation + Experiment.experimentFromPackage, the way tests/utils.py::experiment_from_flowir
does: conf/flowir_instance.yaml is written by store_unreplicated_flowir_to_disk), optionally instantiates k further
DoWhile iterations (WorkflowGraph.instantiate_dowhile_next_iteration(..., store_flowir_to_disk=True)), then loads the
instance directory again (Experiment.experimentFromInstance, what `elaunch.py --restart` does), twice, and reads back
everything the property talks about from the live experiment and from both reloaded ones.

A case (JSON-able):
  kind 'conf': doc (FlowIR package dictionary), files (list of user-variable dictionaries), platform,
               optional folders {name: 'link'|'copy'}: the package is then ONE FlowIR file plus a manifest
               {name: <external directory>:<method>} (real directories holding FOLDER_FILES), so that the instance directory
               gets top-level folders that are symbolic links / copies and the components' direct references into them
               (e.g. shared/lookup.dat:copy) must still be read as references to FOLDERS after the reload
               (Manifest.fromDirectory on the instance directory)
  kind 'loop': c05 (a case of harness/c05.py: DoWhile package), k further iterations before the reload,
               optional rep {'outside': n, 'inside': m}: REPLICATED components are added to the package - outside the loop
               (stage 0: xrep replicates n times, xagg aggregates it) and / or inside the DoWhile document (zrep replicates m times,
               zagg aggregates it) - so that the description stored after an iteration is the one of an experiment whose
               replicated flavour differs from the primitive one
  both kinds:  post = number of explicit FlowIRExperimentConfiguration.store_unreplicated_flowir_to_disk() calls on the BUILT
               experiment after creation / the iterations and before the reload (what elaunch does after it extracted the
               interface); restore = every RELOADED experiment stores explicitly as well, after it was built, before the next
               reload reads the directory
  fourth round (directories that ALREADY hold a description / several writers of one directory):
    reload_mode  how the two reloads open the directory: 'update' (experimentFromInstance, re-stores what it loaded), 'noupdate'
               (updateInstanceConfiguration=False: nothing may be written), 'auto' (Experiment(dir, is_instance=None): the flavour
               is chosen by the presence of conf/flowir_instance.yaml)
    leftover   {'kind': 'foreign'} | {'kind': 'other-run', 'platform', 'files', 'k'}: the PACKAGE directory carries a
               conf/flowir_instance.yaml before the instance is created - a hand-made description of another experiment, or the one
               that an earlier run of the same package (other platform / user variables / k more loop iterations) stored
    rebuild    {'platform', 'files' (absent: keep input/variables.yaml), 'update'}: after the reloads the directory, which holds
               the description of the first experiment, is opened as a PACKAGE again (what `elaunch --restart <dir> --platform
               <other>` does: Experiment(ExperimentInstanceDirectory(dir, ignoreExisting=True), platform, updateInstance
               Configuration=update, is_instance=False)), after input/variables.yaml was replaced when `files` is given; with
               update the directory is then reloaded twice for that platform
    overlap    {'a': 'store'|'iterate'|'load', 'b': 'store'|'load', 'at': 'before'|'mid'|'after'}: two OVERLAPPING stores into
               the directory.  Writer B (the last reloaded experiment storing on request, or a whole experimentFromInstance) is
               parked inside its store - it has opened the file it writes to and has written nothing / half / all of its text -
               while writer A (the live experiment: store on request, the next DoWhile iteration, or another complete load of the
               directory) runs one WHOLE store; then B finishes.  One thread, nested calls: exactly the schedule that two threads
               parked on Events would produce, deterministically.
"""
import copy
import logging
import os
import shutil
import tempfile

import yaml

ENV_KEYS_PREFIX = 'VK_'
FOLDER_FILES = ['lookup.dat', 't.csv']


def _canon(o):
    """JSON-able canonical form: dictionaries with string keys sorted by key, floats by repr"""
    if isinstance(o, dict):
        return dict((str(k), _canon(o[k])) for k in sorted(o, key=str))
    if isinstance(o, (list, tuple)):
        return [_canon(x) for x in o]
    if isinstance(o, float):
        return {'__float__': repr(o)}
    return o


def _sorted_components(doc):
    """instance() collects the components from a set: their order in the file is not part of the description"""
    if isinstance(doc, dict) and isinstance(doc.get('components'), list):
        doc['components'] = sorted(doc['components'], key=lambda c: (c.get('stage', 0), str(c.get('name'))))
    return doc


def snapshot(exp, folders=()):
    g = exp.experimentGraph
    gr = g.graph
    snap = {'nodes': sorted(gr.nodes), 'edges': sorted([a, b] for a, b in gr.edges), 'conf': {}, 'refs': {}, 'env': {},
            'raw': {}}
    # the declared (manifest) top-level folders that the experiment knows as top-level folders of its root directory
    try:
        known = set(exp.configuration.top_level_folders)
        snap['folders'] = sorted(f for f in folders if f in known)
    except Exception as e:
        snap['folders'] = ['error:' + type(e).__name__]
    for n in snap['nodes']:
        try:
            conf = g.configurationForNode(n)
            snap['conf'][n] = ['ok', _canon(conf)]
            snap['refs'][n] = list(conf.get('references', []))
        except RecursionError:
            snap['conf'][n] = ['err', 'RecursionError']
        except Exception as e:
            snap['conf'][n] = ['err', type(e).__name__]
        try:
            snap['raw'][n] = ['ok', _canon(g.configurationForNode(n, raw=True))]
        except Exception as e:
            snap['raw'][n] = ['err', type(e).__name__]
        try:
            env = g.environmentForNode(n) or {}
            snap['env'][n] = ['ok', dict((k, env[k]) for k in sorted(env) if k.startswith(ENV_KEYS_PREFIX))]
        except Exception as e:
            snap['env'][n] = ['err', type(e).__name__]
    try:
        docs = g._documents.get('DoWhile', {})
        snap['loops'] = dict((k, {'iteration': v['state']['currentIteration'], 'condition': v['state']['currentCondition']})
                             for k, v in docs.items())
    except Exception as e:
        snap['loops'] = {'error': type(e).__name__}
    try:
        snap['placeholders'] = dict((p, {'latest': v['latest'], 'represents': sorted(v['represents'])})
                                    for p, v in g._placeholders.items())
    except Exception as e:
        snap['placeholders'] = {'error': type(e).__name__}
    # the dataflow as the consumers see it: for every data reference of every component the components that actually
    # produce the data (DataReference.true_reference_to_component_id: a reference to a looped component is a reference to
    # its instance in the LATEST iteration, a :loopref one to all instances; None = a direct reference to a path)
    snap['producers'] = {}
    for n in snap['nodes']:
        try:
            spec = gr.nodes[n]['componentSpecification']
            out = []
            for ref in spec.dataReferences:
                ids = ref.true_reference_to_component_id(g)
                out.append([ref.stringRepresentation, None if ids is None else sorted('stage%d.%s' % (s, c) for s, c in ids)])
            snap['producers'][n] = ['ok', sorted(out, key=lambda x: x[0])]
        except Exception as e:
            snap['producers'][n] = ['err', type(e).__name__]
    return snap


def loop_documents(case):
    """the two documents of a 'loop' case: the C05 package, plus the replicated components that case['rep'] asks for"""
    import c05_impl
    main, dw = c05_impl.documents(case['c05'])
    rep = case.get('rep') or {}
    if rep.get('outside'):
        main['components'].append({'stage': 0, 'name': 'xrep', 'command': {'executable': 'echo', 'arguments': 'x-%(replica)s'},
                                   'workflowAttributes': {'replicate': rep['outside']}})
        main['components'].append({'stage': 0, 'name': 'xagg', 'command': {'executable': 'echo', 'arguments': 'xrep:ref'},
                                   'references': ['xrep:ref'], 'workflowAttributes': {'aggregate': True}})
    if rep.get('inside'):
        first = min([c.get('stage', 0) for c in dw['components']] or [0])
        zrep = {'name': 'zrep', 'command': {'executable': 'echo', 'arguments': 'z-%(replica)s'},
                'workflowAttributes': {'replicate': rep['inside']}}
        zagg = {'name': 'zagg', 'command': {'executable': 'echo', 'arguments': 'zrep:ref'},
                'references': ['zrep:ref'], 'workflowAttributes': {'aggregate': True}}
        if first:
            zrep['stage'] = first
            zagg['stage'] = first
        dw['components'] += [zrep, zagg]
    return main, dw


def _load_stored(ipath):
    return _sorted_components(yaml.safe_load(open(ipath, 'rb').read()))


FOREIGN_DESCRIPTION = {
    'platforms': ['default'], 'variables': {'default': {'global': {'stale': 'yes'}, 'stages': {}}},
    'blueprint': {'default': {'global': {}, 'stages': {}}}, 'environments': {'default': {}},
    'application-dependencies': {'default': []}, 'virtual-environments': {'default': []}, 'output': {}, 'interface': None,
    'status-report': {},
    'components': [{'stage': 0, 'name': 'stale-component', 'command': {'executable': 'echo', 'arguments': 'left over %(stale)s'}}],
}


def _open_instance(inst, platform, mode):
    import experiment.model.data
    import experiment.model.storage
    if mode == 'auto':
        d = experiment.model.storage.ExperimentInstanceDirectory(inst)
        return experiment.model.data.Experiment(d, platform=platform, updateInstanceConfiguration=True, is_instance=None)
    return experiment.model.data.Experiment.experimentFromInstance(
        inst, platform=platform, updateInstanceConfiguration=(mode != 'noupdate'))


def _sig(ipath):
    """identity of the file that holds the description: a store (atomic replacement or not) changes it"""
    try:
        st = os.stat(ipath)
        return (st.st_ino, st.st_mtime_ns, st.st_size)
    except OSError:
        return None


def _hidden(inst):
    """hidden files next to the description (temporary files that a store left behind)"""
    return sorted(n for n in os.listdir(os.path.join(inst, 'conf')) if n.startswith('.'))


def _iterate(exp, case, F):
    c5 = case['c05']
    g = exp.experimentGraph
    node = g._documents[F.FlowIR.LabelDoWhile]['stage%d.%s' % (c5['S'], c5['dwname'])]
    g.instantiate_dowhile_next_iteration(node['document'], node['state']['currentIteration'] + 1, True)


def _write_user_files(tmp, files, F, tag='vars'):
    out = []
    for i, uf in enumerate(files or []):
        p = os.path.join(tmp, '%s_%d.yaml' % (tag, i))
        with open(p, 'w') as f:
            F.yaml_dump(copy.deepcopy(uf), f)
        out.append(p)
    return out or None


def _err(tag, e):
    return {'error': '%s:%s' % (tag, type(e).__name__), 'msg': ' '.join(str(e).split())[:600]}


def overlap_stores(case, exp, exp_b, inst, ipath, platform, names, F):
    """two overlapping stores (see the module docstring); returns what the directory holds afterwards"""
    import experiment.model.data
    ov = case['overlap']
    out = {'desc_b': _load_stored(ipath), 'errors': {}}
    state = {'armed': True, 'parked': False}
    orig = F.yaml_dump

    def run_a():
        state['parked'] = True
        try:
            if ov['a'] == 'iterate':
                _iterate(exp, case, F)
            elif ov['a'] == 'load':
                experiment.model.data.Experiment.experimentFromInstance(inst, platform=platform)
            else:
                exp.configuration.store_unreplicated_flowir_to_disk()
        except Exception as e:
            out['errors']['A'] = _err('overlap-A-' + ov['a'], e)

    def hooked(data, stream=None, **kwargs):
        if state['armed'] and stream is not None and isinstance(data, dict) and 'components' in data:
            state['armed'] = False
            if ov['at'] == 'before':
                run_a()
                return orig(data, stream, **kwargs)
            if ov['at'] == 'after':
                r = orig(data, stream, **kwargs)
                run_a()
                return r
            text = orig(data, None, **kwargs)
            half = len(text) // 2
            stream.write(text[:half])
            run_a()
            stream.write(text[half:])
            return None
        return orig(data, stream, **kwargs)

    F.yaml_dump = hooked
    try:
        try:
            if ov['b'] == 'load':
                exp_b = experiment.model.data.Experiment.experimentFromInstance(inst, platform=platform)
            else:
                exp_b.configuration.store_unreplicated_flowir_to_disk()
        except Exception as e:
            out['errors']['B'] = _err('overlap-B-' + ov['b'], e)
    finally:
        F.yaml_dump = orig
    out['parked'] = state['parked']
    try:
        out['after'] = _load_stored(ipath)
    except Exception as e:
        out['after'] = _err('unreadable', e)
    # what the directory reloads as (nothing is written by this load)
    try:
        out['reload'] = snapshot(experiment.model.data.Experiment.experimentFromInstance(
            inst, platform=platform, updateInstanceConfiguration=False), names)
    except Exception as e:
        out['reload'] = _err('reload', e)
    out['snap_a'] = snapshot(exp, names)
    out['snap_b'] = snapshot(exp_b, names) if exp_b is not None else None
    # the description of writer A, stored alone
    try:
        exp.configuration.store_unreplicated_flowir_to_disk()
        out['desc_a'] = _load_stored(ipath)
    except Exception as e:
        out['desc_a'] = _err('store', e)
    return out


def rebuild_in_place(case, inst, ipath, names, tmp, F, fresh):
    """the directory, which holds a description, is opened as a package again (elaunch --restart --platform <other>)"""
    import experiment.model.data
    import experiment.model.storage
    rb = case['rebuild']
    out = {}
    if 'files' in rb:
        upath = os.path.join(inst, 'input', 'variables.yaml')
        if os.path.exists(upath):
            os.remove(upath)
        if rb['files']:
            with open(upath, 'w') as f:
                F.yaml_dump(copy.deepcopy(rb['files'][0]), f)
    before = open(ipath, 'rb').read()
    out['stored_before'] = _sorted_components(yaml.safe_load(before))
    try:
        d = experiment.model.storage.ExperimentInstanceDirectory(inst, ignoreExisting=True)
        exp3 = experiment.model.data.Experiment(d, platform=rb['platform'], updateInstanceConfiguration=bool(rb['update']),
                                                is_instance=False)
    except Exception as e:
        # is it the configuration (this package with these user variables on this platform is not a valid experiment: a NEW
        # instance cannot be created from it either) or the directory?
        try:
            fresh(rb['platform'], rb['files'] if 'files' in rb else case.get('files'))
        except Exception:
            return {'invalid': type(e).__name__}
        return _err('rebuild', e)
    out['snap'] = snapshot(exp3, names)
    now = open(ipath, 'rb').read()
    out['same_bytes'] = now == before
    out['stored'] = _sorted_components(yaml.safe_load(now))
    out['reloads'] = []
    out['stored_again'] = []
    if rb['update']:
        for _ in range(2):
            try:
                exp4 = experiment.model.data.Experiment.experimentFromInstance(inst, platform=rb['platform'])
            except Exception as e:
                out['reloads'].append(_err('reload', e))
                break
            out['reloads'].append(snapshot(exp4, names))
            out['stored_again'].append(_load_stored(ipath))
    return out


def drive(case):
    logging.disable(logging.CRITICAL)
    import experiment.model.storage
    import experiment.model.data
    import experiment.model.frontends.flowir as F
    tmp = tempfile.mkdtemp(prefix='verif_c07_')
    cwd = os.getcwd()
    obs = {}
    try:
        pkg = os.path.join(tmp, 'p.package')
        os.makedirs(os.path.join(pkg, 'conf'))
        platform = None
        var_files = None
        manifest = None
        folders = sorted((case.get('folders') or {}).items())
        if case['kind'] == 'conf':
            platform = case['platform']
            if folders:
                # a package that is one FlowIR file + a manifest of external directories
                shutil.rmtree(pkg)
                manifest = {}
                for name, method in folders:
                    ext = os.path.join(tmp, 'ext_' + name)
                    os.makedirs(ext)
                    for fn in FOLDER_FILES:
                        with open(os.path.join(ext, fn), 'w') as f:
                            f.write('1\n')
                    manifest[name] = '%s:%s' % (ext, method)
                pkg = os.path.join(tmp, 'p.yaml')
                with open(pkg, 'w') as f:
                    F.yaml_dump(copy.deepcopy(case['doc']), f)
            else:
                with open(os.path.join(pkg, 'conf', 'flowir_package.yaml'), 'w') as f:
                    F.yaml_dump(copy.deepcopy(case['doc']), f)
            if case.get('files'):
                var_files = []
                for i, uf in enumerate(case['files']):
                    p = os.path.join(tmp, 'vars_%d.yaml' % i)
                    with open(p, 'w') as f:
                        F.yaml_dump(copy.deepcopy(uf), f)
                    var_files.append(p)
        else:
            main, dw = loop_documents(case)
            with open(os.path.join(pkg, 'conf', 'flowir_package.yaml'), 'w') as f:
                yaml.safe_dump(main, f)
            with open(os.path.join(pkg, 'conf', 'dowhile.yaml'), 'w') as f:
                yaml.safe_dump(dw, f)
        os.chdir(tmp)
        lo = case.get('leftover')
        if lo and not manifest:
            # the package carries a conf/flowir_instance.yaml: the description of ANOTHER experiment
            lpath = os.path.join(pkg, 'conf', 'flowir_instance.yaml')
            if lo['kind'] == 'other-run':
                try:
                    os.makedirs(os.path.join(tmp, 'earlier'))
                    ep0 = experiment.model.storage.ExperimentPackage.packageFromLocation(pkg, platform=lo.get('platform'))
                    exp0 = experiment.model.data.Experiment.experimentFromPackage(
                        ep0, location=os.path.join(tmp, 'earlier'), platform=lo.get('platform'),
                        variable_files=_write_user_files(tmp, lo.get('files'), F, 'earlier_vars'))
                    for _ in range(lo.get('k') or 0):
                        _iterate(exp0, case, F)
                    text = open(os.path.join(exp0.instanceDirectory.location, 'conf', 'flowir_instance.yaml')).read()
                except Exception as e:
                    return {'error': 'create-earlier-run:' + type(e).__name__, 'msg': str(e)[:1500]}
            else:
                text = yaml.safe_dump(FOREIGN_DESCRIPTION)
            with open(lpath, 'w') as f:
                f.write(text)
            obs['leftover'] = _sorted_components(yaml.safe_load(text))
        try:
            if manifest:
                ep = experiment.model.storage.ExperimentPackage.packageFromLocation(pkg, manifest=manifest, platform=platform)
            else:
                ep = experiment.model.storage.ExperimentPackage.packageFromLocation(pkg, platform=platform)
            exp = experiment.model.data.Experiment.experimentFromPackage(
                ep, location=tmp, platform=platform, variable_files=var_files)
        except Exception as e:
            return {'error': 'create:' + type(e).__name__, 'msg': str(e)[:1500]}
        inst = exp.instanceDirectory.location
        ipath = os.path.join(inst, 'conf', 'flowir_instance.yaml')
        if not os.path.exists(ipath):
            return {'error': 'create:no-instance-file'}
        # the description written while the configuration was initialised (before the experiment was built)
        obs['stored_at_creation'] = _load_stored(ipath)
        # every opening of the directory: [parsed as a package, update requested, a description existed, the file was written]
        if lo and not manifest:
            obs['opens'] = [[True, True, True, open(ipath).read() != text]]
        else:
            obs['opens'] = [[True, True, False, True]]
        if case['kind'] == 'loop':
            c5 = case['c05']
            g = exp.experimentGraph
            try:
                for _ in range(case['k']):
                    _iterate(exp, case, F)
            except Exception as e:
                return {'error': 'iterate:' + type(e).__name__, 'msg': str(e)[:1500]}
        # the description as the experiment left it by itself (creation / last iteration) ...
        obs['stored_before_post'] = _load_stored(ipath)
        # ... and explicit stores by the BUILT experiment (elaunch: after the interface was extracted)
        try:
            for _ in range(case.get('post') or 0):
                exp.configuration.store_unreplicated_flowir_to_disk()
        except Exception as e:
            return {'error': 'store:' + type(e).__name__, 'msg': str(e)[:1500]}
        names = [n for n, _m in folders]
        obs['live'] = snapshot(exp, names)
        obs['folder_is_link'] = dict((n, os.path.islink(os.path.join(inst, n))) for n in names)
        bytes0 = open(ipath, 'rb').read()
        stored = _sorted_components(yaml.safe_load(bytes0))
        obs['stored'] = stored
        # the user variables as the experiment layered them (input/variables.yaml of the instance)
        upath = os.path.join(inst, 'input', 'variables.yaml')
        obs['user'] = yaml.safe_load(open(upath)) if os.path.exists(upath) else {}
        reloads = []
        same_bytes = []
        again = []
        for _ in range(2):
            sig = _sig(ipath)
            try:
                exp2 = _open_instance(inst, platform, case.get('reload_mode') or 'update')
                obs['opens'].append([False, (case.get('reload_mode') or 'update') != 'noupdate', True, _sig(ipath) != sig])
            except Exception as e:
                exp2 = None
                reloads.append({'error': 'reload:' + type(e).__name__, 'msg': str(e)[:1500]})
                break
            reloads.append(snapshot(exp2, names))
            if case.get('restore'):
                # the reloaded experiment, once built, stores its description on request as well
                try:
                    exp2.configuration.store_unreplicated_flowir_to_disk()
                except Exception as e:
                    reloads[-1] = {'error': 'store-after-reload:' + type(e).__name__, 'msg': str(e)[:1500]}
                    break
            b = open(ipath, 'rb').read()
            same_bytes.append(b == bytes0)
            again.append(_sorted_components(yaml.safe_load(b)))
        obs['reloads'] = reloads
        obs['same_bytes'] = same_bytes
        obs['stored_again'] = again
        obs['hidden'] = _hidden(inst)
        complete = len(reloads) == 2 and not any('error' in r for r in reloads)
        if case.get('overlap') and complete:
            obs['overlap'] = overlap_stores(case, exp, exp2, inst, ipath, platform, names, F)
            obs['overlap']['hidden'] = _hidden(inst)
        elif case.get('rebuild') and complete:
            sig = _sig(ipath)
            def fresh(platform2, files2):
                os.makedirs(os.path.join(tmp, 'fresh'))
                kw = {'manifest': manifest} if manifest else {}
                ep2 = experiment.model.storage.ExperimentPackage.packageFromLocation(pkg, platform=platform2, **kw)
                return experiment.model.data.Experiment.experimentFromPackage(
                    ep2, location=os.path.join(tmp, 'fresh'), platform=platform2,
                    variable_files=_write_user_files(tmp, files2, F, 'fresh_vars'))

            obs['rebuild'] = rebuild_in_place(case, inst, ipath, names, tmp, F, fresh)
            if 'error' not in obs['rebuild'] and 'invalid' not in obs['rebuild']:
                obs['opens'].append([True, bool(case['rebuild']['update']), True, _sig(ipath) != sig])
                # (the two reloads of rebuild_in_place follow the signature taken here: not recorded)
        return obs
    finally:
        try:
            os.chdir(cwd)
        except Exception:
            pass
        shutil.rmtree(tmp, ignore_errors=True)
