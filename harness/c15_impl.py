"""C15 — subprocess side of the correspondence run.

Usage: python c15_impl.py JOB.json OUT.json      (PYTHONHASHSEED is chosen by the parent)

The job holds a list of cases.  Every document in it is already written in the key order this process
has to use (JSON objects keep their order), every file list that has to be created on disk comes
with the creation order to use.  The process materialises the files under its own scratch
directory, loads the package with the REAL code and writes one canonical dump per case."""
import json
import logging
import os
import shutil
import sys
import tempfile
import traceback

logging.disable(logging.CRITICAL)


def _fix_keys(doc):
    """JSON turns the integer keys of `stages`/`status-report`-like mappings into strings: undo that where the
    document says so ({'__intkeys__': {...}})."""
    if isinstance(doc, dict):
        if list(doc.keys()) == ['__intkeys__']:
            return {int(k): _fix_keys(v) for k, v in doc['__intkeys__'].items()}
        return {k: _fix_keys(v) for k, v in doc.items()}
    if isinstance(doc, list):
        return [_fix_keys(x) for x in doc]
    return doc


def canon(o, root):
    """JSON-able canonical form: dict keys as strings (sorted at dump time), sets sorted, scratch root removed"""
    if isinstance(o, dict):
        return {str(k): canon(v, root) for k, v in o.items()}
    if isinstance(o, (list, tuple)):
        return [canon(x, root) for x in o]
    if isinstance(o, (set, frozenset)):
        return sorted(canon(x, root) for x in o)
    if isinstance(o, str):
        return o.replace(root, '<TMP>')
    if isinstance(o, float):
        return repr(o)
    if o is None or isinstance(o, (bool, int)):
        return o
    return repr(type(o))


def write_files(base, files, order):
    import yaml
    for name in order:
        content = files[name]
        p = os.path.join(base, name)
        os.makedirs(os.path.dirname(p), exist_ok=True)
        with open(p, 'w') as f:
            if isinstance(content, str):
                f.write(content)
            else:
                yaml.safe_dump(_fix_keys(content), f, sort_keys=False, default_flow_style=False)


class Disk(object):
    """the user variable files of one case on disk; a session changes them between loads only where a load asks for
    another content (the files of the other loads are left alone: same path, same mtime)"""

    def __init__(self, base, vfiles, order):
        self.base, self.current = base, {}
        write_files(base, vfiles, order)
        for n in order:
            self.current[n] = json.dumps(vfiles[n], sort_keys=False)

    def ensure(self, table):
        for n, doc in table.items():
            d = json.dumps(doc, sort_keys=False)
            if self.current.get(n) != d:
                write_files(self.base, {n: doc}, [n])
                self.current[n] = d


def session_loads(case):
    """[(index, effective file table, files given)] in the order THIS process has to perform the loads; a case that
    is not a session is one load"""
    if 'loads' not in case:
        return [(None, case['vfiles'], case['given'])]
    out = []
    for i in case['load_order']:
        ld = case['loads'][i]
        table = dict(case['vfiles'])
        table.update(ld.get('override') or {})
        out.append((i, table, ld['given']))
    return out


def run_vars(case, base, root):
    disk = Disk(base, case['vfiles'], case['create_order'])
    results = {}
    for idx, table, given in session_loads(case):
        disk.ensure(table)
        results[idx] = one_vars_load(case, base, root, given)
    if 'loads' not in case:
        return results[None]
    return {'session': [results[i] for i in range(len(case['loads']))]}


def one_vars_load(case, base, root, given_names):
    """in-memory package + user variable files through FlowIRExperimentConfiguration.__init__ and .parametrize, and
    the files as given through layer_many_variable_files itself"""
    import experiment.model.conf as C
    import experiment.model.frontends.flowir as F
    given = [os.path.join(base, n) for n in given_names]
    out = {}
    for how in ('init', 'parametrize'):
        res = {}
        try:
            concrete = F.FlowIRConcrete(_fix_keys(json.loads(json.dumps(case['flowir']))), case.get('platform') or 'default', {})
            before = {}
            for s_ in range(concrete.get_stage_number()):
                try:
                    before[s_] = concrete.get_platform_stage_variables(s_, platform=concrete.active_platform)
                except Exception:
                    before[s_] = {}
            res['stage_vars_before'] = before
            if how == 'init':
                cfg = C.FlowIRExperimentConfiguration(
                    path=None, platform=case.get('platform'), variable_files=list(given), system_vars=None,
                    is_instance=False, createInstanceFiles=False, primitive=True, concrete=concrete,
                    updateInstanceFiles=False)
            else:
                cfg = C.FlowIRExperimentConfiguration(
                    path=None, platform=case.get('platform'), variable_files=None, system_vars=None,
                    is_instance=False, createInstanceFiles=False, primitive=True, concrete=concrete,
                    updateInstanceFiles=False)
                cfg.parametrize(platform=case.get('platform'), variable_files=list(given), systemvars=None,
                                is_instance=False, createInstanceFiles=False, primitive=True,
                                updateInstanceFiles=False)
            res['uv'] = cfg.get_user_variables()
            res['layered'] = [os.path.basename(p) for p in cfg._variable_files]
            conc = cfg.get_flowir_concrete(return_copy=False)
            inj = {}
            for s in range(conc.get_stage_number()):
                inj[s] = conc.get_platform_stage_variables(s, platform=conc.active_platform)
            res['stage_vars'] = inj
            res['global'] = cfg.get_global_variables()
            comps = {}
            for cid in sorted(conc.get_component_identifiers(True)):
                try:
                    comps['stage%d.%s' % cid] = conc.get_component_configuration(
                        cid, raw=False, include_default=True, is_primitive=True)
                except Exception as e:
                    comps['stage%d.%s' % cid] = 'raise ' + type(e).__name__
            res['components'] = comps
        except Exception as e:
            res = {'error': type(e).__name__}
            if os.environ.get('C15_DEBUG'):
                res['trace'] = traceback.format_exc()
        out[how] = res
    try:
        out['layer_many'] = {'uv': C.FlowIRExperimentConfiguration.layer_many_variable_files(list(given))}
    except Exception as e:
        out['layer_many'] = {'error': type(e).__name__}
    return canon(out, root)


def run_pkg(case, base, root):
    """a package on disk (FlowIR or DSL 2) turned into an Experiment the way tests/utils.py does; a session loads the
    same package several times in this process, each time with its own list of variable files"""
    pkg = os.path.join(base, 'p.package')
    main = 'conf/flowir_package.yaml' if case['format'] == 'flowir' else 'conf/dsl.yaml'
    files = dict(case['files'])
    files[main] = case['doc']
    write_files(pkg, files, [n for n in case['create_order'] if n in files] + [n for n in files if n not in case['create_order']])
    disk = Disk(base, case['vfiles'], case['vcreate_order'])
    write_files(base, case['inputs'], sorted(case['inputs']))
    results = {}
    for idx, table, given in session_loads(case):
        disk.ensure(table)
        results[idx] = one_pkg_load(case, pkg, base, root, given)
    if 'loads' not in case:
        return results[None]
    return {'session': [results[i] for i in range(len(case['loads']))]}


def run_multi(case, base, root):
    """several DIFFERENT packages loaded one after the other in this process, in the order of this process (another
    process starts with another package): what a package loads into must not depend on what was loaded before"""
    results = {}
    for i in case['pkg_order']:
        b = os.path.join(base, 'k%d' % i)
        os.makedirs(b)
        results[i] = run_pkg(case['packages'][i], b, root)
    return {'packages': [results[i] for i in range(len(case['packages']))]}


def process_state():
    """the mutable containers (list / dict / set) that are module globals or class attributes of the four anchored
    modules: a process is modelled WITHOUT state, so a load must leave them as it found them"""
    import importlib
    out = {}
    for mn in ('experiment.model.frontends.flowir', 'experiment.model.frontends.dsl', 'experiment.model.conf',
               'experiment.model.graph'):
        try:
            mod = importlib.import_module(mn)
        except Exception:
            continue

        def put(name, val):
            try:
                out[name] = json.dumps(canon(val, '\0'), sort_keys=True, default=repr)
            except Exception as e:
                out[name] = 'unprintable ' + type(e).__name__
        for name, obj in list(vars(mod).items()):
            if name.startswith('__'):
                continue
            if isinstance(obj, (list, dict, set)):
                put('%s.%s' % (mn, name), obj)
            elif isinstance(obj, type) and getattr(obj, '__module__', None) == mn:
                for an, av in list(vars(obj).items()):
                    if not an.startswith('__') and isinstance(av, (list, dict, set)):
                        put('%s.%s.%s' % (mn, name, an), av)
    return out


def one_pkg_load(case, pkg, base, root, given_names):
    import experiment.model.storage as S
    import experiment.model.data as D
    given = [os.path.join(base, n) for n in given_names]
    res = {}
    try:
        os.chdir(base)
        package = S.ExperimentPackage.packageFromLocation(pkg, platform=case.get('platform'))
        exp = D.Experiment.experimentFromPackage(
            package, location=base, variable_files=given or None, platform=case.get('platform'),
            inputs=[os.path.join(base, n) for n in sorted(case['inputs'])] or None)
        exp.validateExperiment(checkExecutables=False)
        g = exp.experimentGraph
        nodes = sorted(g.graph.nodes)
        res['names'] = nodes
        res['edges'] = sorted([list(e) for e in g.graph.edges])
        conc = exp.configuration.get_flowir_concrete(return_copy=False)
        res['user_variables'] = exp.configuration.get_user_variables()
        comps = {}
        envs = {}
        hashes = {}
        for n in nodes:
            spec = g.graph.nodes[n]['componentSpecification']
            try:
                comps[n] = spec.configuration
            except Exception as e:
                comps[n] = 'raise ' + type(e).__name__
            try:
                # a component without a named environment inherits os.environ (which holds PYTHONHASHSEED and other
                # per-process values on purpose): dump what is NOT simply inherited, and the inherited key set
                env = spec.environment
                envs[n] = {'own': {k: ('<per-instance uuid>' if k == 'FLOW_RUN_ID' else v) for k, v in env.items()
                                   if os.environ.get(k) != v},
                           'inherited_keys_missing': sorted(k for k in os.environ if k not in env)}
            except Exception as e:
                envs[n] = 'raise ' + type(e).__name__
            try:
                hashes[n] = [spec.memoization_hash, spec.memoization_hash_fuzzy, spec.memoization_info]
            except Exception as e:
                hashes[n] = 'raise ' + type(e).__name__
        res['components'] = comps
        res['environments'] = envs
        res['memoization'] = hashes
        res['platform_variables'] = conc.get_platform_variables()
        res['flowir_environments'] = conc.get_environments()
        # FlowIR.from_dict normalises the environment names of EVERY platform, not just the active one
        every = {}
        for plat in sorted(conc.platforms):
            try:
                every[plat] = conc.get_environments(plat)
            except Exception as e:
                every[plat] = 'raise ' + type(e).__name__
        res['flowir_environments_every_platform'] = every
        res['top_level_folders'] = sorted(exp.configuration.top_level_folders)
        inst = exp.instanceDirectory.location
        res['instance_conf'] = sorted(os.listdir(os.path.join(inst, 'conf')))
        res['instance_input'] = sorted(os.listdir(os.path.join(inst, 'input')))
    except Exception as e:
        res = {'error': type(e).__name__}
        if os.environ.get('C15_DEBUG'):
            res['trace'] = traceback.format_exc()
            res['message'] = str(e)[:300]
    out = canon(res, root)
    # the instance directory name carries a timestamp: remove it
    return json.loads(_strip_instance(json.dumps(out)))


# ------------------------------------------------------------------ the order in which the file system lists files
LISTING_ORDERS = ['as listed by the file system', 'ascending', 'descending', 'rotated', 'even entries then odd entries',
                  'odd entries then even entries, reversed']


def _ordered(v, names, key=None):
    s = sorted(names, key=key)
    if v == 1:
        return s
    if v == 2:
        return s[::-1]
    if v == 3:
        return s[len(s) // 2:] + s[:len(s) // 2]
    if v == 4:
        return s[::2] + s[1::2]
    return (s[1::2] + s[::2])[::-1]


class _Scan(object):
    """os.scandir() result whose entries come in the order of this process (iterator + context manager)"""

    def __init__(self, it, v):
        self._it = it
        self._entries = iter(_ordered(v, list(it), key=lambda e: e.name))

    def __iter__(self):
        return self

    def __next__(self):
        return next(self._entries)

    def close(self):
        self._it.close()

    def __enter__(self):
        return self

    def __exit__(self, *a):
        self._it.close()
        return False


def install_listing_order(v):
    """process number v sees every directory listing (os.listdir, os.scandir and through it glob / os.walk /
    shutil.copytree, glob.glob) in its own order; process 0 keeps what the file system reports"""
    import glob
    if not v:
        return
    real_listdir, real_scandir, real_glob = os.listdir, os.scandir, glob.glob
    os.listdir = lambda *a, **k: _ordered(v, real_listdir(*a, **k))
    os.scandir = lambda *a, **k: _Scan(real_scandir(*a, **k), v)
    glob.glob = lambda *a, **k: _ordered(v, real_glob(*a, **k))


# ------------------------------------------------------------------ ONE configuration object, re-parametrized
def _observe_cfg(cfg, root):
    res = {}
    res['uv'] = cfg.get_user_variables()
    res['layered'] = [os.path.basename(p) for p in cfg._variable_files]
    res['platform'] = cfg.get_platform_name()
    conc = cfg.get_flowir_concrete(return_copy=False)
    res['stage_vars'] = {s: conc.get_platform_stage_variables(s, platform=conc.active_platform)
                         for s in range(conc.get_stage_number())}
    every = {}
    for plat in sorted(conc.platforms):
        every[plat] = {}
        for s in range(conc.get_stage_number()):
            try:
                every[plat][s] = conc.get_platform_stage_variables(s, platform=plat)
            except Exception as e:
                every[plat][s] = 'raise ' + type(e).__name__
    res['stage_vars_every_platform'] = every
    res['global'] = cfg.get_global_variables()
    res['environments'] = conc.get_environments()
    comps = {}
    for cid in sorted(conc.get_component_identifiers(True)):
        try:
            comps['stage%d.%s' % cid] = conc.get_component_configuration(
                cid, raw=False, include_default=True, is_primitive=True)
        except Exception as e:
            comps['stage%d.%s' % cid] = 'raise ' + type(e).__name__
    res['components'] = comps
    return res


def _cfg_loader(case, base):
    """-> load(platform, variable files, is_instance=False, location=None): a NEW configuration object"""
    import experiment.model.conf as C
    import experiment.model.frontends.flowir as F
    if case['format'] == 'memory':
        def load(platform, given, is_instance=False, location=None):
            concrete = F.FlowIRConcrete(_fix_keys(json.loads(json.dumps(case['flowir']))), platform or 'default', {})
            return C.FlowIRExperimentConfiguration(
                path=None, platform=platform, variable_files=list(given), system_vars=None, is_instance=False,
                createInstanceFiles=False, primitive=True, concrete=concrete, updateInstanceFiles=False)
        return load
    pkg = os.path.join(base, 'p.package')
    files = dict(case['files'])
    if case['format'] in ('flowir', 'dsl'):
        files['conf/flowir_package.yaml' if case['format'] == 'flowir' else 'conf/dsl.yaml'] = case['doc']
    write_files(pkg, files, [n for n in case['create_order'] if n in files] + [n for n in files if n not in case['create_order']])

    def load(platform, given, is_instance=False, location=None):
        return C.ExperimentConfigurationFactory.configurationForExperiment(
            location or pkg, platform=platform, variable_files=list(given), is_instance=is_instance,
            createInstanceFiles=False, updateInstanceFiles=False, primitive=True)
    return load


def _guard(fn, root):
    try:
        return fn()
    except Exception as e:
        res = {'error': type(e).__name__}
        if os.environ.get('C15_DEBUG'):
            res['trace'] = traceback.format_exc()
        return res


def run_cfg(case, base, root):
    """ONE configuration object of a package (in-memory FlowIR, FlowIR file, DSL 2.0, DOSINI): constructed with the
    options of the first call THIS process performs, then re-parametrized with the options of the other calls; the
    answer to call i is dumped under i (in some other process call i is the constructor: a fresh load)"""
    load = _cfg_loader(case, base)
    Disk(base, case['vfiles'], case['vcreate_order'])
    os.chdir(base)
    pristine = {}
    results = {}
    obj = None
    for i in case['call_order']:
        call = case['calls'][i]
        plat, given = call.get('platform'), [os.path.join(base, n) for n in call['given']]
        if plat not in pristine:
            # the stage variables of the package itself (a load without user variable files), for the model
            pristine[plat] = _guard(lambda: _observe_cfg(load(plat, []), root)['stage_vars'], root)

        def answer():
            nonlocal obj
            if obj is None:
                obj = load(plat, given)
            else:
                obj.parametrize(platform=plat, variable_files=list(given), systemvars=None, is_instance=False,
                                createInstanceFiles=False, primitive=True, updateInstanceFiles=False)
            return _observe_cfg(obj, root)
        r = _guard(answer, root)
        if 'error' not in r:
            r['stage_vars_before'] = pristine[plat]
        results[i] = r
    return canon({'calls': [results[i] for i in range(len(case['calls']))]}, root)


def run_inst(case, base, root):
    """a DOSINI package instantiated by the real Experiment.experimentFromPackage (user variable files / platform):
    conf/stages.d of the instance holds BOTH flavours of every stage file.  Loaded afterwards: the package, the
    package flavour of the instance directory (is_instance=False), its instance flavour (is_instance=True)"""
    import experiment.model.storage as S
    import experiment.model.data as D
    load = _cfg_loader(case, base)
    Disk(base, case['vfiles'], case['vcreate_order'])
    os.chdir(base)
    plat = case.get('platform')
    given = [os.path.join(base, n) for n in case['given']]
    out = {}
    out['package'] = _guard(lambda: _observe_cfg(load(plat, []), root), root)

    def instantiate():
        package = S.ExperimentPackage.packageFromLocation(os.path.join(base, 'p.package'), platform=plat)
        exp = D.Experiment.experimentFromPackage(package, location=base, variable_files=given or None, platform=plat)
        return exp.instanceDirectory.location
    try:
        inst = instantiate()
    except Exception as e:
        return canon({'error': 'instantiate: ' + type(e).__name__, 'trace': traceback.format_exc()[-600:]
                      if os.environ.get('C15_DEBUG') else None}, root)
    out['stage_files'] = sorted(os.listdir(os.path.join(inst, 'conf', 'stages.d')))
    out['package_flavour_of_instance'] = _guard(lambda: _observe_cfg(load(plat, [], False, inst), root), root)
    out['instance_flavour_of_instance'] = _guard(lambda: _observe_cfg(load(None, [], True, inst), root), root)
    # and the package once more, after the instance was made out of it
    out['package_again'] = _guard(lambda: _observe_cfg(load(plat, []), root), root)
    return json.loads(_strip_instance(json.dumps(canon(out, root))))


def _strip_instance(s):
    import re
    return re.sub(r'p-\d{4}-\d{2}-\d{2}T\d{6}\.\d+\.instance', 'p.instance', s)


def main():
    job_path, out_path = os.path.abspath(sys.argv[1]), os.path.abspath(sys.argv[2])
    job = json.load(open(job_path))
    root = tempfile.mkdtemp(prefix='verif_c15_')
    if not os.environ.get('C15_NO_LISTING_ORDER'):
        install_listing_order(job.get('variant', 0))
    out = []
    state_before = process_state()
    try:
        for i, case in enumerate(job['cases']):
            base = os.path.join(root, 'c%d' % i)
            os.makedirs(base)
            os.chdir(root)      # the working directory of the previous case is gone
            try:
                runner = {'vars': run_vars, 'pkg': run_pkg, 'cfg': run_cfg, 'inst': run_inst,
                          'multi': run_multi}[case['kind']]
                r = runner(case, base, root + '/c%d' % i)
            except Exception as e:  # machinery error: reported as such
                r = {'harness_error': type(e).__name__ + ': ' + str(e)[:300], 'trace': traceback.format_exc()[-1500:]}
            out.append(json.dumps(r, sort_keys=True))
            shutil.rmtree(base, ignore_errors=True)
    finally:
        os.chdir('/')
        shutil.rmtree(root, ignore_errors=True)
    state_after = process_state()
    changed = {k: [state_before.get(k), state_after.get(k)] for k in sorted(set(state_before) | set(state_after))
               if state_before.get(k) != state_after.get(k)}
    json.dump({'seed': os.environ.get('PYTHONHASHSEED'), 'dumps': out, 'state_changed': changed}, open(out_path, 'w'))
    sys.stdout.flush()
    os._exit(0)


if __name__ == '__main__':
    main()
