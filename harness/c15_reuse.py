"""C15 — ONE configuration object that is re-parametrized, and DOSINI instance directories (both flavours of the
stage files side by side) under permuted directory listings.  Generators + predicates; the subprocess side is
c15_impl.run_cfg / run_inst.

cfg case  = a package of one of four kinds (in-memory FlowIR handed over as FlowIRConcrete, FlowIR file package,
            DSL 2.0 package, DOSINI package) + 2-4 user variable files + 3-5 CALLS (list of variable files - also
            none -, platform).  A process builds ONE object with the options of the first call it performs and
            re-parametrizes it (FlowIRExperimentConfiguration.parametrize) with the options of the others; process v
            starts with call v mod n, so the answer to every call is compared byte for byte with the answer of a
            process for which it is the very first load ("a fresh process with the same package and options").
inst case = a DOSINI package (optionally with a second platform) + user variable files; the real
            Experiment.experimentFromPackage creates an instance (conf/stages.d then holds stage<N>.conf AND
            stage<N>.instance.conf); the package, the package flavour of the instance directory (is_instance=False)
            and its instance flavour (is_instance=True) are loaded; process v lists every directory in its own order.
"""
import copy

NAMES = ['x', 'y', 'w', 'q', 'alpha', 'beta']

CLASS_DSL = 'dsl_configuration_object_reparametrized_with_other_global_user_variables'


def dosini_files(flowir):
    """the DOSINI spelling of a FlowIR document of gen_vars_case (components: name, stage, executable, arguments;
    variables: global / stages of the default platform and of one more platform)"""
    files = {'conf/experiment.conf': '[DEFAULT]\n'}
    nstages = 1 + max(c['stage'] for c in flowir['components'])

    def sections(v):
        txt = ''
        if v.get('global'):
            txt += '[GLOBAL]\n' + ''.join('%s=%s\n' % kv for kv in v['global'].items()) + '\n'
        for s, d in (v.get('stages') or {}).items():
            txt += '[STAGE%d]\n' % s + ''.join('%s=%s\n' % kv for kv in d.items()) + '\n'
        return txt
    for plat, v in flowir['variables'].items():
        if plat == 'default':
            files['conf/variables.conf'] = sections(v)
        else:
            files['conf/variables.d/%s.conf' % plat] = sections(v) or '[GLOBAL]\n'
    for s in range(nstages):
        txt = ''
        for c in flowir['components']:
            if c['stage'] == s:
                txt += '[%s]\nexecutable=%s\narguments=%s\n\n' % (c['name'], c['command']['executable'],
                                                                 c['command']['arguments'])
        files['conf/stages.d/stage%d.conf' % s] = txt
    return files


def layered_global(case, given):
    g = {}
    for n in given:
        g.update(case['vfiles'][n].get('global') or {})
    return g


def classes_of(case):
    """open finding F15c: a DSL 2.0 configuration substitutes the parameters of the entrypoint when it is CONSTRUCTED
    (namespace_to_flowir with override_entrypoint_args = the global user variables of the constructor); parametrize()
    starts from that FlowIR"""
    if case.get('kind') == 'cfg' and case.get('format') == 'dsl':
        gs = [layered_global(case, c['given']) for c in case['calls']]
        if any(g != gs[0] for g in gs):
            return [CLASS_DSL]
    return []


def gen_calls(rng, names, plats, ncalls):
    full = list(names)
    rng.shuffle(full)
    lists = [full]
    while len(lists) < ncalls:
        prev = rng.choice(lists)
        r = rng.random()
        if r < 0.25:
            l = []                                   # parametrize without variable files
        elif r < 0.55:
            l = rng.sample(names, rng.randint(1, max(1, len(names) - 1)))
        elif r < 0.7 and len(prev) > 1:
            l = list(reversed(prev))
        elif r < 0.85:
            l = rng.sample(names, len(names))
        else:
            l = list(prev)                           # the same options twice in a row / again later
        lists.append(l)
    if [] not in lists and rng.random() < 0.5:
        lists[rng.randrange(1, len(lists))] = []
    rng.shuffle(lists)
    return [{'given': l, 'platform': rng.choice(plats)} for l in lists]


def gen_cfg_case(rng, fmt, gen_vars_case, gen_dsl_pkg):
    if fmt == 'dsl':
        base = gen_dsl_pkg(rng)
        stages_only = rng.random() < 0.5         # outside the class of F15c: the files differ in stage variables only
        k = rng.choice([2, 3])
        vfiles = {}
        for fi in range(k):
            doc = {}
            if not stages_only:
                doc['global'] = {v: 'f%d-%s' % (fi, v) for v in rng.sample(['foo', 'x'], rng.randint(1, 2))}
            if stages_only or rng.random() < 0.5:
                doc['stages'] = {0: {v: 'f%ds0-%s' % (fi, v) for v in rng.sample(['zed', 'x', 'kappa'], rng.randint(1, 2))}}
            vfiles['u%d.yaml' % fi] = doc
        case = {'kind': 'cfg', 'format': 'dsl', 'doc': base['doc'], 'files': {}, 'vfiles': vfiles, 'platforms': [None]}
    else:
        while True:
            base = gen_vars_case(rng)
            if len(base['vfiles']) >= 2:
                break
        case = {'kind': 'cfg', 'format': fmt, 'vfiles': base['vfiles'], 'nstages': base['nstages'],
                'platforms': [None, base['platform']] if base['platform'] else [None], 'files': {}}
        if fmt == 'memory':
            case['flowir'] = base['flowir']
        elif fmt == 'flowir':
            case['doc'] = base['flowir']
        else:
            case['files'] = dosini_files(base['flowir'])
            case['flowir_of_dosini'] = base['flowir']
    case['inputs'] = {}
    case['calls'] = gen_calls(rng, sorted(case['vfiles']), case['platforms'], rng.randint(3, 5))
    case['given'] = case['calls'][0]['given']
    case['platform'] = case['calls'][0]['platform']
    return case


def gen_inst_case(rng, gen_vars_case):
    while True:
        base = gen_vars_case(rng)
        if base['vfiles']:
            break
    given = list(base['given'])
    if rng.random() < 0.15:
        given = []            # an instance without user variables: its two flavours differ by the platform at most
    return {'kind': 'inst', 'format': 'dosini', 'files': dosini_files(base['flowir']), 'vfiles': base['vfiles'],
            'given': given, 'platform': base['platform'], 'nstages': base['nstages'], 'inputs': {},
            'flowir_of_dosini': base['flowir']}
