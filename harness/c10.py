"""C10 — Command-line reference substitution is exact.
Implementation driven: real packages written to a scratch directory and instantiated as real
Experiment objects (experiment.model.storage.ExperimentPackage.packageFromLocation +
Experiment.experimentFromPackage, as tests/utils.py::experiment_from_flowir does, minus the final
validateExperiment so that the workflows the pinned code wrongly rejects can still be observed);
every case is one consumer component of such an instance; observed: the real
ComponentSpecification.resolveArguments(unresolved=, unused=), the declared-reference list the
real code iterates over (spellings), checkDataReferences() (accept / reject) and, for a sample,
ComponentSpecification.command.arguments.  Sessions (explore_live): one consumer of one live graph resolved
repeatedly through ComponentSpecification.resolveArguments, Job.resolveArguments, Job.command.arguments and
ComponentSpecification.command.arguments while the files of its producers change (Args.ValueModel.resolve_on)."""
import itertools
import json
import os
import re
import shutil
import tempfile
import time
import uuid

import common
from common import clist, cstr, cbool, cpair

PROP = 'C10'
COQ_DIR = 'Args'
ASSUMPTIONS = [
    'the value of a reference is computed by the harness from the instance layout (r_value) and given to the model of '
    'resolveArguments; that every such value and spelling is the one Args.ValueModel (model of absoluteReference / '
    'relativeReference / DataReference.resolve) computes from the reference and the walked file system is checked inside '
    'Coq for every distinct reference of the run (check_dref); the real DataReference objects are compared with that model '
    'on a separate pool (check_value: every file part x method x producer of the pool)',
    'ValueModel does not cover glob patterns or ".." in file parts, symbolic links, non-ASCII file '
    'contents; repeating producers: 9 of the 24 producers repeat (workflowAttributes.repeatInterval; checked against the real '
    'workflowAttributes), their streams directories are written by the harness (indices of different numbers of digits, streams '
    'of the other type, none, no directory) and, in the sessions, by the real experiment.runtime.engine.archive_stream called as '
    'RepeatingEngine calls it; a streams directory holds only names <digits>.<type> plus names glob / splitext discard (a name '
    'like temp_3.stdout, which archive_stream leaves for an instant, makes int() of the code raise ValueError: outside the model); '
    'consumers do not repeat themselves',
    'argument strings come with the tokenisation of the code\'s own recogniser (regular expression of '
    'FlowIR.discover_reference_strings); every generated string is checked against that expression',
    'literal text holds no %(variable)s references and no [index] accesses (FlowIR.fill_in is then the identity); on an '
    'instantiated experiment commandDetails["arguments"] is already interpolated, so resolveArguments never sees %(variable)s; '
    'the same for the contents of the files read through :output references: they hold backslashes, regular-expression '
    'group references, & $ % {} quotes (all put in verbatim), but no "%(name)s" and no "word[N]", which FlowIR.fill_in at '
    'the end of resolveArguments interprets by design (<reference>[<index>] interpolation)',
    'sessions (repeated resolution on one live graph): files of the producers / input files are rewritten, created, deleted or '
    'replaced by a directory between two resolutions; all four entry points are called at every step; the file system given '
    'to the model is walked from the instance just before the calls; Job.command.arguments is read without the shell '
    'expansion of Command.commandLine',
    'in the 24-producer instances only ref / output / copy references are generated; copy references are declared but never '
    'written in the arguments; a reference is declared once, or - a producer of the consumer\'s own stage, about 8% of the cases - twice (in both spellings, now and then twice in one), never more',
    'DoWhile loops (harness/c10_loops.py): one document imported in stage 1 (looped components step, mon - repeating -, check, '
    'and late in the second stage of the document), advanced 2-6 iterations with the real '
    'WorkflowGraph.instantiate_dowhile_next_iteration; consumers outside the loop (stage 1 next to it, stage 2 after it) '
    'reference the PLACEHOLDERS through ref / output / loopref / loopoutput with and without file part, always in the absolute '
    'spelling (the loader rejects the relative spelling of a placeholder in the arguments); the files of the iterations are '
    'written by the harness (empty, only newlines, several lines, missing, a directory; streams directories of the repeating '
    'looped component), earlier iterations are sometimes rewritten; the model is given the instances in the order '
    'WorkflowGraph._placeholders lists them; files read through loopoutput hold no carriage return (text mode translates them); '
    'when two or more iterations of a loopoutput reference cannot be read resolveArguments raises InternalInconsistencyError '
    '(model: None) and ComponentSpecification.command.arguments (ignoreErrors=True) substitutes the empty string - that entry '
    'point is then compared with the Python oracle only',
    'instance paths are rewritten to /I before comparing (they contain no colon, so no spelling)',
]
HEADER = 'Require Import V.Lib.PyStr V.Args.Model.\nOpen Scope string_scope.'
HEADER_R = 'Require Import V.Lib.PyStr V.Args.Model V.Args.Redeclared.\nOpen Scope string_scope.'
HEADER_V = 'Require Import V.Lib.PyStr V.Args.Model V.Args.ValueModel.\nOpen Scope string_scope.'
# file parts of the value correspondence (as written: nothing is normalised by the code)
VFILES = [None, 'o.txt', 'p.txt', 'A', 'missing.txt', 'sub', 'sub/', 'sub/./o.txt', 'sub//o.txt', 'o.txt/', 'sub/.', './o.txt',
          'e.txt']
VMETHODS = ['ref', 'copy', 'link', 'output', 'copyout', 'extract']
STDOUT_OF = {'A': '\n so \n\n', 'AB': '', 'BAB': 'x:y',         # producers that have an out.stdout (all stages)
             'BB': 'C:\\tmp\\new & \\1 %s\n', 'ABA': '$0 \\g<0> \\\\\n\n'}
PADDED = ['\n lead\n', 'trail \n\n', '\n', ' ', 'a\r\n', '\tt\n \n']   # contents of <producer>/p.txt (by name index)

NAMES = ['A', 'B', 'AB', 'BA', 'AA', 'BB', 'ABA', 'BAB']
STAGES = [0, 1, 2]
# repeating producers (workflowAttributes.repeatInterval): RepeatingEngine archives the stdout of every execution as
# <working dir>/streams/<n>.stdout (experiment.runtime.engine.archive_stream, the 5 newest are kept) and
# `Producer:output` (no file part) is worth the contents of the stream with the greatest INTEGER n - not out.stdout.
# (stage, name) -> names of the files in streams/ as the instance starts (None: no streams directory yet).  Indices
# with different numbers of digits side by side (what the directory holds after the 11th-14th, 101st-104th ...
# execution), directories about to get there (sessions execute the producers further), the streams of the other type.
REPEATING = {
    (0, 'AB'): ['6.stdout', '7.stdout', '8.stdout', '9.stdout', '10.stdout', '9.stderr', '10.stderr', '11.stderr'],
    (0, 'BA'): None,
    (0, 'ABA'): ['999.stdout', '1000.stdout'],
    (1, 'B'): ['5.stdout', '6.stdout', '7.stdout', '8.stdout', '9.stdout'],
    (1, 'BAB'): ['98.stdout', '99.stdout', '100.stdout', '101.stdout', '102.stdout'],
    (1, 'ABA'): ['96.stdout', '97.stdout', '98.stdout', '99.stdout'],
    (2, 'A'): ['9.stdout', '10.stdout', '20.stderr'],
    (2, 'BB'): [],
    (2, 'AB'): ['0.stdout'],
}
FILES = [None, 'o.txt', 'A', 'BA', 'missing.txt', 'e.txt']
DATA = ['A', 'BA', 'x.txt', 'e.dat']
CONTENTS = ['42', 'v1.0', 'x y', 'l1\n\n', '', 'see B:ref', 'A:ref', 'a\nb', 'path/to', '7', 'stage0.A:ref x', 'BA']
# contents of <producer>/e.txt (and data/e.dat): ordinary text that is special to SOME substitution mechanism - regular
# expression replacement templates (backslash escapes, group references), '&' of sed, '$' of string.Template / the
# shell, '%' of printf-style formatting, '{}' of str.format, quotes.  The value of an :output reference is put in verbatim.
# (Not here: '%(name)s' and 'x[0]', which FlowIR.fill_in at the end of resolveArguments interprets - see ASSUMPTIONS.)
SPECIALS = ['s/\\s+/ /g\n', 'C:\\new\\table\\run1', '\\1 \\g<0> \\\\', 'a&b $HOME ${x} $1', '100% %d %s %%\n',
            '\\alpha=0.5 \\\\ \\beta=\\"x\\"\n', '&', '\\', "it's `x` $(y) {0} {n}", '\\g<1>\\0', '^(a|b)*\\.txt$',
            '\\n\\t \\\n']
SUBST = ('ref', 'output')
METHODS = ['copy', 'link', 'ref', 'copyout', 'extract', 'output', 'loopref', 'loopoutput']


# ------------------------------------------------------------------ references (harness side knowledge)
def stream_content(stage, name, fn):
    """what the execution archived as streams/<fn> printed"""
    idx, typ = fn.split('.')
    if typ != 'stdout':
        return 'warning %s of %s\n' % (idx, name)
    if (stage, name) == (0, 'ABA'):
        return SPECIALS[int(idx) % len(SPECIALS)]
    return 'it %s E=-%d.%s%s' % (idx, 100 + stage, idx, ['\n', '', '\n\n'][(int(idx) + stage) % 3])


def latest_stream(names):
    """the archived stdout of the most recent execution: greatest index AS AN INTEGER (None: nothing archived)"""
    idx = [int(fn.split('.')[0]) for fn in names or [] if fn.endswith('.stdout')]
    return '%d.stdout' % max(idx) if idx else None


def content_of(stage, name, fil):
    """contents of the files the harness writes in the producers' working directories / data folder"""
    if fil == 'missing.txt':
        return None
    if stage is None and name == 'e.dat':
        return SPECIALS[3]
    if fil == 'e.txt':
        return SPECIALS[(stage * 8 + NAMES.index(name)) % len(SPECIALS)]
    si = 3 if stage is None else stage
    ni = (DATA.index(name) + 5) if stage is None else NAMES.index(name)
    return CONTENTS[(si * 7 + ni * 3 + FILES.index(fil) * 5) % len(CONTENTS)]


def r_abs(r):
    if r['stage'] is None:
        return 'data/%s:%s' % (r['name'], r['method'])
    return 'stage%d.%s%s:%s' % (r['stage'], r['name'], '/' + r['file'] if r['file'] else '', r['method'])


def r_rel(r):
    if r['stage'] is None:
        return r_abs(r)
    return '%s%s:%s' % (r['name'], '/' + r['file'] if r['file'] else '', r['method'])


def r_value(r):
    """the reference's own value, instance location written /I"""
    if r['stage'] is None:
        if r['method'] == 'output':
            return (content_of(None, r['name'], None) or '').rstrip('\n')
        return '/I/data/%s' % r['name']
    base = '/I/stages/stage%d/%s' % (r['stage'], r['name'])
    if r['method'] == 'output':
        if r['file']:
            c = content_of(r['stage'], r['name'], r['file'])
        elif (r['stage'], r['name']) in REPEATING:
            fn = latest_stream(REPEATING[(r['stage'], r['name'])])
            c = None if fn is None else stream_content(r['stage'], r['name'], fn)
        else:
            c = STDOUT_OF.get(r['name'])
        return '' if c is None else c.rstrip('\n')
    return base + ('/' + r['file'] if r['file'] else '')


def processing_order(declared):
    """resolveArguments iterates over dataReferences = direct references, then component references"""
    return [r for r in declared if r['stage'] is None] + [r for r in declared if r['stage'] is not None]


def denotation(stage, declared, t):
    """the reference a token stands for, as the loader's validator reads it: the absolute spelling, or the
    relative spelling of a producer in the consumer's own stage"""
    for r in declared:
        if r['method'] in SUBST and r_abs(r) == t:
            return r
    for r in declared:
        if r['method'] in SUBST and r_rel(r) == t and (r['stage'] is None or r['stage'] == stage):
            return r
    return None


def oracle(case):
    out = []
    for k, s in case['pieces']:
        if k == 'T':
            r = denotation(case['stage'], case['declared'], s)
            out.append(s if r is None else r_value(r))
        else:
            out.append(s)
    return ''.join(out)


def same_ref(a, b):
    """two declarations (dicts) of one reference: the same producer / file part / method, in whatever spelling"""
    return a is not None and b is not None and r_abs(a) == r_abs(b)


def times_declared(declared, r):
    return sum(1 for q in declared if same_ref(q, r))


def expected_unused(case):
    """a declared substitutable reference none of whose spellings is a token.  A reference declared TWICE (a producer of
    the consumer's own stage in both spellings, Sim:ref and stage1.Sim:ref - what a command line that writes both
    spellings has to declare): its k-th declaration is used by the k-th distinct spelling written, so one of the two
    declarations is reported when only one spelling is written (for a reference declared once: the plain rule)."""
    written = {}
    for k, s in case['pieces']:
        if k == 'T':
            r = denotation(case['stage'], case['declared'], s)
            if r is not None:
                written.setdefault(r_abs(r), set()).add(s)
    out, nth = [], {}
    for r in processing_order(case['declared']):
        if r['method'] not in SUBST:
            continue
        a = r_abs(r)
        nth[a] = nth.get(a, 0) + 1
        if nth[a] > len(written.get(a, ())):
            out.append(a)
    return out


# ------------------------------------------------------------------ known-finding classes (on the input)
def classes_of(case, value=None):
    """value: the value a reference has (default: on the file system the harness writes, r_value)"""
    value = value or r_value
    cls = []
    dec = case['declared']
    toks = [s for k, s in case['pieces'] if k == 'T']
    sub = [r for r in dec if r['method'] in SUBST]
    # F10: a declared spelling matches inside (or is equal to) a token that stands for another reference
    hit = False
    for r in sub:
        for s in set([r_abs(r), r_rel(r)]):
            for t in toks:
                if s in t and not same_ref(denotation(case['stage'], dec, t), r):
                    hit = True
    if hit:
        cls.append('spelling_matches_inside_other_reference_token')
    # F10b: one reference written in both spellings - and declared ONCE (declared in both spellings it is visited twice:
    # the first visit replaces the qualified spelling, the second the relative one; that is exact and no finding)
    for r in sub:
        if r_abs(r) != r_rel(r) and r_abs(r) in toks and r_rel(r) in toks \
                and same_ref(denotation(case['stage'], dec, r_rel(r)), r) and times_declared(dec, r) == 1:
            cls.append('both_spellings_of_one_reference_used')
            break
    # F10c: contents substituted for an output reference contain a declared spelling
    hit = False
    for r in sub:
        if r['method'] == 'output':
            for q in sub:
                if r_abs(q) in value(r) or r_rel(q) in value(r):
                    hit = True
    if hit:
        cls.append('output_contents_contain_a_declared_spelling')
    return cls


# ------------------------------------------------------------------ the implementation side
class Instance(object):
    """one real Experiment holding the 24 producers and a batch of consumer components (the cases)"""

    def __init__(self, cases):
        import experiment.model.storage
        import experiment.model.data
        import yaml
        self.tmp = tempfile.mkdtemp(prefix='verif_c10_')
        self.cases = cases
        comps = []
        for st in STAGES:
            for n in NAMES:
                comps.append({'name': n, 'stage': st, 'command': {'executable': 'echo', 'arguments': 'hi'}})
                if (st, n) in REPEATING:
                    comps[-1]['workflowAttributes'] = {'repeatInterval': 1 + len(n)}
        for i, c in enumerate(cases):
            comps.append({'name': 'c%d' % i, 'stage': c['stage'],
                          'references': [d['declared_as'] for d in c['declared']],
                          'command': {'executable': 'echo', 'arguments': ''.join(s for _, s in c['pieces'])}})
        pkg = os.path.join(self.tmp, '%s.package' % uuid.uuid4())
        os.makedirs(os.path.join(pkg, 'conf'))
        os.makedirs(os.path.join(pkg, 'data'))
        with open(os.path.join(pkg, 'conf', 'flowir_package.yaml'), 'w') as f:
            f.write(yaml.safe_dump({'components': comps}))
        for d in DATA:
            with open(os.path.join(pkg, 'data', d), 'w') as f:
                f.write(content_of(None, d, None))
        os.chdir(os.path.expanduser('~'))
        package = experiment.model.storage.ExperimentPackage.packageFromLocation(pkg)
        self.exp = experiment.model.data.Experiment.experimentFromPackage(package, location=self.tmp)
        self.loc = self.exp.instanceDirectory.location
        for st in STAGES:
            for n in NAMES:
                wd = self.exp.instanceDirectory.workingDirectoryForComponent(st, n)
                for fl in FILES[1:]:
                    c = content_of(st, n, fl)
                    if c is not None:
                        with open(os.path.join(wd, fl), 'w') as f:
                            f.write(c)
                with open(os.path.join(wd, 'p.txt'), 'w', newline='') as f:
                    f.write(PADDED[(NAMES.index(n) + st) % len(PADDED)])
                if n in STDOUT_OF:
                    with open(os.path.join(wd, 'out.stdout'), 'w') as f:
                        f.write(STDOUT_OF[n])
                os.makedirs(os.path.join(wd, 'sub'), exist_ok=True)
                with open(os.path.join(wd, 'sub', 'o.txt'), 'w') as f:
                    f.write('sub')
                if (st, n) in REPEATING:
                    write_streams(wd, st, n, REPEATING[(st, n)])

    def close(self):
        shutil.rmtree(self.tmp, ignore_errors=True)

    def canon(self, s):
        return s.replace(self.loc, '/I')

    def observe(self, i, with_command=False):
        import experiment.model.errors as E
        spec = self.exp.experimentGraph.graph.nodes['stage%d.c%d' % (self.cases[i]['stage'], i)]['componentSpecification']
        unused, unresolved = [], []
        try:
            out = self.canon(spec.resolveArguments(unresolved=unresolved, unused=unused))
        except Exception as e:
            out = 'EXC:' + type(e).__name__
        un = []
        for u in unused:
            m = re.match(r'Reference (\S+) declared by component', str(u))
            un.append(m.group(1) if m else 'UNPARSED')
        try:
            spec.checkDataReferences()
            verdict = 'accepted'
        except (E.UnusedDataReferenceError, E.UndeclaredDataReferenceError) as e:
            verdict = type(e).__name__
        except Exception as e:
            verdict = 'EXC:' + type(e).__name__
        spellings = [[r.absoluteReference, r.relativeReference, r.method] for r in spec.dataReferences]
        cmd = None
        if with_command:
            try:
                cmd = self.canon(spec.command.arguments)
            except Exception as e:
                cmd = 'EXC:' + type(e).__name__
        return {'out': out, 'unused': un, 'unresolved': len(unresolved) > 0, 'verdict': verdict,
                'spellings': spellings, 'command': cmd}


# ------------------------------------------------------------------ Coq printing
def coq_ref(r):
    return '(mk_ref %s %s %s %s)' % (cstr(r_abs(r)), cstr(r_rel(r)), cbool(r['method'] in SUBST), cstr(r_value(r)))


def coq_case(case, obs):
    refs = clist([coq_ref(r) for r in processing_order(case['declared'])])
    ps = clist(['(%s %s)' % ('Tok' if k == 'T' else 'Lit', cstr(s)) for k, s in case['pieces']])
    return cpair(cpair(refs, ps), cpair(cpair(cstr(obs['out']), clist(obs['unused'], cstr) if obs['unused'] else '(@nil string)'), cbool(obs['unresolved'])))


# ------------------------------------------------------------------ generation
_PATTERN = None


def tokens_by_the_code(args):
    """the reference tokens the code's own recogniser (FlowIR.discover_reference_strings) finds"""
    global _PATTERN
    if _PATTERN is None:
        from experiment.model.frontends.flowir import FlowIR
        _PATTERN = re.compile(r"([.a-zA-Z0-9_/-]|%s)+:(%s)" % (FlowIR.VariablePattern, '|'.join(FlowIR.data_reference_methods)))
    return [m.group() for m in _PATTERN.finditer(args)]


def mk_ref(stage, name, fil, method, own_stage, rng=None, relative=None):
    r = {'stage': stage, 'name': name, 'file': fil, 'method': method}
    if relative is None:
        relative = rng is not None and rng.random() < 0.6
    r['declared_as'] = r_rel(r) if (stage is not None and stage == own_stage and relative) else r_abs(r)
    return r


LITS_BETWEEN = [' ', ' ', ' -f ', ' --in=', ',', ' lit ', ' x=1 ', ' B ', ' stage0.A ', ' A/o.txt -o ', ';', ' : ',
                ' ref ', ' BA=', ' -AB ', ' stage1.', '=', ' A:re f ', ' output ', ' /I/stages/stage0/A ']
LITS_AFTER = ['/f.txt ', '/A ', '.bak ', '/BA/', 's ', 'X,']
LITS_FIRST = ['', '', '-x ', 'run --a=', 'A B ', 'stage0 ']
LITS_LAST = ['', '', ' end', '/out', ' A', ' -v']


def gen_case(rng):
    stage = rng.choice([1, 1, 2])
    k = rng.choice([1, 2, 2, 2, 3, 3, 3, 4, 4])
    declared = []
    seen = set()
    # names: bias towards pairs where one name ends with / starts with / contains the other
    base = rng.choice(NAMES)
    pool = [n for n in NAMES if base in n or n in base] * 3 + NAMES
    tries = 0
    while len(declared) < k and tries < 50:
        tries += 1
        u = rng.random()
        if u < 0.12:
            r = mk_ref(None, rng.choice(DATA), None, rng.choice(['ref', 'ref', 'output', 'copy']), stage)
        else:
            st = rng.choice([s for s in STAGES if s <= stage] + [stage])
            name = rng.choice(pool)
            m = rng.choice(['ref'] * 7 + ['output'] * 2 + ['copy'])
            fil = rng.choice([None, None, None, 'o.txt', 'A', 'BA']) if m != 'output' else rng.choice(FILES[1:] + [None])
            if m == 'output' and rng.random() < 0.3:
                # the stdout of a producer (no file part); half of them of a repeating producer: its archived streams
                fil = None
                rep = [(s2, n2) for (s2, n2) in sorted(REPEATING) if s2 <= stage]
                if rng.random() < 0.5:
                    st, name = rng.choice(rep)
            if m == 'ref' and rng.random() < 0.12:
                # path-valued references whose file part is not normalised: the value is the producer directory
                # joined with the file part AS WRITTEN (trailing separator, './' segments kept)
                fil = rng.choice(['sub/', 'sub/./o.txt', 'sub//o.txt'])
            r = mk_ref(st, name, fil, m, stage, rng)
        key = r_abs(r)
        if key in seen:
            continue
        seen.add(key)
        declared.append(r)
    sub = [r for r in declared if r['method'] in SUBST]
    # a producer of the consumer's own stage declared TWICE - in both spellings (what a command line that writes both
    # spellings declares: every reference string of the arguments is checked against the declarations), now and then
    # twice in one spelling: dataReferences lists it twice, resolveArguments visits it twice
    twice = []
    own = [r for r in sub if r['stage'] is not None and r['stage'] == stage]
    if own and len(declared) <= 3 and rng.random() < 0.14:
        r = rng.choice(own)
        d = dict(r)
        if rng.random() < 0.85:
            d['declared_as'] = r_abs(r) if r['declared_as'] == r_rel(r) else r_rel(r)
        declared.insert(rng.randrange(len(declared) + 1), d)
        twice.append(r_abs(r))
    for _ in range(30):
        uses = []
        for r in sub:
            if rng.random() < 0.06 and len(sub) > 1:
                continue                                   # declared, not used
            n = rng.choice([1, 1, 1, 2])
            can_rel = r['stage'] is not None and r['stage'] == stage
            style = 'rel' if (can_rel and rng.random() < 0.55) else 'abs'
            if r_abs(r) in twice and rng.random() < 0.8:
                # declared in both spellings, written in both (once or twice each, any order)
                uses.extend([r_abs(r), r_rel(r)] + [rng.choice([r_abs(r), r_rel(r)]) for _j in range(n - 1)])
                continue
            for _j in range(n):
                st = style
                if can_rel and rng.random() < 0.04:
                    st = 'abs' if style == 'rel' else 'rel'  # both spellings of one reference
                uses.append(r_rel(r) if st == 'rel' else r_abs(r))
        if not uses:
            uses.append(r_abs(sub[0]) if sub else None)
        uses = [x for x in uses if x]
        rng.shuffle(uses)
        pieces = [['L', rng.choice(LITS_FIRST)]]
        for j, t in enumerate(uses):
            pieces.append(['T', t])
            if j + 1 < len(uses):
                lit = rng.choice(LITS_BETWEEN)
                if rng.random() < 0.2:
                    lit = rng.choice(LITS_AFTER) + lit.lstrip()
                pieces.append(['L', lit])
        pieces.append(['L', rng.choice(LITS_LAST)])
        pieces = [p for p in pieces if not (p[0] == 'L' and p[1] == '')]
        args = ''.join(s for _, s in pieces)
        if tokens_by_the_code(args) == [s for kk, s in pieces if kk == 'T'] and args.strip():
            return {'stage': stage, 'declared': declared, 'pieces': pieces}
    return None


def corpus():
    """witnesses of the findings (kept so that a change of their status is seen) and hand-written cases"""
    cs = []

    def case(stage, decl, pieces):
        cs.append({'stage': stage, 'declared': decl, 'pieces': [list(p) for p in pieces]})
    A1 = mk_ref(1, 'A', None, 'ref', 1, relative=True)
    BA1 = mk_ref(1, 'BA', None, 'ref', 1, relative=True)
    A0 = mk_ref(0, 'A', None, 'ref', 1)
    B1 = mk_ref(1, 'B', None, 'ref', 1, relative=True)
    AB1 = mk_ref(1, 'AB', None, 'ref', 1, relative=True)
    case(1, [A1, BA1], [('T', 'BA:ref'), ('L', ' '), ('T', 'A:ref')])                       # F10
    case(1, [BA1, A1], [('T', 'BA:ref'), ('L', ' '), ('T', 'A:ref')])
    case(1, [A1, A0], [('T', 'stage0.A:ref'), ('L', ' '), ('T', 'A:ref')])                  # F10 across stages
    case(1, [A0, A1], [('T', 'stage0.A:ref'), ('L', ' '), ('T', 'A:ref')])
    case(1, [A1], [('T', 'stage1.A:ref'), ('L', ' '), ('T', 'A:ref')])                      # F10b
    # F10c: an output reference whose file contains "B:ref", declared before / after B:ref
    for st in STAGES[:2]:
        for n in NAMES:
            for fl in FILES[1:4]:
                if content_of(st, n, fl) == 'see B:ref' and len(cs) < 7:
                    o = mk_ref(st, n, fl, 'output', 1)
                    case(1, [o, B1], [('L', 'x '), ('T', r_abs(o)), ('L', ' '), ('T', 'B:ref')])
                    case(1, [B1, o], [('L', 'x '), ('T', r_abs(o)), ('L', ' '), ('T', 'B:ref')])
    # F10d (fixed): the stdout of a repeating producer that has archived no stream yet (no streams directory: stage0.BA;
    # an empty one: stage2.BB) is worth '' like any output that is not there yet - resolveArguments (and with it
    # validateExperiment) died with AttributeError while building the DataReferenceFilesDoNotExistError
    none0 = mk_ref(0, 'BA', None, 'output', 1)
    case(1, [none0, B1], [('L', 'watch '), ('T', 'stage0.BA:output'), ('L', ' '), ('T', 'B:ref')])
    none2 = mk_ref(2, 'BB', None, 'output', 2, relative=True)
    case(2, [none2, none0], [('L', 'watch '), ('T', 'BB:output'), ('L', ' -p '), ('T', 'stage0.BA:output'), ('L', ' end')])
    # a repeating producer after its 11th execution (streams 6..10) next to one after its 103rd (98..102)
    case(1, [mk_ref(0, 'AB', None, 'output', 1), mk_ref(1, 'BAB', None, 'output', 1, relative=True)],
         [('L', '--last '), ('T', 'stage0.AB:output'), ('L', ' --mine '), ('T', 'BAB:output')])
    # a producer of the consumer's own stage declared in BOTH spellings and written in both (two visits: the qualified
    # spelling, then the relative one), a directory reference with text after it, the contents of one of its files; next
    # to the same name in another stage; declared twice in ONE spelling; declared twice and written in one spelling only
    # (the second visit finds nothing: one declaration is reported unused)
    A1q = mk_ref(1, 'A', None, 'ref', 1, relative=False)
    n1r = mk_ref(1, 'B', 'o.txt', 'output', 1, relative=True)
    n1q = mk_ref(1, 'B', 'o.txt', 'output', 1, relative=False)
    case(1, [A1, A1q], [('T', 'stage1.A:ref'), ('L', ' '), ('T', 'A:ref')])
    case(1, [A1, A1q, A0], [('L', '--in '), ('T', 'A:ref'), ('L', '/in.dat --check '), ('T', 'stage1.A:ref'),
                            ('L', '/in.dat --gen '), ('T', 'stage0.A:ref'), ('L', ' A ref: stage1. end')])
    case(1, [n1r, A1q, n1q, A1], [('L', '--n='), ('T', 'B/o.txt:output'), ('L', ','), ('T', 'stage1.B/o.txt:output'),
                                  ('L', ' -d '), ('T', 'stage1.A:ref'), ('L', ' '), ('T', 'A:ref'), ('L', ' '),
                                  ('T', 'B/o.txt:output')])
    case(1, [A1, dict(A1)], [('T', 'A:ref'), ('L', ' -o '), ('T', 'stage1.A:ref'), ('L', '/f')])
    case(1, [A1, A1q, B1], [('T', 'A:ref'), ('L', ' '), ('T', 'B:ref')])
    case(1, [A1q, A1, B1], [('T', 'stage1.A:ref'), ('L', ' '), ('T', 'stage1.B:ref')])
    R2r = mk_ref(2, 'BA', 'o.txt', 'ref', 2, relative=True)
    R2q = mk_ref(2, 'BA', 'o.txt', 'ref', 2, relative=False)
    case(2, [R2q, mk_ref(1, 'BA', 'o.txt', 'ref', 2), R2r],
         [('L', 'cmp '), ('T', 'stage2.BA/o.txt:ref'), ('L', ' '), ('T', 'BA/o.txt:ref'), ('L', ' '), ('T', 'stage1.BA/o.txt:ref')])
    # the non-vacuity example of Property.v
    o = mk_ref(0, 'B', 'o.txt', 'output', 1)
    cp = mk_ref(None, 'x.txt', None, 'copy', 1)
    case(1, [A1, AB1, A0, cp, o],
         [('L', '-x '), ('T', 'AB:ref'), ('L', ' --in='), ('T', 'stage0.A:ref'), ('L', '/f.txt '),
          ('T', 'stage1.A:ref'), ('L', ' n='), ('T', 'stage0.B/o.txt:output'), ('L', ' '), ('T', 'AB:ref')])
    return cs


def special_contents_cases():
    """systematic: for each of the 16 producers of stages 0-1, a stage-1 consumer that reads its e.txt (contents special
    to some substitution mechanism, SPECIALS) through an :output reference, written twice, in every spelling the loader
    accepts, next to a directory reference; and the same for the producers whose stdout holds such contents"""
    out = []
    for st in (0, 1):
        for n in NAMES:
            for fl in (['e.txt'] + ([None] if n in ('BB', 'ABA') else [])):
                comp = mk_ref(1, 'B' if n != 'B' else 'A', None, 'ref', 1, relative=True)
                for rel in ([False, True] if st == 1 else [False]):
                    o = mk_ref(st, n, fl, 'output', 1, relative=rel)
                    t = r_rel(o) if rel else r_abs(o)
                    out.append({'stage': 1, 'declared': [o, comp],
                                'pieces': [['L', 'sed -e '], ['T', t], ['L', ' '], ['T', r_rel(comp)], ['L', '/f --again='],
                                           ['T', t]]})
    return out


def stream_cases():
    """systematic: every repeating producer (streams directories holding indices of different numbers of digits, a single
    stream, none, no directory, streams of the other type) x every consumer stage that may read it x every spelling the
    loader accepts: `Producer:output` written twice next to a directory reference to the same producer and the stdout
    of a producer that does not repeat"""
    out = []
    for (st, n) in sorted(REPEATING):
        for stage in (1, 2):
            if st > stage:
                continue
            plain = mk_ref(stage, 'BB' if n != 'BB' else 'A', None, 'output', stage, relative=True)
            d = mk_ref(st, n, None, 'ref', stage, relative=False)
            for rel in ([False, True] if st == stage else [False]):
                o = mk_ref(st, n, None, 'output', stage, relative=rel)
                t = r_rel(o) if rel else r_abs(o)
                out.append({'stage': stage, 'declared': [o, d, plain],
                            'pieces': [['L', '--last '], ['T', t], ['L', ' --dir '], ['T', r_abs(d)], ['L', '/streams x='],
                                       ['T', r_rel(plain)], ['L', ' again='], ['T', t]]})
    return out


def redeclared_cases():
    """systematic: every producer of the consumer's own stage (8 in stage 1, 3 in stage 2) x what is referenced (the
    directory, a file in it, the contents of a file, its stdout) declared in BOTH spellings next to a reference to the
    producer of the same name in an earlier stage, both spellings written - in both token orders, one of them twice;
    every declaration order is added by the caller.  Each spelling must become the reference's value: the reference is
    visited twice, the first visit replaces the qualified spelling, the second the relative one."""
    out = []
    for stage, names in ((1, NAMES), (2, ['A', 'BA', 'BB'])):
        for i, n in enumerate(names):
            kinds = [(None, 'ref'), ('o.txt', 'ref'), ('o.txt', 'output'), ('e.txt', 'output')]
            if n in STDOUT_OF or (stage, n) in REPEATING:
                kinds.append((None, 'output'))
            for j, (fl, m) in enumerate(kinds):
                q = mk_ref(stage, n, fl, m, stage, relative=False)
                r = mk_ref(stage, n, fl, m, stage, relative=True)
                # next to it: a producer of an earlier stage whose name shares no substring with this one (most cases: outside
                # the classes of the open findings) or, one case in three, the producer of the same name one stage earlier
                apart = [x for x in NAMES if x not in n and n not in x]
                on = n if (i + j) % 3 == 0 else apart[(i + j) % len(apart)]
                other = mk_ref(stage - 1, on, fl if m == 'ref' else None, 'ref', stage)
                a, b = (r_abs(q), r_rel(q)) if (i + j) % 2 == 0 else (r_rel(q), r_abs(q))
                out.append({'stage': stage, 'declared': [r, q, other],
                            'pieces': [['L', 'run --in '], ['T', a], ['L', '/in.dat --check=' if m == 'ref' else ' --check='],
                                       ['T', b], ['L', ','], ['T', r_abs(other)], ['L', ' %s ref: stage%d. ' % (n, stage)],
                                       ['T', a]]})
    return out


def with_orders(case):
    """every declaration order of the case's references"""
    out = []
    for perm in itertools.permutations(case['declared']):
        out.append({'stage': case['stage'], 'declared': list(perm), 'pieces': case['pieces']})
    return out


# ------------------------------------------------------------------ values (DataReference.resolve)
def coq_sref(ident, relid, fil, method, direct, loc, repeating=False):
    return '(mk_sref %s %s %s %s %s %s %s)' % (cstr(ident), cstr(relid), common.copt(fil, cstr), cstr(method),
                                               cbool(direct), cstr(loc), cbool(repeating))


def listing(inst, root):
    """the file system under `root` as it is (walked after the harness wrote its files), instance path -> /I"""
    out = []
    if os.path.isdir(root):
        for d, _dirs, files in os.walk(root):
            out.append((inst.canon(d), None))
            for fn in files:
                with open(os.path.join(d, fn), newline='') as f:
                    out.append((inst.canon(os.path.join(d, fn)), f.read()))
    elif os.path.isfile(root):
        with open(root) as f:
            out.append((inst.canon(root), f.read()))
    return out


def coq_fs(lst):
    return clist(['(%s, %s)' % (cstr(p), 'Dir' if c is None else '(File %s)' % cstr(c)) for p, c in lst])


def sref_of(inst, r):
    """the structured reference + the file system of its producer, from the harness' knowledge of the layout"""
    store = inst.exp.experimentGraph.rootStorage
    if r['stage'] is None:
        ident = relid = 'data/%s' % r['name']
        root = store.resolvePath(ident)
        return coq_sref(ident, relid, None, r['method'], True, inst.canon(root)), coq_fs(listing(inst, root))
    root = store.workingDirectoryForComponent(r['stage'], r['name'])
    return (coq_sref('stage%d.%s' % (r['stage'], r['name']), r['name'], r['file'], r['method'], False, inst.canon(root),
                     (r['stage'], r['name']) in REPEATING),
            coq_fs(listing(inst, root)))


# shapes of a streams directory for the value correspondence: file names ('D:' = a directory of that name)
STREAM_SHAPES = [None, [], ['0.stdout'], ['9.stdout', '10.stdout'], ['99.stdout', '100.stdout'], ['999.stdout', '1000.stdout'],
                 ['5.stdout', '6.stdout', '7.stdout', '8.stdout', '9.stdout'],
                 ['6.stdout', '7.stdout', '8.stdout', '9.stdout', '10.stdout'],
                 ['9.stdout', '10.stdout', '11.stdout', '12.stdout', '13.stdout'],
                 ['96.stdout', '97.stdout', '98.stdout', '99.stdout', '100.stdout'],
                 ['3.stdout', '12.stderr', '20.stderr'], ['12.stderr'], ['2.stdout', '10.stdout', '1.stdout', '10.stderr'],
                 ['007.stdout', '5.stdout'], ['007.stdout', '7.stdout', '5.stdout'], ['D:12.stdout', '3.stdout'],
                 ['D:2.stdout', '30.stdout'], ['.50.stdout', '4.stdout'], ['8.stdout.bak', '4.stdout', '9.txt'],
                 ['19.stdout', '2.stdout', '100000.stdout', '99999.stdout']]


def write_streams(wd, stage, name, names):
    """(re)creates <wd>/streams with the given file names (None: no directory)"""
    sd = os.path.join(wd, 'streams')
    shutil.rmtree(sd, ignore_errors=True)
    if names is None:
        return
    os.makedirs(sd)
    for fn in names:
        if fn.startswith('D:'):
            os.makedirs(os.path.join(sd, fn[2:]))
        else:
            with open(os.path.join(sd, fn), 'w') as f:
                f.write(stream_content(stage, name, fn) if fn.count('.') == 1 and fn.split('.')[0].isdigit() else 'x %s\n' % fn)


def stream_shapes(ctx):
    shapes = list(STREAM_SHAPES)
    for _ in range(16 if ctx.tier == 'quick' else 150):
        lo = ctx.rng.choice([0, 3, 7, 8, 9, 10, 95, 97, 99, 100, 995, 998, 1000, 9996, 12345])
        if ctx.rng.random() < 0.6:
            idx = list(range(lo, lo + ctx.rng.choice([1, 2, 3, 5, 5])))            # what the engine leaves
        else:
            idx = sorted(set(lo + ctx.rng.randrange(0, 120) for _k in range(ctx.rng.choice([2, 3, 5, 8]))))
        names = ['%d.stdout' % i for i in idx] + ['%d.stderr' % (i + 1) for i in idx if ctx.rng.random() < 0.4]
        ctx.rng.shuffle(names)
        shapes.append(names)
    return shapes


def value_pool(tier):
    names = NAMES if tier != 'quick' else ['A', 'AB', 'BAB', 'B']
    pool = []
    for st in STAGES:
        for n in names:
            for fl in VFILES:
                for m in VMETHODS:
                    pool.append({'stage': st, 'name': n, 'file': fl, 'method': m})
    for n in DATA + ['nope']:
        for m in VMETHODS:
            pool.append({'stage': None, 'name': n, 'file': None, 'method': m})
    return pool


def explore_values(ctx, used_refs):
    """(a) the real DataReference objects (spellings, resolve) against Args.ValueModel on a pool of references;
    (b) every reference used by the cases of the run: the dref given to the model of resolveArguments is the one
    ValueModel.to_dref computes from the reference and the file system"""
    from experiment.model.graph import DataReference
    inst = Instance([])
    try:
        g = inst.exp.experimentGraph
        terms, meta = [], []
        for k, r in enumerate(value_pool(ctx.tier)):
            if r['stage'] is None:
                obj = DataReference(r_abs(r))
            elif k % 2:
                obj = DataReference(r_rel(r), stageIndex=r['stage'])       # declared in the relative spelling
            else:
                obj = DataReference(r_abs(r), stageIndex=1)
            try:
                o = 'V' + inst.canon(obj.resolve(g))
            except Exception as e:
                o = type(e).__name__
            sr, fs = sref_of(inst, r)
            direct = obj.isDirectReference(g)
            if direct != (r['stage'] is None) or obj.fileRef != r['file'] or obj.method != r['method']:
                ctx.disagree(r, [direct, obj.fileRef, obj.method], [r['stage'] is None, r['file'], r['method']],
                             'C10 DataReference parts (direct / file part / method) vs the declaration as written')
            terms.append(cpair(cpair(sr, fs), cpair(cpair(cstr(obj.absoluteReference), cstr(obj.relativeReference)), cstr(o))))
            meta.append((r, [obj.absoluteReference, obj.relativeReference, o]))
            ctx.count('value_' + (o[:1] if o.startswith('V') else o))
        # which producers repeat: the real workflowAttributes against the harness' table
        for st in STAGES:
            for n in NAMES:
                rep = bool(g.graph.nodes['stage%d.%s' % (st, n)]['componentSpecification'].workflowAttributes['isRepeat'])
                if rep != ((st, n) in REPEATING):
                    ctx.disagree([st, n], rep, (st, n) in REPEATING, 'C10 workflowAttributes.isRepeat of a producer vs the package written')
        # the stdout of a repeating producer on many shapes of its streams directory
        hosts = [(0, 'AB'), (1, 'BAB'), (2, 'A')]
        try:
            for k, shape in enumerate(stream_shapes(ctx)):
                st, n = hosts[k % len(hosts)]
                r = {'stage': st, 'name': n, 'file': None, 'method': 'output'}
                write_streams(root_of(inst, r), st, n, shape)
                obj = DataReference(r_rel(r), stageIndex=st) if k % 2 else DataReference(r_abs(r), stageIndex=2)
                try:
                    o = 'V' + inst.canon(obj.resolve(g))
                except Exception as e:
                    o = type(e).__name__
                sr, fs = sref_of(inst, r)
                terms.append(cpair(cpair(sr, fs), cpair(cpair(cstr(obj.absoluteReference), cstr(obj.relativeReference)), cstr(o))))
                meta.append((dict(r, streams=shape), [obj.absoluteReference, obj.relativeReference, o]))
                ctx.count('value_stream_shapes')
                # the property on the implementation's output: the stdout of the most recent execution
                want = latest_stream([fn[2:] if fn.startswith('D:') else fn for fn in (shape or [])
                                      if (fn[2:] if fn.startswith('D:') else fn).split('.')[0].isdigit()])
                if want is not None and shape and want in shape and \
                        o != 'V' + stream_content(st, n, want).rstrip('\n'):
                    ctx.fail({'stage': 2, 'declared': [dict(r, declared_as=r_abs(r))], 'pieces': [['T', r_abs(r)]],
                              'streams': shape},
                             'Producer:output of a repeating producer whose streams directory holds %r is worth %r, not the '
                             'contents of %s' % (shape, o[:80], want), [])
        finally:
            for st, n in hosts:
                write_streams(root_of(inst, {'stage': st, 'name': n}), st, n, REPEATING[(st, n)])
        bad = ctx.model_mismatches(HEADER_V, terms, 'check_value', chunk=300, name='values')
        for k, i in enumerate(bad):
            m = ctx.model_eval(HEADER_V, 'let c := %s in (s_abs (fst (fst c)), s_rel (fst (fst c)), '
                                         'outcome (resolve (snd (fst c)) (fst (fst c))))' % terms[i]) if k < 3 else ''
            ctx.disagree(meta[i][0], meta[i][1], m, 'C10 DataReference spellings / resolve vs Args.ValueModel')
        ctx.count('value_cases', len(terms))
        terms, meta = [], []
        for key in sorted(used_refs):
            r = used_refs[key]
            sr, fs = sref_of(inst, r)
            terms.append(cpair(cpair(sr, fs), coq_ref(r)))
            meta.append(r)
        bad = ctx.model_mismatches(HEADER_V, terms, 'check_dref', chunk=300, name='drefs')
        for i in bad:
            ctx.disagree(meta[i], coq_ref(meta[i]), 'to_dref', 'C10 reference given to the model of resolveArguments vs '
                                                               'Args.ValueModel.to_dref (spellings, substitutable, value)')
        ctx.count('distinct_references_of_the_cases', len(terms))
    finally:
        inst.close()


# ------------------------------------------------------------------ repeated resolution on one live graph
LIVE_NEW = ['-1.5', 'v2 final\n', '8\n', '', 'x y z\n\n', ' pad ', '-2.25 converged\n', '0'] + SPECIALS
ENTRY_POINTS = ['ComponentSpecification.resolveArguments', 'Job.resolveArguments', 'Job.command.arguments',
                'ComponentSpecification.command.arguments']


def root_of(inst, r):
    store = inst.exp.experimentGraph.rootStorage
    if r['stage'] is None:
        return store.resolvePath('data/%s' % r['name'])
    return store.workingDirectoryForComponent(r['stage'], r['name'])


def target_of(r):
    """the path (relative to the producer's root, '' = the root itself) whose contents are the value of an output
    reference"""
    if r['stage'] is None:
        return ''
    return r['file'] if r['file'] else 'out.stdout'


def is_stream_ref(r):
    """`Producer:output` without file part to a repeating producer: worth its most recent archived stdout"""
    return r['stage'] is not None and r['method'] == 'output' and not r['file'] and (r['stage'], r['name']) in REPEATING


def executed_text(stage, name, k, salt):
    return 'run %s.%d of %s%s' % (salt, k, name, ['\n', '\n\n', ''][(k + stage) % 3])


def gen_live_case(rng):
    """a consumer with at least one :output reference (most of them to another stage or to an input file: what a
    receiver is entitled to believe complete) + a schedule: between two resolutions the producers rewrite, create,
    delete files, or put a directory where the file was"""
    while True:
        c = gen_case(rng)
        if c is None or classes_of(c):
            continue
        outs = [r for r in c['declared'] if r['method'] == 'output']
        if not outs or not any(r_abs(r) in [t for k, t in c['pieces'] if k == 'T'] or
                               r_rel(r) in [t for k, t in c['pieces'] if k == 'T'] for r in outs):
            continue
        if all(r['stage'] == c['stage'] for r in outs) and rng.random() < 0.7:
            continue
        if not any(is_stream_ref(r) for r in outs) and rng.random() < 0.4:
            continue                                     # more sessions that read a repeating producer
        break
    others = [r for r in c['declared'] if r['method'] != 'output' and r['stage'] is not None]
    steps = [[]]
    for _ in range(rng.choice([2, 3, 3, 4])):
        muts = []
        for _m in range(rng.choice([1, 1, 2])):
            u = rng.random()
            r = rng.choice(outs)
            key = [r['stage'], r['name'], target_of(r)]
            if is_stream_ref(r) and u < 0.8:
                if u < 0.6:
                    # the producer is executed n more times (RepeatingEngine: out.stdout rewritten, then archived)
                    muts.append(['execute', r['stage'], r['name'], 'streams', rng.choice([1, 1, 1, 2, 3, 6]),
                                 '%x' % rng.randrange(4096)])
                elif u < 0.7:
                    muts.append(['write'] + key + [rng.choice(LIVE_NEW)])   # out.stdout of an execution under way: not the value
                else:
                    muts.append(['write', r['stage'], r['name'], 'streams/%d.stderr' % rng.choice([50, 500, 5000]), 'w\n'])
            elif u < 0.55:
                muts.append(['write'] + key + [rng.choice(LIVE_NEW)])
            elif u < 0.68:
                muts.append(['delete'] + key)
            elif u < 0.74:
                muts.append(['mkdir'] + key)
            elif u < 0.82:
                pass                                                       # resolve again, nothing changed
            elif u < 0.91 and others:
                q = rng.choice(others)                                     # a path-valued reference: its value stays
                muts.append([rng.choice(['delete', 'mkdir', 'write']), q['stage'], q['name'], q['file'] or 'sub']
                            + ['new'])
            else:
                muts.append(['write', r['stage'] if r['stage'] is not None else 0,
                             r['name'] if r['stage'] is not None else 'A', 'unrelated.txt', rng.choice(LIVE_NEW)])
        steps.append([m[:6] if m[0] == 'execute' else m[:5] if m[0] == 'write' else m[:4] for m in muts])
    c['live'] = steps
    return c


def live_corpus():
    """the session of Property.v (C10_nonvacuous) and its neighbours: file of another stage, input file, stdout of a
    producer of the consumer's own stage; rewritten, deleted, turned into a directory, written back"""
    cs = []
    A1 = mk_ref(1, 'A', None, 'ref', 1, relative=False)
    AB1 = mk_ref(1, 'AB', None, 'ref', 1, relative=True)
    A0 = mk_ref(0, 'A', None, 'ref', 1)
    o = mk_ref(0, 'B', 'o.txt', 'output', 1)
    cs.append({'stage': 1, 'declared': [A1, AB1, A0, o],
               'pieces': [['L', '--in='], ['T', 'stage0.A:ref'], ['L', '/f.txt n='], ['T', 'stage0.B/o.txt:output'],
                          ['L', ' '], ['T', 'AB:ref'], ['L', ' '], ['T', 'stage1.A:ref']],
               'live': [[], [['write', 0, 'B', 'o.txt', 's/\\s+/\\1&/g\n']], [['delete', 0, 'B', 'o.txt']],
                        [['mkdir', 0, 'B', 'o.txt']], [['write', 0, 'B', 'o.txt', '42\n\n']], []]})
    d = mk_ref(None, 'x.txt', None, 'output', 2)
    so = mk_ref(2, 'A', None, 'output', 2, relative=True)
    s0 = mk_ref(0, 'BAB', None, 'output', 2)
    cs.append({'stage': 2, 'declared': [so, d, s0],
               'pieces': [['L', 'run '], ['T', 'data/x.txt:output'], ['L', ' --mine '], ['T', 'A:output'], ['L', ' '],
                          ['T', 'stage0.BAB:output'], ['L', ' again='], ['T', 'data/x.txt:output']],
               'live': [[], [['write', None, 'x.txt', '', '-1.5\n'], ['write', 2, 'A', 'out.stdout', 'b\n']],
                        [['write', 0, 'BAB', 'out.stdout', 'C:\\new\\1 &\n']], [['delete', None, 'x.txt', '']],
                        [['write', None, 'x.txt', '', '7'], ['delete', 0, 'BAB', 'out.stdout']]]})
    # repeating producers executed on: across the 9 -> 10 and 99 -> 100 boundaries (streams 5..9 and 96..99 at the start),
    # from nothing (no streams directory; an empty one), far past the boundary; out.stdout of the execution under way and
    # streams of the other type with greater indices are not the value
    m1 = mk_ref(1, 'B', None, 'output', 2)
    m2 = mk_ref(1, 'ABA', None, 'output', 2)
    m3 = mk_ref(2, 'BB', None, 'output', 2, relative=True)
    cs.append({'stage': 2, 'declared': [m1, m2, m3],
               'pieces': [['L', '--last '], ['T', 'stage1.B:output'], ['L', ' e='], ['T', 'stage1.ABA:output'], ['L', ' mine='],
                          ['T', 'BB:output'], ['L', ' again '], ['T', 'stage1.B:output']],
               'live': [[], [['execute', 1, 'B', 'streams', 1, 'a'], ['execute', 1, 'ABA', 'streams', 1, 'a']],
                        [['execute', 2, 'BB', 'streams', 1, 'b'], ['write', 1, 'B', 'out.stdout', 'half way']],
                        [['execute', 1, 'B', 'streams', 3, 'c'], ['write', 1, 'ABA', 'streams/500.stderr', 'w']],
                        [['execute', 1, 'B', 'streams', 1, 'd'], ['execute', 1, 'ABA', 'streams', 2, 'd']],
                        [['execute', 2, 'BB', 'streams', 12, 'e']], []]})
    # a file of a producer of the consumer's own stage, declared and written in both spellings (two visits at every
    # resolution, through every entry point) while the file is rewritten / deleted / written back
    tr = mk_ref(1, 'AB', 'o.txt', 'output', 1, relative=True)
    tq = mk_ref(1, 'AB', 'o.txt', 'output', 1, relative=False)
    cs.append({'stage': 1, 'declared': [tr, A0, tq],
               'pieces': [['L', '--n='], ['T', 'AB/o.txt:output'], ['L', ','], ['T', 'stage1.AB/o.txt:output'], ['L', ' --gen '],
                          ['T', 'stage0.A:ref'], ['L', ' AB o.txt: stage1. '], ['T', 'AB/o.txt:output']],
               'live': [[], [['write', 1, 'AB', 'o.txt', '41\n']], [['delete', 1, 'AB', 'o.txt']],
                        [['write', 1, 'AB', 'o.txt', '\\1 & 7\n\n']], []]})
    m4 = mk_ref(0, 'BA', None, 'output', 1)
    m5 = mk_ref(0, 'AB', None, 'output', 1)
    cs.append({'stage': 1, 'declared': [m4, m5, mk_ref(0, 'BA', None, 'ref', 1)],
               'pieces': [['T', 'stage0.BA:output'], ['L', ' in '], ['T', 'stage0.BA:ref'], ['L', '/streams then '],
                          ['T', 'stage0.AB:output']],
               'live': [[], [['execute', 0, 'BA', 'streams', 1, 'f']], [['execute', 0, 'BA', 'streams', 10, 'g']],
                        [['execute', 0, 'AB', 'streams', 1, 'h']], [['execute', 0, 'BA', 'streams', 1, 'i']]]})
    return cs


class LiveFiles(object):
    """applies the mutations of a schedule to the real instance directory and puts everything back afterwards"""

    def __init__(self, inst):
        self.inst = inst
        self.saved = {}
        self.done = {}

    def path(self, m):
        root = root_of(self.inst, {'stage': m[1], 'name': m[2]})
        return os.path.join(root, m[3]) if m[3] else root

    @staticmethod
    def state(p):
        if os.path.isdir(p):
            return ('D', sorted(os.listdir(p)))
        if os.path.isfile(p):
            with open(p, newline='') as f:
                return ('F', f.read())
        return ('N', None)

    @staticmethod
    def clear(p):
        if os.path.isdir(p):
            shutil.rmtree(p)
        elif os.path.lexists(p):
            os.remove(p)

    def execute(self, m):
        """n more executions of a repeating producer, as RepeatingEngine ends each of them: the task has written
        out.stdout / out.stderr, then the real experiment.runtime.engine.archive_stream archives both"""
        import logging
        import experiment.runtime.engine
        wd = root_of(self.inst, {'stage': m[1], 'name': m[2]})
        sd = os.path.join(wd, 'streams')
        assert sd.startswith(self.inst.tmp + os.sep), sd
        for p in (sd, os.path.join(wd, 'out.stdout'), os.path.join(wd, 'out.stderr')):
            if p not in self.saved:
                if os.path.isdir(p):
                    tree = {}
                    for fn in os.listdir(p):
                        with open(os.path.join(p, fn), newline='') as f:
                            tree[fn] = f.read()
                    self.saved[p] = ('T', tree)
                else:
                    self.saved[p] = self.state(p)
        log = logging.getLogger('verif.c10')
        done = self.done.get(sd, 0)
        for k in range(done, done + m[4]):
            with open(os.path.join(wd, 'out.stdout'), 'w', newline='') as f:
                f.write(executed_text(m[1], m[2], k, m[5]))
            with open(os.path.join(wd, 'out.stderr'), 'w', newline='') as f:
                f.write('warn %d\n' % k)
            experiment.runtime.engine.archive_stream(os.path.join(wd, 'out.stdout'), sd, 'stdout', log, 5)
            experiment.runtime.engine.archive_stream(os.path.join(wd, 'out.stderr'), sd, 'stderr', log, 5)
        self.done[sd] = done + m[4]
        return 'execute'

    def apply(self, m):
        if m[0] == 'execute':
            return self.execute(m)
        p = self.path(m)
        assert p.startswith(self.inst.tmp + os.sep), p
        if not os.path.isdir(os.path.dirname(p)):
            return 'skipped'
        if p not in self.saved:
            st = self.state(p)
            if st[0] == 'D' and st[1]:
                return 'skipped'                   # never remove a directory that holds files
            self.saved[p] = st
        self.clear(p)
        if m[0] == 'write':
            with open(p, 'w', newline='') as f:
                f.write(m[4])
        elif m[0] == 'mkdir':
            os.makedirs(p)
        return m[0]

    def restore(self):
        for p, (kind, c) in reversed(list(self.saved.items())):
            self.clear(p)
            if kind == 'F':
                with open(p, 'w', newline='') as f:
                    f.write(c)
            elif kind == 'D':
                os.makedirs(p)
            elif kind == 'T':
                os.makedirs(p)
                for fn, txt in c.items():
                    with open(os.path.join(p, fn), 'w', newline='') as f:
                        f.write(txt)
        self.saved = {}
        self.done = {}


def live_value(inst, r):
    """the reference's own value on the file system as it is NOW (None: resolving it is an error)"""
    root = root_of(inst, r)
    if r['method'] == 'output':
        p = os.path.join(root, target_of(r)) if target_of(r) else root
        if is_stream_ref(r):
            sd = os.path.join(root, 'streams')
            fn = latest_stream(os.listdir(sd) if os.path.isdir(sd) else [])
            if fn is None:
                return ''
            p = os.path.join(sd, fn)
        if os.path.isdir(p):
            return None
        if not os.path.isfile(p):
            return ''
        with open(p, newline='') as f:
            return f.read().rstrip('\n')
    return inst.canon(root) + ('/' + r['file'] if r['file'] else '')


def explore_live(ctx, cases):
    """every case: one consumer of ONE live graph, resolved again and again (each time through all four entry points)
    while the files of its producers change; each answer against the token-wise substitution with the values of the
    file system of that moment (Python predicate) and against Args.ValueModel.resolve_on / spec_on (inside Coq)"""
    if not cases:
        return
    t0 = time.time()
    inst = Instance(cases)
    terms, meta = [], []
    try:
        for i, case in enumerate(cases):
            node = inst.exp.experimentGraph.graph.nodes['stage%d.c%d' % (case['stage'], i)]
            spec, job = node['componentSpecification'], node['componentInstance']
            entries = [spec.resolveArguments, job.resolveArguments, lambda: job.command.arguments,
                       lambda: spec.command.arguments]
            order = processing_order(case['declared'])
            roots = []
            for r in order:
                if root_of(inst, r) not in roots:
                    roots.append(root_of(inst, r))
            srefs = clist([sref_of(inst, r)[0] for r in order])
            ps = clist(['(%s %s)' % ('Tok' if k == 'T' else 'Lit', cstr(x)) for k, x in case['pieces']])
            files = LiveFiles(inst)
            wants, failed = [], False
            try:
                for k, muts in enumerate(case['live']):
                    for m in muts:
                        ctx.count('live_mutation_' + files.apply(m))
                    vals = dict((r_abs(r), live_value(inst, r)) for r in case['declared'])
                    value = lambda r: vals[r_abs(r)] or ''
                    if any(v is None for v in vals.values()):
                        want = 'E:DataReferenceInconsistencyError'
                        ctx.count('live_step_raises')
                    else:
                        want = 'V' + ''.join((x if k2 == 'L' or denotation(case['stage'], case['declared'], x) is None
                                              else value(denotation(case['stage'], case['declared'], x)))
                                             for k2, x in case['pieces'])
                    wants.append(want)
                    fs = []
                    for root in roots:
                        fs.extend(listing(inst, root))
                    got = []
                    for e in entries:
                        try:
                            got.append('V' + inst.canon(e()))
                        except Exception as ex:
                            got.append('E:' + type(ex).__name__)
                    ctx.count('live_resolutions', len(got))
                    for name, g in zip(ENTRY_POINTS, got):
                        if g != want and not failed:
                            failed = True
                            ctx.fail(case, 'resolution %d of a session on one live graph, through %s: the command line does '
                                           'not show the values the references have on the file system of that moment '
                                           '(got %r, expected %r)' % (k + 1, name, g[:200], want[:200]),
                                     classes_of(case, value))
                    # the model on the file system walked just before the calls; the entry points take turns
                    g = got[k % len(got)] if len(set(got)) == 1 else [x for x in got if x != want][0]
                    terms.append(cpair(cpair(cpair(srefs, ps), coq_fs(fs)), cstr(g if g[0] == 'V' else 'E')))
                    meta.append((case, k, got))
            finally:
                files.restore()
            changes = sum(1 for a, b in zip(wants, wants[1:]) if a != b)
            ctx.case([case['stage'], [r['declared_as'] for r in case['declared']], case['pieces'], case['live']], changes >= 1)
            ctx.count('live_cases')
            ctx.count('live_answer_changes', changes)
            if any(r['method'] == 'output' and r['stage'] != case['stage'] for r in case['declared']):
                ctx.count('live_cases_output_of_other_stage_or_input_file')
            if any(is_stream_ref(r) for r in case['declared']):
                ctx.count('live_cases_stdout_of_a_repeating_producer')
    finally:
        inst.close()
    t1 = time.time()
    bad = ctx.model_mismatches(HEADER_V, terms, 'check_live', chunk=max(40, min(200, -(-len(terms) // common.NPROC))),
                               name='live')
    ctx.extra.setdefault('phase_s', {}).update({'live_implementation': round(t1 - t0, 1),
                                                'live_model': round(time.time() - t1, 1)})
    for k, i in enumerate(bad):
        case, step, got = meta[i]
        m = ctx.model_eval(HEADER_V, 'let c := %s in (resolve_on (snd (fst c)) (fst (fst (fst c))) (flatten (snd (fst (fst c)))), '
                                     'separated_onb (snd (fst c)) (fst (fst (fst c))) (snd (fst (fst c))))' % terms[i]) if k < 3 else ''
        ctx.disagree(case, {'resolution': step + 1, 'answers': got}, m,
                     'C10 repeated resolution on one live graph (resolveArguments / Job.resolveArguments / Job.command.arguments '
                     'after the files changed) vs Args.ValueModel.resolve_on the file system of that moment; = spec_on where '
                     'separated_onb holds')


# ------------------------------------------------------------------ running
def explore(ctx, cases, batch=240):
    terms = []
    t0 = time.time()
    for b0 in range(0, len(cases), batch):
        chunk = cases[b0:b0 + batch]
        inst = None
        try:
            inst = Instance(chunk)
            for i, case in enumerate(chunk):
                obs = inst.observe(i, with_command=((b0 + i) % 7 == 0))
                judge(ctx, case, obs)
                terms.append((coq_case(case, obs), case, obs))
        finally:
            if inst is not None:
                inst.close()
    tl = [t[0] for t in terms]
    t1 = time.time()
    chunk = max(60, min(300, -(-len(tl) // common.NPROC)))
    bad = ctx.model_mismatches(HEADER_R, tl, 'check_case_r', chunk=chunk)
    t2 = time.time()
    for k, i in enumerate(bad):
        _, case, obs = terms[i]
        m = ''
        if k < 3:
            c = terms[i][0]
            m = ctx.model_eval(HEADER_R, 'let c := %s in (run (fst (fst c)) (flatten (snd (fst c))), '
                                         'separatedb (fst (fst c)) (snd (fst c)), redeclaredb (fst (fst c)) (snd (fst c)), '
                                         'spec (fst (fst c)) (snd (fst c)))' % c)
        ctx.disagree(case, obs, m, 'C10 resolveArguments (resolved string, unused list, unresolved flag) vs '
                                   'Args.Model.run (every declaration visited, duplicates included); and = spec where '
                                   'separatedb or redeclaredb holds')
    # which cases lie inside the hypotheses of C10_exact / C10_order_independent
    n0 = ctx.model_cases
    outside = set(ctx.model_mismatches(HEADER_R, tl, 'in_scope_r', chunk=chunk, name='scope'))
    ctx.model_cases = n0
    ctx.extra['phase_s'] = {'implementation': round(t1 - t0, 1), 'model_check_case': round(t2 - t1, 1),
                            'model_in_scope': round(time.time() - t2, 1)}
    failing = set(id(f['case']) for f in ctx.failures)
    for i, (_, case, obs) in enumerate(terms):
        ins = i not in outside
        ctx.count('inside_theorem_hypotheses' if ins else 'outside_theorem_hypotheses')
        if ins and id(case) in failing:
            ctx.disagree(case, obs, '(separatedb || redeclaredb) && unambiguousb = true', 'C10 harness oracle vs Args.Model.spec '
                         '(a case inside the theorem hypotheses fails the Python predicate)')
        if ins and classes_of(case):
            ctx.count('inside_hypotheses_but_in_a_finding_class')
    return terms


def judge(ctx, case, obs):
    """the property predicate on the implementation's outputs + bookkeeping"""
    cls = classes_of(case)
    dec = case['declared']
    nsub = sum(1 for r in dec if r['method'] in SUBST)
    ntok = sum(1 for k, _ in case['pieces'] if k == 'T')
    ctx.case([case['stage'], [r['declared_as'] for r in dec], case['pieces']], nsub >= 2 and ntok >= 2)
    ctx.count('refs_%d' % len(dec))
    ctx.count('tokens_%d' % min(ntok, 8))
    for c in cls:
        ctx.count('class_' + c)
    if any(r['method'] == 'output' and not r['file'] and (r['stage'], r['name']) in REPEATING for r in dec):
        ctx.count('reads_stdout_of_a_repeating_producer')
    if not cls:
        ctx.count('outside_all_finding_classes')
    if any(times_declared(dec, r) > 1 for r in dec):
        ctx.count('a_reference_declared_twice')
        tk = [t for k, t in case['pieces'] if k == 'T']
        if any(times_declared(dec, r) > 1 and r_abs(r) in tk and r_rel(r) in tk for r in dec):
            ctx.count('a_reference_declared_and_written_in_both_spellings')
    # (Python mirror of the extra hypotheses of C10_unused / C10_unresolved; the Coq checkers decide)
    subs = [r for r in dec if r['method'] in SUBST]
    if all(sum(1 for r in subs if t in (r_abs(r), r_rel(r))) <= 1 for k, t in case['pieces'] if k == 'T'):
        ctx.count('no_token_spells_two_references')
    if all(':' not in t for k, t in case['pieces'] if k == 'L') and all(':' not in r_value(r) for r in subs):
        ctx.count('every_colon_belongs_to_a_token')
    # overlap statistics
    sp = [r_rel(r).rsplit(':', 1)[0] for r in dec if r['method'] in SUBST]
    if any(a != b and a.endswith(b) for a in sp for b in sp):
        ctx.count('a_name_is_suffix_of_another')
    if any(a != b and a.startswith(b) for a in sp for b in sp):
        ctx.count('a_name_is_prefix_of_another')
    names = [(r['name'], r['file']) for r in dec if r['stage'] is not None and r['method'] in SUBST]
    if len(set(names)) < len(names):
        ctx.count('same_name_in_two_stages_or_methods')
    want = oracle(case)
    want_unused = expected_unused(case)
    # the list the code iterates over (declaration order, spellings)
    want_sp = [[r_abs(r), r_rel(r), r['method']] for r in processing_order(dec)]
    if obs['spellings'] != want_sp:
        ctx.disagree(case, obs['spellings'], want_sp, 'C10 dataReferences: order / spellings of the declared references')
    if obs['command'] is not None and obs['command'] != obs['out']:
        ctx.disagree(case, obs['command'], obs['out'], 'C10 ComponentSpecification.command.arguments vs resolveArguments()')
    if obs['out'] != want:
        ctx.fail(case, 'resolved command line is not the token-wise substitution of the declared references '
                       '(got %r, expected %r)' % (obs['out'][:200], want[:200]), cls)
    elif obs['unused'] != want_unused:
        ctx.fail(case, 'references reported unused %r, expected %r' % (obs['unused'], want_unused), cls)
    else:
        leftover = any((':' + m) in want for m in METHODS)
        ok = 'accepted' if (not want_unused and not leftover) else None
        if ok and obs['verdict'] != 'accepted':
            ctx.fail(case, 'a workflow whose declared references are all used is rejected (%s)' % obs['verdict'], cls)
        if obs['unresolved'] != leftover:
            ctx.fail(case, 'unresolved-reference report %r on a command line with%s leftover reference'
                     % (obs['unresolved'], '' if leftover else 'out'), cls)
    if len(ctx.samples) < 5 and nsub >= 3 and ntok >= 3 and not cls and ctx.evaluations > 1200 + 500 * len(ctx.samples):
        ctx.sample({'stage': case['stage'], 'declared': [r['declared_as'] for r in dec],
                    'arguments': ''.join(s for _, s in case['pieces']), 'resolved': obs['out'], 'verdict': obs['verdict']})


def exhaustive_pairs():
    """every ordered pair of distinct directory references to the 16 producers of stages 0 and 1, declared by a
    stage-1 component, each written once in every spelling the loader accepts, in both token orders"""
    pool = [(st, n) for st in (0, 1) for n in NAMES]
    out = []
    for (s1, n1) in pool:
        for (s2, n2) in pool:
            if (s1, n1) == (s2, n2):
                continue
            a = mk_ref(s1, n1, None, 'ref', 1, relative=True)
            b = mk_ref(s2, n2, None, 'ref', 1, relative=False)
            for ta in ([r_abs(a), r_rel(a)] if s1 == 1 else [r_abs(a)]):
                for tb in ([r_abs(b), r_rel(b)] if s2 == 1 else [r_abs(b)]):
                    for x, y in ((ta, tb), (tb, ta)):
                        out.append({'stage': 1, 'declared': [a, b], 'pieces': [['L', '-i '], ['T', x], ['L', ' -o='], ['T', y], ['L', '/f']]})
    return out


def run(ctx):
    rng = ctx.rng
    ctx.rule = ('one case = (consumer stage, ordered declared references, tokenised argument string); 24 producers named over '
                '{A,B} (length 1-3) in 3 stages + data files, so suffix / prefix / substring / equal-across-stage pairs are '
                'the norm; (a) exhaustive: every ordered pair of references to the 16 producers of stages 0-1, every accepted '
                'spelling, both token orders; (b) random reference sets (<= 4 references; ref / output / copy; files; direct '
                'references) x random tokenised argument strings, in EVERY declaration order; non-trivial = at least two '
                'substitutable references and two reference tokens; distinct by (stage, declaration order, pieces); (c) contents '
                'special to substitution mechanisms (backslashes, group references, & $ % {}): e.txt of every producer, stdout of two, '
                'an input file - in the random sets and as a systematic family (every producer x every spelling); (d) sessions: '
                'consumers with an :output reference (mostly to another stage / an input file) resolved 3-5 times on ONE live '
                'graph through 4 entry points while the referenced files are rewritten / created / deleted / made a directory; '
                'non-trivial = the expected answer changes at least once; (e) DoWhile loops: worlds with a loop advanced 2-6 '
                'iterations (one fixed boundary world: iterations that print nothing / only newlines / not yet), ~22 outside consumers '
                'each (5 fixed + random sets of <= 4 references to placeholders - ref / output / loopref / loopoutput, with / without '
                'file part, a repeating looped component, a looped component of the second stage - and to ordinary producers), resolved '
                'after EVERY iteration through the 4 entry points')
    cases = []
    for b in corpus():
        cases.extend(with_orders(b))
    ex = exhaustive_pairs()
    ctx.count('exhaustive_pair_cases', len(ex))
    cases.extend(ex)
    nbase = 420 if ctx.tier == 'quick' else 2500
    n = 0
    while n < nbase:
        c = gen_case(rng)
        if c is None:
            continue
        if classes_of(c) and rng.random() < 0.75:
            continue        # keep most generated cases outside the finding classes
        n += 1
        cases.extend(with_orders(c))
    ctx.count('random_base_cases', nbase)
    sp = special_contents_cases()
    ctx.count('special_contents_cases', len(sp))
    for b in sp:
        cases.extend(with_orders(b))
    sc = stream_cases()
    ctx.count('repeating_producer_stream_cases', len(sc))
    for b in sc:
        cases.extend(with_orders(b))
    rc = redeclared_cases()
    ctx.count('redeclared_in_both_spellings_cases', len(rc))
    for b in rc:
        cases.extend(with_orders(b))
    ctx.exhaustive = False
    explore(ctx, cases)
    live = live_corpus() + [gen_live_case(rng) for _ in range(110 if ctx.tier == 'quick' else 700)]
    explore_live(ctx, live)
    used = {}
    for c in cases:
        for r in c['declared']:
            used[json.dumps([r['stage'], r['name'], r['file'], r['method']])] = r
    explore_values(ctx, used)
    import c10_loops
    c10_loops.explore_loops(ctx)


def replay(ctx, path):
    d = json.load(open(path))
    c = d.get('case') or d.get('first', {}).get('case')
    if not c or 'declared' not in c:
        print('replay file names no input (proof/correspondence obligation): re-run ./check C10')
        return 2
    if 'loop' in c:
        import c10_loops
        c10_loops.explore_loops(ctx, only=c)
    elif 'streams' in c:
        explore_values(ctx, {})
    elif 'live' in c:
        explore_live(ctx, [c])
    else:
        explore(ctx, [c])
    for f in ctx.failures:
        print('REPRODUCED: %s' % f['what'])
    for f in ctx.disagreements:
        print('DISAGREEMENT: %s' % (f,))
    return 1 if (ctx.failures or ctx.disagreements) else 0
