"""C11 — A workflow that loads is structurally executable; a broken one is rejected.

At import time (i.e. before the proofs are built) the schema OBJECTS returned by the running code
(FlowIR.type_flowir_component('full'/'blueprint'), FlowIR.type_flowir_structure(),
FlowIR.default_component_structure()) are walked and printed as Gallina data into coq/Valid/Generated.v,
so the C11_schema_* theorems are re-checked against what the code says now.  A callable that is not in the
closed table of named predicates fails the generation (= correspondence broken).

Three correspondences against the real code (in-process, no fakes):
 A. validate_object_schema(doc, schema, 'R')  vs  Model.check  on resolved/raw component documents and ALL
    their single-position mutants (unknown key at every dictionary, 10 wrong values + deletion at every position),
    for the three regenerated schemas; compared: the multiset of (error class, label).
 B. WorkflowGraph.graphFromFlowIR(flowir, {}, primitive=False) (validation on, replicated graph) vs Model.accept
    on generated well-formed workflows and ALL single-fault mutants at ALL positions; compared: accept/reject and
    the reason class; the property predicate is evaluated on the real outcome (exception type, watchdog, and for
    accepted workflows: expanded graph acyclic, identifiers unique, references resolved, configurations resolve).
    For the CyclicVars faults (one more mention among the variables) the model's own Model.mutate of the well-formed
    workflow is also compared with the real load of the mutant (check_mutant_case).
 C. every named predicate of the table vs Model.pred_eval on a battery of values.
 D. FlowIR.convert_component_types (the coercion of option values that precedes the schema check) vs Model.convert on
    one-option component documents: every entry of its expected_types table (extracted from the source of the
    running code into Generated.expected_types_code and proved equal to Model.expected_types) x a palette of scalars,
    lists and dictionaries (literal floats included); compared: raises / the converted document.
The generated workflows of B contain aggregating (workflowAttributes.aggregate: true) and replicating
(workflowAttributes.replicate: N) components, the structural faults are placed through them too, and B also holds the
scalar-for-scalar WrongType faults (a float / string / dictionary for an int, float, bool or str option).
"Remove a variable" is applied to every global AND to every component-level variable of every component
(Model.mutate (RemoveCompVar i n)); generated components derive variables from their own variables and use the inner
one only through the derived one, over names that same-stage siblings define too (the variables of a component are
private to it), so the removed variable is often reached only INDIRECTLY while a sibling still defines it.
 P. every workflow of B that is loaded with primitive=False is ALSO loaded with the default primitive=True
    (graphFromFlowIR / packageFromLocation default; the only gate for a dangling reference there is
    FlowIR.validate_references): all structural faults, a sample of the others (3 in 10 quick, 1 in 2 thorough); the property
    predicate is evaluated on the outcome (AddBackEdge and the clashes of expanded identifiers are not judged there: a
    primitive load expands nothing and looks for no cycle) and the outcome is compared with Model.accept_prim.
    The reference faults include the ones where the NAME survives: a component name used in two stages (dropping one
    of the two), a reference whose stage part alone is wrong, a reference to a name that exists in another stage only.
 The replicated loads are compared with Model.accept_repl: accept AND unique identifiers of the EXPANDED workflow
    (replica k of `name` is called name+k) under the replica counts a harness mirror of propagate_replicate computes
    (verified against the expanded identifiers of the real graph whenever a load is accepted); the fault
    ReplicaNameClash renames a same-stage sibling of a replicating component to <name><k>.
 S. (predicate only - stage-level variables are outside the Coq model) workflows whose STAGES define variables, with the
    same names in several stages and components: a well-formed one loads; removing a stage-level, component-level or
    global variable that a component still reaches from what it uses is rejected."""
import copy
import json
import os
import re
import signal
import time

import common
from common import clist, cstr, cnat, cbool, cZ, cpair

PROP = 'C11'
COQ_DIR = 'Valid'
ASSUMPTIONS = [
    'documents are trees of None/bool/int/float/str/list/dict with str or int dictionary keys and no shared '
    'sub-objects (the id()-based "used recursively" guard of validate_object_schema is not modelled)',
    'int(str) is modelled for the plain spellings [+-]?[0-9]+ only (no blanks/underscores); '
    'the regular expressions of is_var_reference and ParseDataReference are the recognisers of coq/Ref/Model.v (C09)',
    'the workflow model has one platform, no DoWhile/import documents, no interface, no application dependencies; '
    'replication appears in the load correspondence only through the real loader (primitive=False); the Coq mirror of the '
    'expansion (coq/Valid/Replicate.v) uses structured (component, replica index) identifiers and is not compared; '
    'in a generated workflow that replicates, a component name is used in one stage only and one replica count is used '
    '(the textual rewriting of replica references and inconsistent replica counts are outside the property)',
    'global variables are resolved among themselves and stored in place before components are resolved '
    '(FlowIRConcrete.instance): a global whose transitive mentions are all globals is a constant for the components',
    'the rendering of a structured workflow into a FlowIR dictionary (harness) is trusted',
    'option values hold no variable references (the fill_in that precedes convert_component_types is the identity on '
    'them); int()/float() of a string are modelled for the plain spellings [+-]?[0-9]+ and digits with at most one '
    'point (no exponent, inf/nan, blanks, underscores); values coerced to a backend/environment/interpreter/executable '
    'NAME are not explored (the lookup of the name is outside the model)',
    'stage-level variables (variables.default.stages.N) are outside the Coq model: stream S evaluates the property '
    'predicate only, with the harness oracle "a name is defined for a component when the globals, the variables of its '
    'own stage or its own variables define it"',
    'the cycle faults and the clashes among the identifiers of the expanded workflow are judged on the replicated load '
    '(primitive=False) only: with the default primitive=True the loader expands nothing and does not look for cycles '
    '(the property speaks about the expanded graph); every other fault is judged on both loads',
    'the replica counts handed to Model.accept_repl are computed by a harness mirror of FlowIR.propagate_replicate '
    '(own count, else the count of a producer that does not aggregate; an aggregating component is not expanded), '
    'checked against the identifiers of the real expanded graph whenever the real load succeeds',
    'the variables of a PRIMITIVE load are outside Model.accept_prim (no in-place resolution of the globals there): '
    'predicate only',
]

GEN_ERROR = None
SCHEMA_OBJS = {}
PREDS = {}

PRED_TABLE = {
    'FlowIR.is_var_reference': 'PIsVarRef',
    'FlowIR._validate_restart_hook_file': 'PRestartHookFile',
    'FlowIR.type_flowir_component.<locals>.max_restarts_int': 'PMaxRestarts',
    'FlowIR.type_flowir_component.<locals>.is_dictionary_or_none': 'PDictOrNone',
    'FlowIR.str_to_kubernetes_qos': 'PK8sQos',
    'FlowIR._schema_memory': 'PMemory',
    'FlowIR.type_flowir_structure.<locals>.is_valid_status_report_key': 'PStatusKey',
    'FlowIR.validate_flowir_version': 'PVersion',
    'FlowIR.ParseDataReference': 'PDataRef',
}
TY = {str: 'TStr', int: 'TInt', float: 'TFloat', bool: 'TBool', dict: 'TDict', list: 'TList'}


class GenError(Exception):
    pass


# ------------------------------------------------------------------ Python value -> Model.pv
def cpk(k):
    if isinstance(k, bool) or not isinstance(k, (str, int)):
        raise GenError('unsupported dictionary key %r' % (k,))
    return '(KS %s)' % cstr(k) if isinstance(k, str) else '(KI %s)' % cZ(k)


def cpv(o):
    if o is None:
        return 'VNone'
    if isinstance(o, bool):
        return '(VBool %s)' % cbool(o)
    if isinstance(o, int):
        return '(VInt %s)' % cZ(o)
    if isinstance(o, float):
        return '(VFlt %s)' % cstr(repr(o))
    if isinstance(o, str):
        return '(VStr %s)' % cstr(o)
    if isinstance(o, (list, tuple)):
        return '(VList %s)' % clist(o, cpv)
    if isinstance(o, dict):
        return '(VDict %s)' % clist(list(o.items()), lambda kv: '(%s, %s)' % (cpk(kv[0]), cpv(kv[1])))
    raise GenError('cpv: %r' % (o,))


# ------------------------------------------------------------------ schema object -> Model.schema
def _pred_name(f):
    import types
    qn = getattr(f, '__qualname__', None)
    if qn in PRED_TABLE:
        PREDS.setdefault(PRED_TABLE[qn], f)
        return PRED_TABLE[qn]
    if isinstance(f, types.FunctionType) and f.__name__ == '<lambda>':
        ref = (lambda x: True)
        if f.__code__.co_code == ref.__code__.co_code and f.__code__.co_consts == ref.__code__.co_consts \
                and f.__code__.co_argcount == 1:
            PREDS.setdefault('PTrue', f)
            return 'PTrue'
    raise GenError('callable %r (%s) is not in the closed table of named predicates' % (f, qn))


def _types(t):
    ts = t if isinstance(t, tuple) else (t,)
    out = []
    for x in ts:
        if x not in TY:
            raise GenError('unsupported type %r in a schema' % (x,))
        out.append(TY[x])
    return clist(out)


def gschema(s, F):
    if isinstance(s, F.ValidateOptional):
        if isinstance(s.schema, F.ValidateOptional):
            raise GenError('nested ValidateOptional')
        return '(SOpt %s)' % gschema(s.schema, F)
    if s is None:
        return '(SConst VNone)'
    if isinstance(s, str):
        return '(SConst (VStr %s))' % cstr(s)
    if isinstance(s, (bool, int, float)):
        raise GenError('numeric constant %r in a schema is not modelled' % (s,))
    if isinstance(s, (tuple, type)):
        return '(SType %s)' % _types(s)
    if isinstance(s, F.ValidateMany):
        return '(SMany %s)' % gschema(s.schema, F)
    if isinstance(s, F.ValidateOr):
        return '(SOr %s)' % clist([gschema(x, F) for x in s.schema])
    if isinstance(s, dict):
        rules = []
        for k, v in s.items():
            opt = isinstance(k, F.ValidateOptional)
            a = k.schema if opt else k
            if isinstance(a, str):
                km = '(MConst (KS %s))' % cstr(a)
            elif isinstance(a, tuple):
                km = '(MTypes %s)' % _types(a)
            elif isinstance(a, type):
                if a not in (str, int):
                    raise GenError('bare type key %r' % (a,))
                km = '(MBare %s)' % TY[a]
            elif callable(a):
                if not opt:
                    raise GenError('non-optional callable key %r' % (a,))
                km = '(MPred %s)' % _pred_name(a)
            else:
                raise GenError('unsupported schema key %r' % (a,))
            rules.append('(Rule %s %s %s %s)' % (cbool(opt), km, cstr(str(k)), gschema(v, F)))
        return '(SDict %s)' % clist(rules)
    if isinstance(s, list):
        return '(SAlts %s)' % clist([gschema(x, F) for x in s])
    if callable(s):
        return '(SPred %s)' % _pred_name(s)
    raise GenError('unsupported schema node %r' % (s,))


CONV_NAMES = {'str': 'CStr', 'int': 'CInt', 'float': 'CFloat', 'to_bool': 'CBool', 'str_to_bool': 'CStrBool',
              'optional_int': 'COptInt', 'cls.memory_to_bytes': 'CMemory', 'cls.str_to_kubernetes_qos': 'CQos',
              'dict': 'CDictT'}
CONV_TABLE = {}     # path (tuple of keys) -> converter name of Model.conv


def expected_types_table(F):
    """the `expected_types = {...}` literal of FlowIR.convert_component_types, read from the source of the running
    code: -> nested dict whose leaves are names of Model.conv (a callable that is not in the closed table of
    converters fails the generation)"""
    import ast
    import inspect
    import textwrap
    tree = ast.parse(textwrap.dedent(inspect.getsource(F.FlowIR.convert_component_types)))
    found = [n for n in ast.walk(tree) if isinstance(n, ast.Assign) and len(n.targets) == 1
             and isinstance(n.targets[0], ast.Name) and n.targets[0].id == 'expected_types']
    if len(found) != 1 or not isinstance(found[0].value, ast.Dict):
        raise GenError('convert_component_types has no single `expected_types = {...}` literal')

    def walk(node):
        if isinstance(node, ast.Dict):
            out = {}
            for k, v in zip(node.keys, node.values):
                if not (isinstance(k, ast.Constant) and isinstance(k.value, str)):
                    raise GenError('expected_types: key %s is not a string literal' % ast.dump(k))
                out[k.value] = walk(v)
            return out
        name = ast.unparse(node)
        if name not in CONV_NAMES:
            raise GenError('expected_types: converter %r is not in the closed table of converters' % name)
        return CONV_NAMES[name]
    return walk(found[0].value)


def gctree(t):
    if isinstance(t, dict):
        return '(CNode %s)' % clist(list(t.items()), lambda kv: '(%s, %s)' % (cstr(kv[0]), gctree(kv[1])))
    return '(CLeaf %s)' % t


def _walk_table(t, p):
    if isinstance(t, dict):
        for k, v in t.items():
            _walk_table(v, p + (k,))
    else:
        CONV_TABLE[p] = t


def _walk_default(d, p, sections, leaves):
    sections.append(list(p))
    for k, v in d.items():
        if isinstance(v, dict):
            _walk_default(v, p + [k], sections, leaves)
        else:
            leaves.append(p + [k])


def generate():
    """(re)write coq/Valid/Generated.v from the running code"""
    global GEN_ERROR
    path = os.path.join(common.COQ, 'Valid', 'Generated.v')
    try:
        import experiment.model.frontends.flowir as F
        objs = {
            'component_full': F.FlowIR.type_flowir_component('full'),
            'component_blueprint': F.FlowIR.type_flowir_component('blueprint'),
            'structure': F.FlowIR.type_flowir_structure(),
        }
        SCHEMA_OBJS.update(objs)
        sections, leaves = [], []
        _walk_default(F.FlowIR.default_component_structure(), [], sections, leaves)
        # component variables are an open collection (any name is a variable): not an option section
        sections = [p for p in sections if p != ['variables']]
        SCHEMA_OBJS['sections'] = sections
        SCHEMA_OBJS['leaves'] = leaves
        out = ['(* GENERATED by harness/c11.py from the running code on every check run - do not edit.',
               '   FlowIR.type_flowir_component / type_flowir_structure / default_component_structure. *)',
               'From Coq Require Import String List ZArith.', 'Import ListNotations.',
               'Require Import V.Valid.Model.', 'Open Scope string_scope.', '']
        for name in ('component_full', 'component_blueprint', 'structure'):
            out.append('Definition %s : schema :=\n  %s.\n' % (name, gschema(objs[name], F)))
        out.append('(* dictionaries of default_component_structure() (option sections) and its leaf options *)')
        out.append('Definition option_sections : list (list pk) :=\n  %s.\n' % clist(sections, lambda p: clist(p, cpk)))
        out.append('Definition option_leaves : list (list pk) :=\n  %s.\n' % clist(leaves, lambda p: clist(p, cpk)))
        table = expected_types_table(F)
        _walk_table(table, ())
        out.append('(* the expected_types table of FlowIR.convert_component_types, read from its source *)')
        out.append('Definition expected_types_code : ctree :=\n  %s.\n' % gctree(table))
        # (the repr of a function inside an Optional(...) label holds a memory address: not part of any compared label)
        txt = re.sub(r' at 0x[0-9a-f]+', '', '\n'.join(out))
    except Exception as e:  # unknown callable, import failure...
        GEN_ERROR = '%s: %s' % (type(e).__name__, e)
        return
    old = open(path).read() if os.path.exists(path) else None
    if old != txt:
        open(path, 'w').write(txt)


generate()

HEADER = 'Require Import V.Valid.Model V.Valid.Generated.\nOpen Scope string_scope.\n'


# ------------------------------------------------------------------ A. schema correspondence
def canon_errors(errs):
    import experiment.model.errors as E
    out = []
    for e in errs:
        if isinstance(e, E.FlowIRKeyUnknown):
            out.append((1, e.key_name))
        elif isinstance(e, E.FlowIRValueInvalid):
            out.append((2, re.sub(r':\d{5,}$', '', e.key_name)))
        elif isinstance(e, E.FlowIRKeyMissing):
            out.append((3, e.key_name))
        else:
            out.append((9, type(e).__name__))
    return sorted(out)


PALETTE = [[1], {'x': 1}, 'abc', 7, 2.5, None, True, '%(gv)s', -3, '']


def positions(doc, p=()):
    """all (path, key) positions of a document (dict entries, recursively; list items of dicts too)"""
    out = []
    if isinstance(doc, dict):
        for k, v in doc.items():
            out.append((p, k))
            out.extend(positions(v, p + (k,)))
    elif isinstance(doc, list):
        for i, v in enumerate(doc):
            if isinstance(v, (dict, list)):
                out.extend(positions(v, p + (('#', i),)))
    return out


def dict_positions(doc, p=()):
    out = []
    if isinstance(doc, dict):
        out.append(p)
        for k, v in doc.items():
            out.extend(dict_positions(v, p + (k,)))
    elif isinstance(doc, list):
        for i, v in enumerate(doc):
            out.extend(dict_positions(v, p + (('#', i),)))
    return out


def nav(doc, p):
    for k in p:
        doc = doc[k[1]] if isinstance(k, tuple) else doc[k]
    return doc


def mutants_of(doc, tier, rng):
    """-> list of (description, mutated document)"""
    out = []
    for p in dict_positions(doc):
        for newk in ('zzUnknown', 7, '0', '12'):
            m = copy.deepcopy(doc)
            d = nav(m, p)
            if newk in d:
                continue
            d[newk] = 1
            out.append(('unknown-key', m))
    for p, k in positions(doc):
        pal = PALETTE if tier != 'quick' else rng.sample(PALETTE, 2) + [[1]]
        for v in pal:
            m = copy.deepcopy(doc)
            nav(m, p)[k] = copy.deepcopy(v)
            out.append(('wrong-value', m))
        m = copy.deepcopy(doc)
        del nav(m, p)[k]
        out.append(('deleted', m))
    return out


STRUCT_DOC = {
    'interface': None,
    'components': [],
    'variables': {'default': {'global': {'a': 1, 'b': 'x', 'c': 2.5, 'd': True}, 'stages': {0: {'s': 1}, 1: {}}},
                  'other': {'global': {}, 'stages': {}}},
    'environments': {'default': {'env1': {'PATH': '/bin', 'N': 3}}, 'other': {}},
    'blueprint': {'default': {'global': {'command': {'executable': 'ls'}, 'resourceRequest': {'numberThreads': 2}},
                              'stages': {1: {'workflowAttributes': {'maxRestarts': 2}}}}},
    'status-report': {0: {'stage-weight': 0.5, 'arguments': 'x', 'references': ['a:ref']}, 'stage1': {}, '2': {}},
    'application-dependencies': {'default': ['app.application']},
    'output': {'out1': {'data-in': 'stage0.a/f.txt:copy', 'stages': [0, 'stage1'], 'type': 'csv'}},
    'platforms': ['default', 'other'],
    'virtual-environments': {'default': ['venv']},
    'version': '0.3.0',
}
INTERFACE_DOC = {
    'description': 'd', 'inputSpec': {'namingScheme': 'SMILES', 'inputExtractionMethod': {
        'csvColumn': {'source': {'path': 'input/x.csv'}, 'args': {'column': 'smiles'}}}, 'hasAdditionalData': False},
    'propertiesSpec': [{'name': 'p1', 'propertyExtractionMethod': {
        'csvDataFrame': {'source': {'keyOutput': 'out1'}, 'args': {'renameColumns': {'a': 'b'}}}}}],
    'inputs': ['a'], 'additionalInputData': {'a': ['x']}, 'outputFiles': None,
}


def schema_cases(ctx, base_flowir):
    import experiment.model.frontends.flowir as F
    cases = []   # (schema name, doc)
    concrete = F.FlowIRConcrete(copy.deepcopy(base_flowir), 'default', {})
    resolved = [concrete.get_component_configuration(cid, include_default=True, is_primitive=True, raw=False)
                for cid in sorted(concrete.get_component_identifiers(True))]
    raw = [copy.deepcopy(c) for c in base_flowir['components']]
    rich = copy.deepcopy(resolved[0])
    rich['executors'] = {'pre': [{'name': 'lsf-dm-in', 'payload': 'x'}], 'main': [],
                         'post': [{'name': 'lsf-dm-out', 'payload': 'y'}]}
    rich['override'] = {'other': {'command': {'arguments': 'z'}, 'variables': {'q': 1}}}
    rich['workflowAttributes']['restartHookOn'] = ['ResourceExhausted', '%(x)s', 'KnownIssue']
    rich['workflowAttributes']['shutdownOn'] = ['Killed']
    rich['resourceManager']['kubernetes']['qos'] = 'Burstable'
    rich['resourceRequest']['memory'] = '2Gi'
    ndocs = 2 if ctx.tier == 'quick' else len(resolved)
    for d in resolved[:ndocs] + [rich]:
        cases.append(('component_full', d))
        for what, m in mutants_of(d, ctx.tier, ctx.rng):
            ctx.count('A:' + what)
            cases.append(('component_full', m))
    for d in raw[:2] + [F.FlowIR.default_component_structure()]:
        cases.append(('component_full', d))
        cases.append(('component_blueprint', d))
        for what, m in mutants_of(d, ctx.tier, ctx.rng):
            ctx.count('A:' + what)
            cases.append(('component_blueprint', m))
    sd = copy.deepcopy(STRUCT_DOC)
    sd2 = copy.deepcopy(STRUCT_DOC)
    sd2['interface'] = copy.deepcopy(INTERFACE_DOC)
    for d in (sd, sd2):
        cases.append(('structure', d))
        for what, m in mutants_of(d, ctx.tier, ctx.rng):
            ctx.count('A:' + what)
            cases.append(('structure', m))
    terms, metas = [], []
    seen = set()
    for name, doc in cases:
        try:
            term_doc = cpv(doc)
        except GenError:
            continue
        key = (name, term_doc)
        if key in seen:
            continue
        seen.add(key)
        errs = canon_errors(F.validate_object_schema(copy.deepcopy(doc), SCHEMA_OBJS[name], 'R'))
        ctx.case(('A', name, term_doc), bool(errs))
        terms.append('(%s, %s, %s, %s)' % (name, term_doc, cstr('R'),
                                           clist(errs, lambda e: cpair(cnat(e[0]), cstr(e[1])))))
        metas.append((name, doc, errs))
    bad = ctx.model_mismatches(HEADER, terms, 'check_schema_case', chunk=250, name='schema')
    for i in bad:
        name, doc, errs = metas[i]
        ctx.disagree({'schema': name, 'doc': doc}, errs, 'Model.check differs',
                     'validate_object_schema vs Model.check over the regenerated %s' % name)
    ctx.count('A:cases', len(terms))


# ------------------------------------------------------------------ C. predicates
PRED_VALUES = [None, True, False, 0, 1, -1, -2, 7, 2.5, '', 'abc', '%(v)s', 'a%(v.w-1)sb', 'r[1]', 'r[x]', 'a/b',
               'restart.py', 'hooks/restart.py', 'guaranteed', 'Burstable', 'BESTEFFORT', 'best', '5', '-3', '+4',
               '5Mi', '7Gi', '5Xi', 'Mi', 'stage3', 'stage', 'stagex', 'stage-1', '0.3.0', '1.2', '1.2.3.4', 'a.b.c',
               '1..2', 'a:ref', 'stage0.a/f.txt:copy', 'a:bogus', 'a', 'a:ref:copy', ':ref', '/abs/x:link',
               [], [1], ['a'], {}, {'x': 1}]


def pred_cases(ctx):
    terms, metas = [], []
    for name, f in sorted(PREDS.items()):
        for v in PRED_VALUES:
            try:
                r = f(copy.deepcopy(v))
            except Exception:
                r = False
            ok = r is not False
            terms.append('(%s, %s, %s)' % (name, cpv(v), cbool(ok)))
            metas.append((name, v, ok))
            ctx.case(('C', name, repr(v)), True)
    bad = ctx.model_mismatches(HEADER, terms, 'check_pred_case', chunk=400, name='preds')
    for i in bad:
        name, v, ok = metas[i]
        ctx.disagree({'predicate': name, 'value': v}, ok, not ok, 'named schema predicate %s vs Model.pred_eval' % name)
    ctx.count('C:cases', len(terms))


# ------------------------------------------------------------------ D. convert_component_types
CONV_VALUES = [2.5, 0.5, 600.0, -1.5, 'abc', '3', '-3', '+4', '2.5', '.5', '5.', '-', '.', '1.2.3', 'yes', 'No', 'TRUE',
               'false', 'True', 'y', True, False, 7, 0, -3, None, '', {'x': 1}, {}, {7: 1}, [1], [], '5Mi', '7Gi', '5Xi',
               'Mi', '-2Gi', 'burstable', 'Guaranteed', 'x/y']


def put_path(doc, p, v):
    d = doc
    for x in p[:-1]:
        d = d.setdefault(x, {})
    d[p[-1]] = v
    return doc


def real_convert(doc):
    """-> the converted document, or None when convert_component_types raises FlowIRFailedComponentConvertType"""
    import experiment.model.frontends.flowir as F
    import experiment.model.errors as E
    d = copy.deepcopy(doc)
    try:
        F.FlowIR.convert_component_types(d, ignore_convert_errors=False, out_errors=None, is_primitive=False)
    except E.FlowIRFailedComponentConvertType:
        return None
    return d


def convert_cases(ctx):
    paths = sorted(CONV_TABLE)
    # dictionaries of the table (a scalar there: "a dictionary is not callable"), and positions the table does not name
    inner = sorted(set(p[:i] for p in paths for i in range(1, len(p))))
    other = [('workflowAttributes', 'memoization', 'embeddingFunction'), ('resourceManager', 'docker', 'platform'),
             ('executors',), ('variables', 'v'), ('resourceRequest', 'zzUnknown'), (7,)]
    docs = []
    for p in paths + inner + other:
        vals = CONV_VALUES if (ctx.tier != 'quick' or p in paths) else CONV_VALUES[:6] + [{'x': 1}, {}]
        if ctx.tier == 'quick' and p in paths:
            vals = CONV_VALUES[:4] + ctx.rng.sample(CONV_VALUES[4:], 12)
        for v in vals:
            docs.append(put_path({'name': 'a', 'stage': 0}, list(p), copy.deepcopy(v)))
    # several options at once: one failure is enough to make the component invalid
    docs.append({'name': 'a', 'stage': 0, 'resourceRequest': {'numberThreads': '2', 'gpus': True, 'memory': '2Gi'},
                 'workflowAttributes': {'aggregate': 'yes', 'replicate': '2', 'maxRestarts': None, 'repeatInterval': 2.5},
                 'resourceManager': {'config': {'walltime': 30, 'backend': 7}, 'kubernetes': {'podSpec': {'a': {'b': 1}}}}})
    docs.append({'name': 'a', 'stage': 0, 'resourceRequest': {'numberThreads': '2', 'gpus': 'x'},
                 'workflowAttributes': {'aggregate': 'yes'}})
    terms, metas = [], []
    for d in docs:
        try:
            impl = real_convert(d)
            term = '(%s, %s)' % (cpv(d), 'None' if impl is None else '(Some %s)' % cpv(impl))
        except GenError:
            continue
        except Exception as e:      # another exception type escaping the conversion
            ctx.disagree({'document': d}, type(e).__name__, 'Model.convert', 'convert_component_types raised')
            continue
        terms.append(term)
        metas.append((d, impl))
        ctx.case(('D', repr(d)), impl is None)
        ctx.count('D:raises' if impl is None else 'D:converted')
    bad = ctx.model_mismatches(HEADER, terms, 'check_convert_case', chunk=400, name='convert')
    for i in bad:
        d, impl = metas[i]
        ctx.disagree({'document': d}, impl, 'Model.convert differs',
                     'FlowIR.convert_component_types vs Model.convert (which scalars are coerced, which are left '
                     'for the schema, which raise)')
    ctx.count('D:cases', len(terms))


# ------------------------------------------------------------------ B. structured workflows
NAMES = ['a', 'b', 'gen', 'x1', 'proc-2', 'm.n']
OPTION_SETS = [
    {},
    {'resourceRequest': {'numberProcesses': 2, 'memory': '1Gi'}},
    {'workflowAttributes': {'maxRestarts': 3, 'shutdownOn': ['KnownIssue']},
     'resourceManager': {'config': {'walltime': 30.0}}},
    {'resourceManager': {'lsf': {'queue': 'normal'}, 'kubernetes': {'qos': 'burstable'}},
     'command': {'expandArguments': 'none'}},
]


def gen_wf(rng, replication=None):
    n = rng.randint(2, 5)
    comps = []
    used = set()
    stage = 0
    # aggregating / replicating components in about 7 workflows of 10; there a name is used in one stage only: the
    # loader rewrites the references of a replica textually (`x1:ref` inside `stage0.x1:ref`), a replicated and a plain
    # producer of the same name in two stages make it reject a well-formed workflow (outside the property and the model)
    with_replication = rng.random() < 0.7
    if replication is not None:
        with_replication = replication      # (run() asks for one workflow without replication in every run: there
        n = max(n, 4)                       #  component names are reused across the stages)
    for i in range(n):
        if i and rng.random() < 0.4:
            stage += 1
        cand = [x for x in NAMES if (stage, x) not in used and not (with_replication and x in [u[1] for u in used])]
        # a component NAME used in two stages (identifiers are (stage, name) pairs): in about half of the draws of a
        # workflow without replication a later stage takes a name that an earlier stage already uses
        twice = [x for x in cand if any(u[1] == x and u[0] != stage for u in used)]
        name = rng.choice(twice) if (twice and not with_replication and rng.random() < 0.5) else rng.choice(cand)
        used.add((stage, name))
        prev = [(c['stage'], c['name']) for c in comps]
        k = rng.randint(0, min(2, len(prev)))
        refs = rng.sample(prev, k)
        comps.append({'stage': stage, 'name': name, 'refs': refs, 'uses': [], 'vars': {}, 'opts': {}})
        if not with_replication and rng.random() < 0.3:
            comps[-1]['rel'] = True      # producers of its own stage are referenced in the relative form (name:ref)
    gnames = ['g0', 'g1', 'g2'][:rng.randint(1, 3)]
    gvars = {}
    for j, g in enumerate(gnames):
        gvars[g] = [gnames[j - 1]] if j and rng.random() < 0.5 else []
    for c in comps:
        if rng.random() < 0.5:
            c['vars']['lv'] = [rng.choice(gnames)] if rng.random() < 0.5 else []
        if rng.random() < 0.25:
            c['vars'][gnames[0]] = []        # shadows a global
        # chains among the component-level variables: lw is derived from lv (label: part-%(chunk)s), lx from lw; in
        # about half of these components the inner variable is used ONLY through the derived one.  Every component
        # draws from the same three names, so same-stage siblings (and components of other stages) that define a
        # variable of the same name are the rule - the variables of a component are nevertheless private to it
        if 'lv' in c['vars'] and rng.random() < 0.6:
            c['vars']['lw'] = ['lv'] + ([rng.choice(gnames)] if rng.random() < 0.3 else [])
            if rng.random() < 0.3:
                c['vars']['lx'] = ['lw']
        elif 'lv' not in c['vars'] and rng.random() < 0.15:
            c['vars']['lw'] = []             # a sibling's lw is derived, this one is a constant
        pool = gnames + list(c['vars'])
        c['uses'] = sorted(set(rng.sample(pool, rng.randint(0, min(2, len(pool))))))
        derived = [k for k in ('lx', 'lw') if c['vars'].get(k)]
        if derived and rng.random() < 0.6:
            # the outermost derived variable is used, what it is derived from is not used directly
            c['uses'] = sorted(set([u for u in c['uses'] if u not in ('lv', 'lw', 'lx')] + [derived[0]]))
    # a systematic family (about 4 workflows in 10 that have a stage with two or more components): EVERY component of
    # one stage defines lv and derives lw from it, and uses lv only through lw
    crowded = sorted(set(c['stage'] for c in comps if sum(1 for d in comps if d['stage'] == c['stage']) > 1))
    if crowded and rng.random() < 0.4:
        st = rng.choice(crowded)
        for c in comps:
            if c['stage'] == st:
                c['vars'].setdefault('lv', [])
                c['vars']['lw'] = ['lv']
                top = 'lx' if c['vars'].get('lx') else 'lw'
                c['uses'] = sorted(set([u for u in c['uses'] if u not in ('lv', 'lw', 'lx')] + [top]))
    for c in comps:
        # some integer-valued variables are used only as an ARRAY INDEX (%(arr)s[%(u)s]); removing such a variable
        # must be rejected exactly like removing one that is referenced directly
        c['idx_uses'] = [u for u in c['uses']
                         if (c['vars'].get(u) == [] or (u not in c['vars'] and gvars.get(u) == [])) and rng.random() < 0.35]
        c['opts'] = copy.deepcopy(rng.choice(OPTION_SETS))
    # (one replica count per workflow: the counts that reach a component must be consistent)
    if with_replication:
        repn = rng.randint(1, 3)
        for c in comps:
            r = rng.random()
            if r < 0.35:
                c['opts'].setdefault('workflowAttributes', {})['aggregate'] = True
            elif r < 0.65:
                c['opts'].setdefault('workflowAttributes', {})['replicate'] = repn
    return {'gvars': gvars, 'comps': comps}


def var_value(refs, i):
    return ('v%d' % i) + ''.join('-%%(%s)s' % r for r in refs) if refs else i


def render_comp(c):
    """structured component -> its FlowIR dictionary"""
    refs = [('%s:ref' % r[1]) if (c.get('rel') and r[0] == c['stage']) else 'stage%d.%s:ref' % tuple(r)
            for r in c['refs']]
    d = {'name': c['name'], 'stage': c['stage'],
         'command': {'executable': 'echo', 'arguments': ' '.join(
             refs + [('%%(arr)s[%%(%s)s]' % u) if u in c.get('idx_uses', []) else '%%(%s)s' % u for u in c['uses']])},
         'references': refs}
    if c['vars']:
        d['variables'] = {k: var_value(v, 3) for k, v in c['vars'].items()}
    for sec, val in c['opts'].items():
        if sec in d and isinstance(d[sec], dict):
            d[sec].update(copy.deepcopy(val))
        else:
            d[sec] = copy.deepcopy(val)
    c.get('doc_patch', lambda doc: None)(d)
    return d


def render(w):
    gv = {k: var_value(v, 5) for k, v in w['gvars'].items()}
    gv['arr'] = 'e0 e1 e2 e3 e4 e5 e6 e7'
    return {'variables': {'default': {'global': gv}},
            'platforms': ['default'],
            'components': [c['doc'] if 'doc' in c else render_comp(c) for c in w['comps']]}


def finalize(w):
    """attach the FlowIR dictionary of every component (the structured fields and the dictionary are rendered
    from the same data, so they agree by construction)"""
    for c in w['comps']:
        if 'doc' not in c:
            c['doc'] = render_comp(c)
    return w


def c_cid(r):
    return '(%s%%N, %s)' % (r[0], cstr(r[1]))


def c_vars(d):
    return clist(list(d.items()), lambda kv: '(%s, %s)' % (cstr(kv[0]), clist(kv[1], cstr)))


def c_wf(w):
    comps = clist(w['comps'], lambda c: '(mkComp %d%%N %s %s %s %s %s)' % (
        c['stage'], cstr(c['name']), clist(c['refs'], c_cid), clist(c['uses'], cstr), c_vars(c['vars']), cpv(c['doc'])))
    return '(mkWf %s %s)' % (c_vars(w['gvars']), comps)


def reachable_from(w, src):
    """identifiers that (transitively) consume from src"""
    out, todo = set(), [src]
    while todo:
        u = todo.pop()
        for c in w['comps']:
            cid = (c['stage'], c['name'])
            if u in [tuple(r) for r in c['refs']] and cid not in out:
                out.add(cid)
                todo.append(cid)
    return out


def _has_section(doc, p):
    for x in p:
        if not isinstance(doc, dict) or not isinstance(doc.get(x), dict):
            return False
        doc = doc[x]
    return isinstance(doc, dict)


def set_path(doc, p, k, v):
    d = doc
    for x in p:
        if not isinstance(d.get(x), dict):
            return False
        d = d[x]
    d[k] = v
    return True


# str options whose VALUE is a name that the loader looks up beyond the schema (a backend, an environment, an
# interpreter, an executable): str(7) is a well typed but unknown name - outside the model, only the wrongly typed
# values are explored there
NAME_OPTIONS = {('resourceManager', 'config', 'backend'), ('command', 'environment'), ('command', 'executable'),
                ('command', 'interpreter'), ('command', 'arguments')}
INT_RE = re.compile(r'[+-]?[0-9]+$')
FLOAT_RE = re.compile(r'[+-]?([0-9]+(\.[0-9]*)?|\.[0-9]+)$')
MEM_RE = re.compile(r'[+-]?[0-9]+(Mi|Gi)?$')
# options converted with int() whose schema also admits a float (C11_schema_float_options)
INT_ADMITS_FLOAT = {('workflowAttributes', 'repeatInterval')}
SCALAR_VALUES = [2.5, 0.5, 4.0, 'abc', '3', '2.5', 'yes', 7, True, {'x': 1}, {}]
# always explored on the corpus workflows: the witnesses of the silently truncated floats (F11c and the conversion of
# convert_component_types), non-numeric strings, dictionaries, and the coercions that are accepted by design
CORPUS_SCALARS = [(('workflowAttributes', 'replicate'), 2.5), (('workflowAttributes', 'replicate'), 4.0),
                  (('resourceRequest', 'numberThreads'), 2.5), (('workflowAttributes', 'maxRestarts'), 0.5),
                  (('resourceRequest', 'gpus'), 0.5), (('resourceManager', 'kubernetes', 'gracePeriod'), 4.0),
                  (('resourceRequest', 'numberProcesses'), 'abc'), (('resourceRequest', 'numberThreads'), {'x': 1}),
                  (('resourceManager', 'config', 'walltime'), 'abc'), (('workflowAttributes', 'aggregate'), 'abc'),
                  (('workflowAttributes', 'aggregate'), 2.5), (('command', 'resolvePath'), 7),
                  (('resourceManager', 'lsf', 'queue'), 2.5),
                  (('resourceRequest', 'numberThreads'), '3'), (('resourceRequest', 'gpus'), True),
                  (('workflowAttributes', 'aggregate'), 'yes'), (('resourceManager', 'config', 'walltime'), 30),
                  (('resourceManager', 'lsf', 'queue'), 7), (('workflowAttributes', 'repeatInterval'), 2.5),
                  (('resourceRequest', 'memory'), 2.5)]


def scalar_fault(path, v):
    """the property's verdict on `option: v` from the kind of the option (the converter the expected_types table
    names for it) and the kind of the value alone - the mirror of Model.wrong_rejected / C11_scalar_*:
    True = a wrongly typed option (must be rejected), False = well typed or coerced by design (no demand), None = not
    classified (not explored)"""
    kind = CONV_TABLE.get(tuple(path))
    if kind is None or v is None or isinstance(v, list) or path[-1] == 'isRepeat':
        return None
    if isinstance(v, dict):
        return kind != 'CDictT'
    isb, isi, isf, iss = isinstance(v, bool), isinstance(v, int), isinstance(v, float), isinstance(v, str)
    if kind in ('CInt', 'COptInt'):
        if isf:
            return tuple(path) not in INT_ADMITS_FLOAT
        return iss and not INT_RE.match(v)
    if kind == 'CFloat':
        return iss and not FLOAT_RE.match(v)
    if kind == 'CBool':
        return isf or (iss and v.lower() not in ('true', 'false', 'yes', 'no'))
    if kind == 'CStrBool':
        return isf or (isi and not isb) or (iss and v.lower() not in ('true', 'false', 'yes', 'no'))
    if kind == 'CStr':
        return isf
    if kind == 'CMemory':
        return iss and not MEM_RE.match(v)
    if kind == 'CQos':
        return not iss or v.lower() not in ('guaranteed', 'burstable', 'besteffort')
    if kind == 'CDictT':
        return not (iss and v == '')
    return None


def on_cycle_through(w, i, r, idl):
    """the components on the cycles that the new edge r -> component i closes"""
    down = reachable_from(w, idl[i])
    up = set(x for x in idl if r in reachable_from(w, x))
    return (down & up) | {idl[i], r}


def load_mutants(w, tier, rng, corpus=False, variables_only=False):
    """ALL single-fault mutants of the well-formed workflow w at all positions:
    -> list of (fault name, faulty (must be rejected per the property), finding classes, mutant)"""
    out = []
    base = finalize(copy.deepcopy(w))
    n = len(base['comps'])
    idl = [(c['stage'], c['name']) for c in base['comps']]

    def fresh():
        m = copy.deepcopy(w)
        return m

    for i in (range(n) if not variables_only else []):
        # drop a component
        m = fresh()
        victim = idl[i]
        del m['comps'][i]
        has_consumer = any(victim in [tuple(r) for r in c['refs']] for c in m['comps'])
        out.append(('DropComponent', has_consumer, [], finalize(m), None,
                    'B:DropComponent with a consumer, the name survives in another stage'
                    if has_consumer and any(x[1] == victim[1] for x in idl if x != victim) else None))
        # rename each reference
        for j in range(len(w['comps'][i]['refs'])):
            m = fresh()
            m['comps'][i]['refs'][j] = (m['comps'][i]['refs'][j][0], 'nx')
            out.append(('RenameRef', True, [], finalize(m)))
            # ... to an identifier nobody has although its NAME exists: the stage part alone is wrong (every other
            # stage of the workflow and the one after the last), or the name is the one of a component of another stage
            st0, nm0 = tuple(w['comps'][i]['refs'][j])
            nst = max(x[0] for x in idl) + 1
            alts = [('RenameRefStage', (s2, nm0)) for s2 in range(nst + 1) if s2 != st0] + \
                   [('RenameRefName', (st0, n2)) for n2 in sorted(set(x[1] for x in idl)) if n2 != nm0]
            alts = [(f, r2) for f, r2 in alts if r2 not in idl]
            if tier == 'quick' and not corpus and len(alts) > 3:
                alts = rng.sample(alts, 3)
            for f, r2 in alts:
                m = fresh()
                m['comps'][i]['refs'][j] = r2
                m['comps'][i]['rel'] = False      # (the reference is written in the absolute form)
                out.append((f, True, [], finalize(m), None,
                            'B:%s, the name exists in another stage' % f if any(x[1] == r2[1] for x in idl)
                            else 'B:%s, the name exists nowhere' % f))
        # add an edge (closing a cycle when the producer consumes, transitively, from this component)
        down = reachable_from(w, idl[i])
        for r in idl:
            if list(r) in [list(x) for x in w['comps'][i]['refs']] or r in [tuple(x) for x in w['comps'][i]['refs']]:
                continue
            m = fresh()
            m['comps'][i]['refs'].append(r)
            cyc = (r == idl[i]) or (r in down)
            out.append(('AddBackEdge' if cyc else 'AddForwardEdge', cyc, [], finalize(m)))
            if cyc:
                nodes = on_cycle_through(w, i, r, idl)
                aggs = [c for c in w['comps'] if (c['stage'], c['name']) in nodes
                        and (c['opts'].get('workflowAttributes') or {}).get('aggregate')]
                if aggs:
                    out[-1] = ('AddBackEdge',) + out[-1][1:] + (None, 'B:AddBackEdge through an aggregating component (%s)'
                                                                % ('one stage' if len(set(x[0] for x in nodes)) == 1
                                                                   else 'across stages'))
        # duplicate a name
        for j in range(n):
            if i != j:
                m = fresh()
                m['comps'][i]['stage'], m['comps'][i]['name'] = idl[j]
                out.append(('DupName', True, [], finalize(m)))
        # unknown key at every dictionary position, wrong type at every option
        doc = base['comps'][i]['doc']
        secs = [tuple(p) for p in SCHEMA_OBJS['sections']]
        leaves = [tuple(p) for p in SCHEMA_OBJS['leaves']]
        if tier == 'quick':
            secs = [()] + rng.sample(secs[1:], 5)
            leaves = rng.sample(leaves, 12) + [('workflowAttributes', 'isRepeat')]
        for p in secs:
            m = fresh()
            finalize(m)
            d = m['comps'][i]['doc']
            for x in p:
                d = d.setdefault(x, {})
            d['zzUnknown'] = 1
            out.append(('UnknownKey', True, [], m))
        for p in leaves:
            m = fresh()
            finalize(m)
            d = m['comps'][i]['doc']
            for x in p[:-1]:
                d = d.setdefault(x, {})
            d[p[-1]] = [1]
            cls = ['wrong_type_isRepeat_ignored'] if p == ('workflowAttributes', 'isRepeat') else []
            out.append(('WrongType', True, cls, m))
        for k, v in [('name', [1]), ('stage', [1]), ('references', 7), ('references', [1]), ('workflowAttributes', 7),
                     ('resourceRequest', [1]), ('command', 7), ('variables', 7), ('resourceManager', 'abc')]:
            if tier == 'quick' and not corpus and rng.random() < 0.5:
                continue   # the corpus workflow always carries the witnesses of the repaired F11a
            m = fresh()
            finalize(m)
            m['comps'][i]['doc'][k] = v
            out.append(('WrongType', True, [], m))
    # ---- ReplicaNameClash: the identifiers are unique as written, but a same-stage sibling j of a component i that is
    # expanded into n replicas (named <name><k>) is called <name_i><k>: the EXPANDED workflow holds one identifier
    # twice (duplicate identifiers - of the expanded graph).  When j is expanded itself (or lives in another stage) the
    # new name is harmless (control).  The counts are those of the mirror of propagate_replicate
    cnt = replica_counts(w)
    for i in (range(n) if (cnt and not variables_only) else []):
        ni = cnt.get(idl[i])
        if not ni:
            continue
        ks = list(range(ni)) if (tier != 'quick' or corpus) else [rng.randrange(ni)]
        for j in range(n):
            for k in ks:
                newname = '%s%d' % (idl[i][1], k)
                if j == i or (idl[j][0], newname) in idl:
                    continue
                m = fresh()
                m['comps'][j]['name'] = newname
                for c in m['comps']:
                    c['refs'] = [(idl[j][0], newname) if tuple(r) == idl[j] else tuple(r) for r in c['refs']]
                ids2 = expanded_ids(m)
                clash = ids2 is not None and len(ids2) != len(set(ids2))
                if not clash and tier == 'quick' and rng.random() < 0.6:
                    continue
                if not clash and idl[j] in cnt:
                    # two EXPANDED producers one of whose names extends the other (x1 and x10): the loader rewrites
                    # the references of a replica textually and may refuse such a well-formed workflow (outside the
                    # property and the model, see gen_wf): the control is judged by the predicate only
                    m['predicate_only'] = True
                out.append(('ReplicaNameClash' if clash else 'ReplicaNameNoClash', clash, [], finalize(m), None,
                            'B:ReplicaNameClash with %s sibling' % ('an aggregating' if (w['comps'][j]['opts'].get(
                                'workflowAttributes') or {}).get('aggregate') else 'a plain') if clash else None))
    # ---- WrongType, scalar for scalar: a float / string / int / bool / dictionary at an option of the conversion table
    base_term = c_wf(base)
    repn = ([(c['opts'].get('workflowAttributes') or {}).get('replicate') for c in w['comps']
             if (c['opts'].get('workflowAttributes') or {}).get('replicate')] or [None])[0]
    for i in (range(n) if not variables_only else []):
        doc = base['comps'][i]['doc']
        cand = [(pth, v) for pth in sorted(CONV_TABLE) for v in SCALAR_VALUES]
        if tier == 'quick':
            cand = rng.sample(cand, 8)
        elif not (corpus and i < 2):
            cand = rng.sample(cand, 25)     # (the full cross product on two components of each corpus workflow)
        if corpus and i == 0:
            cand = CORPUS_SCALARS + cand
        for pth, v in cand:
            faulty = scalar_fault(pth, v)
            if faulty is None or (not faulty and tuple(pth) in NAME_OPTIONS):
                continue
            if tuple(pth) == ('workflowAttributes', 'replicate') and not faulty:
                # a coerced replica count must agree with the count the other producers of the workflow use (two
                # different counts reaching one component are refused - a fault the property does not list)
                if repn is not None:
                    v = str(repn) if isinstance(v, str) else repn
                elif len(set(c['name'] for c in w['comps'])) < n:
                    continue    # (replicas and a name used in two stages: textual rewriting of references, see gen_wf)
            m = fresh()
            finalize(m)
            put_path(m['comps'][i]['doc'], list(pth), copy.deepcopy(v))
            item = ('WrongScalar' if faulty else 'CoercedScalar', faulty, [], m)
            if _has_section(doc, pth[:-1]):     # (Model.mutate leaves a document without that section unchanged)
                item += ((base_term, '(WrongType %d %s %s %s)' % (i, clist(pth[:-1], cpk), cpk(pth[-1]), cpv(v))),)
            out.append(item)
    for g in w['gvars']:
        m = fresh()
        del m['gvars'][g]
        used = any((g in c['uses'] or any(g in v for v in c['vars'].values()) or
                    any(g in v for k, v in m['gvars'].items() if k not in c['vars']))
                   and g not in c['vars'] for c in m['comps'])
        # a global that nothing mentions can be removed without harm
        out.append(('RemoveVar', used, [], finalize(m)))
    # ---- RemoveVar on a COMPONENT-level variable (Model.mutate (RemoveCompVar i n)), every variable of every component:
    # faulty when no global of that name becomes visible instead and the component still uses the name - directly, or
    # only INDIRECTLY through another variable it resolves.  What the other components define is irrelevant (a loader
    # that resolves a component with the context of a sibling visited before it accepts such a mutant; every sibling
    # is the victim in turn, so both visiting orders are covered)
    rc_term = c_wf(base)
    for i, c in enumerate(w['comps']):
        for nme in sorted(c['vars']):
            m = fresh()
            del m['comps'][i]['vars'][nme]
            env = env_of(m, m['comps'][i])
            direct = nme in c['uses']
            indirect = any(nme in v for v in env.values())
            faulty = nme not in w['gvars'] and (direct or indirect)
            sib = [d for j, d in enumerate(w['comps']) if j != i and nme in d['vars']]
            label = None
            if faulty:
                label = 'B:RemoveCompVar %s, %s' % (
                    'used directly' if direct else 'used only through another variable',
                    'defined by a same-stage sibling' if any(d['stage'] == c['stage'] for d in sib) else
                    ('defined in another stage' if sib else 'defined nowhere else'))
            out.append(('RemoveCompVar' if faulty else 'RemoveUnusedCompVar', faulty, [], finalize(m),
                        (rc_term, '(RemoveCompVar %d %s)' % (i, cstr(nme))), label))
    gl = sorted(w['gvars'])
    m = fresh()
    m['gvars'][gl[0]] = [gl[-1]]
    m['gvars'][gl[-1]] = [gl[0]]
    # global variables are resolved on their own at initialisation: shadowing does not help
    out.append(('CyclicVars', True, [], finalize(m)))
    # ---- CyclicVars as the single fault of the model (Model.mutate (CyclicVars scope a b)): variable a additionally
    # mentions variable b.  The mutant is faulty when b already depends on a (among the globals, or in what a
    # component that sees a resolves) or when a component that sees a does not define b.
    base_term = c_wf(base)
    extra = []
    for a in gl:
        for b in gl + sorted(set(k for c in w['comps'] for k in c['vars']) - set(gl)):
            m = fresh()
            m['gvars'][a] = list(m['gvars'][a]) + [b]
            cyc = b in w['gvars'] and (b == a or depends(w['gvars'], a, b))
            undefined = False
            for c in w['comps']:
                if a in c['vars']:
                    continue        # this component does not see the global a
                env = env_of(w, c)
                if b not in env:
                    undefined = True
                elif b == a or depends(env, a, b):
                    cyc = True
            extra.append((cyc, undefined, a, None, ('CyclicVars' if cyc else ('UndefinedVarMention' if undefined else 'AddVarMention'),
                          cyc or undefined, [], finalize(m), (base_term, '(CyclicVars None %s %s)' % (cstr(a), cstr(b))))))
    for i, c in enumerate(w['comps']):
        env = env_of(w, c)
        for a in sorted(c['vars']):
            for b in sorted(env):
                m = fresh()
                m['comps'][i]['vars'][a] = list(m['comps'][i]['vars'][a]) + [b]
                cyc = b == a or depends(env, a, b)
                extra.append((cyc, False, a, i, ('CyclicVars' if cyc else 'AddVarMention', cyc, [], finalize(m),
                              (base_term, '(CyclicVars (Some %d) %s %s)' % (i, cstr(a), cstr(b))))))
    harmless = []
    for cyc, undefined, a, i, item in extra:
        if cyc or undefined:
            out.append(item)
        elif not any(a in c.get('idx_uses', []) and (i is None or c is w['comps'][i]) for c in w['comps']):
            harmless.append(item)      # (a variable used as an array index must stay an integer)
    if tier == 'quick' and len(harmless) > 4:
        harmless = rng.sample(harmless, 4)
    out.extend(harmless)
    return out


def replica_counts(w):
    """harness mirror of FlowIR.propagate_replicate + the test of apply_replicate: identifier -> number of replicas, for
    the components that are expanded (own workflowAttributes.replicate, else the count of a producer that does not
    aggregate; an aggregating component and a count of 0 are not expanded).  None when the counts that reach one
    component differ (the loader refuses that)."""
    idl = [(c['stage'], c['name']) for c in w['comps']]
    own, agg = {}, {}
    for c in w['comps']:
        wa = (c['doc'] if 'doc' in c else render_comp(c)).get('workflowAttributes') or {}
        wa = wa if isinstance(wa, dict) else {}
        r, a = wa.get('replicate'), wa.get('aggregate')
        try:
            own[(c['stage'], c['name'])] = None if r is None or isinstance(r, (float, list, dict)) else int(r)
        except (ValueError, TypeError):
            own[(c['stage'], c['name'])] = None
        # (the options were converted by convert_component_types before: 'yes' / 'TRUE' / 7 are True by then)
        agg[(c['stage'], c['name'])] = (a.lower() in ('true', 'yes')) if isinstance(a, str) else \
            (bool(a) if isinstance(a, (bool, int)) else False)
    val = dict(own)
    for _ in range(len(idl) + 1):
        for c in w['comps']:
            cid = (c['stage'], c['name'])
            seen = set(val[tuple(r)] for r in c['refs'] if tuple(r) in val and not agg[tuple(r)]
                       and val[tuple(r)] is not None)
            if own[cid] is not None:
                seen.add(own[cid])
            if len(seen) > 1:
                return None
            val[cid] = seen.pop() if seen else None
    return {cid: v for cid, v in val.items() if v and v > 0 and not agg[cid]}


def expanded_ids(w):
    cnt = replica_counts(w)
    if cnt is None:
        return None
    out = []
    for c in w['comps']:
        cid = (c['stage'], c['name'])
        out.extend([(cid[0], '%s%d' % (cid[1], k)) for k in range(cnt[cid])] if cid in cnt else [cid])
    return out


def c_counts(w):
    cnt = replica_counts(w) or {}
    return clist(sorted(cnt.items()), lambda kv: '(%s, %d%%N)' % (c_cid(kv[0]), kv[1]))


def env_of(w, c):
    """what component c resolves: its variables, then the globals it does not shadow (name -> mentioned names)"""
    env = {k: ([] if gresolved(w['gvars'], k) else v) for k, v in w['gvars'].items() if k not in c['vars']}
    env.update(c['vars'])
    return env


def gresolved(gvars, n, depth=None):
    """the global n is resolved among the globals when the workflow is instantiated (every transitive mention is a
    global variable): it is then a constant for the components (Model.gres)"""
    depth = len(gvars) if depth is None else depth
    if depth == 0 or n not in gvars:
        return False
    return all(gresolved(gvars, x, depth - 1) for x in gvars[n])


def depends(env, a, b):
    """b mentions a, directly or through other variables of env"""
    seen, todo = set(), [b]
    while todo:
        x = todo.pop()
        for y in env.get(x, []):
            if y == a:
                return True
            if y in env and y not in seen:
                seen.add(y)
                todo.append(y)
    return False


class Watchdog(Exception):
    pass


def _alarm(signum, frame):
    raise Watchdog()


def classify(err):
    import experiment.model.errors as E
    n = type(err).__name__
    s = str(err)
    if isinstance(err, (E.FlowIRKeyUnknown, E.FlowIRValueInvalid)):
        return 1
    if 'exists multiple times' in s or 'Duplicate components' in s:
        return 2
    if isinstance(err, (E.FlowIRReferenceToUnknownComponent, E.FlowIRUnknownReferenceInArguments)):
        return 3
    if 'contains a cycle' in s:
        return 4
    if 'maximum recursion depth' in s or (isinstance(err, E.FlowIRInconsistency) and 'Attempted to resolve' in s):
        return 5
    if n == 'AssertionError':
        return 6        # FlowIRConcrete.get_stage_number: stage indices must be 0..n-1
    return 0


LAST_IDS = [None]


def real_load(flowir, timeout=20, primitive=False, manifest=None):
    """-> (accepted, exception class name or None, reason codes, post-load predicate problems, seconds)
    primitive=False: the replicated graph (what elaunch/Experiment build); primitive=True: the default of
    graphFromFlowIR / packageFromLocation (nothing is expanded, no search for a cycle)"""
    LAST_IDS[0] = None
    import networkx
    import experiment.model.graph as G
    import experiment.model.errors as E
    t0 = time.time()
    signal.signal(signal.SIGALRM, _alarm)
    signal.setitimer(signal.ITIMER_REAL, timeout)
    try:
        try:
            g = G.WorkflowGraph.graphFromFlowIR(copy.deepcopy(flowir), dict(manifest or {}), primitive=primitive)
        except E.ExperimentInvalidConfigurationError as e:
            signal.setitimer(signal.ITIMER_REAL, 0)
            under = getattr(getattr(e, 'underlyingError', None), 'underlyingErrors', None) or []
            return False, 'ExperimentInvalidConfigurationError', sorted(set(classify(x) for x in under)), [], time.time() - t0
        except Watchdog:
            return False, 'HANG', [], [], time.time() - t0
        except BaseException as e:
            signal.setitimer(signal.ITIMER_REAL, 0)
            return False, type(e).__name__, [], [], time.time() - t0
        problems = []
        try:
            if not primitive and not networkx.is_directed_acyclic_graph(g.graph):
                problems.append('expanded graph has a cycle')
            nodes = list(g.graph.nodes)
            if len(nodes) != len(set(nodes)):
                problems.append('duplicate node identifiers')
            conc = g.configuration.get_flowir_concrete(return_copy=False)
            cids = list(conc.get_component_identifiers(True))
            if len(cids) != len(set(cids)):
                problems.append('duplicate component identifiers')
            known = set('stage%d.%s' % c for c in cids)
            LAST_IDS[0] = sorted(cids)
            for cid in cids:
                conf = conc.get_component_configuration(cid, include_default=True, is_primitive=primitive, raw=False)
                for r in conf.get('references', []):
                    import experiment.model.frontends.flowir as F
                    st, prod, _f, _m = F.FlowIR.ParseDataReferenceFull(r, cid[0])
                    if st is not None and 'stage%d.%s' % (st, prod) not in known:
                        problems.append('reference %s of stage%d.%s names no component' % ((r,) + tuple(cid)))
        except Watchdog:
            problems.append('HANG after load')
        except Exception as e:
            problems.append('configuration does not resolve: %s' % type(e).__name__)
        signal.setitimer(signal.ITIMER_REAL, 0)
        return True, None, [], problems, time.time() - t0
    finally:
        signal.setitimer(signal.ITIMER_REAL, 0)


CORPUS_WF = {'gvars': {'g0': [], 'g1': ['g0']},
             'comps': [{'stage': 0, 'name': 'a', 'refs': [], 'uses': ['g1'], 'vars': {'lv': ['g0']}, 'opts': {}},
                       {'stage': 0, 'name': 'b', 'refs': [(0, 'a')], 'uses': ['g0'], 'vars': {}, 'opts': OPTION_SETS[1]},
                       {'stage': 1, 'name': 'a', 'refs': [(0, 'b'), (0, 'a')], 'uses': [], 'vars': {}, 'opts': OPTION_SETS[2]}]}


# replicating producers, an aggregating component in the middle of a chain and one at its end, in two stages: the
# AddBackEdge faults close cycles through an aggregating component inside stage 0 and across the stages
AGG = {'workflowAttributes': {'aggregate': True}}
CORPUS_WF_AGG = {'gvars': {'g0': []},
                 'comps': [{'stage': 0, 'name': 'gen', 'refs': [], 'uses': [], 'vars': {}, 'opts': {'workflowAttributes': {'replicate': 2}}},
                           {'stage': 0, 'name': 'b', 'refs': [(0, 'gen')], 'uses': ['g0'], 'vars': {}, 'opts': {}},
                           {'stage': 0, 'name': 'x1', 'refs': [(0, 'b')], 'uses': [], 'vars': {'lv': ['g0']}, 'opts': AGG},
                           {'stage': 1, 'name': 'a', 'refs': [(0, 'x1')], 'uses': ['g0'], 'vars': {}, 'opts': OPTION_SETS[1]},
                           {'stage': 1, 'name': 'm.n', 'refs': [(1, 'a'), (0, 'x1')], 'uses': [], 'vars': {}, 'opts': AGG}]}


# same-stage siblings that each define `chunk` and derive `label` from it (one replicates, one aggregates, one is
# plain; a component of the next stage does the same): removing chunk from any one of them leaves a label that
# mentions a variable the component cannot see, whatever its siblings define and whichever is visited first
SIBV = {'chunk': [], 'label': ['chunk']}
CORPUS_WF_SIB = {'gvars': {'g0': []},
                 'comps': [{'stage': 0, 'name': 'gen', 'refs': [], 'uses': ['label'], 'vars': dict(SIBV),
                            'opts': {'workflowAttributes': {'replicate': 2}}},
                           {'stage': 0, 'name': 'b', 'refs': [], 'uses': ['g0', 'label'], 'vars': dict(SIBV), 'opts': {}},
                           {'stage': 0, 'name': 'x1', 'refs': [(0, 'gen')], 'uses': ['chunk'],
                            'vars': {'chunk': [], 'tag': ['label'], 'label': ['chunk']}, 'opts': AGG},
                           {'stage': 1, 'name': 'a', 'refs': [(0, 'x1'), (0, 'b')], 'uses': ['label'], 'vars': dict(SIBV),
                            'opts': OPTION_SETS[1]}]}


# faults that are loaded as a primitive graph too on every run (the others: a sample in the quick tier)
PRIM_ALWAYS = {'none', 'DropComponent', 'RenameRef', 'RenameRefStage', 'RenameRefName', 'DupName', 'AddForwardEdge',
               'AddBackEdge', 'ReplicaNameClash', 'ReplicaNameNoClash'}
# faults the primitive load is not asked to refuse: it builds no expanded graph (no cycle search, no replica names)
PRIM_NOT_JUDGED = {'AddBackEdge', 'ReplicaNameClash'}


def _every_component_shadows_the_cycle(flowir):
    """the global variables (default platform) that lie on a cycle of %(name)s mentions, and whether every component
    defines at least one of them itself"""
    gl = ((flowir.get('variables') or {}).get('default') or {}).get('global') or {}
    mentions = dict((k, set(re.findall(r'%\(([^)]+)\)s', v)) & set(gl) if isinstance(v, str) else set()) for k, v in gl.items())

    def reach(a):
        seen, todo = set(), list(mentions.get(a, ()))
        while todo:
            x = todo.pop()
            if x not in seen:
                seen.add(x)
                todo.extend(mentions.get(x, ()))
        return seen
    cyc = set(a for a in gl if a in reach(a))
    comps = [c for c in flowir.get('components', []) if isinstance(c, dict)]
    return bool(cyc) and bool(comps) and all(set(c.get('variables') or {}) & cyc for c in comps)


def explore_prim_load(ctx, item, flowir, pterms, pmetas):
    """the same workflow through the PRIMITIVE load: property predicate + Model.accept_prim"""
    fault, faulty, classes, w = item[:4]
    acc, exc, reasons, problems, dt = real_load(flowir, primitive=True)
    ctx.count('P:' + fault)
    ctx.count('P:accepted' if acc else 'P:rejected')
    case = {'fault': fault, 'workflow': flowir, 'primitive': True}
    ctx.case(('P', fault, json.dumps(flowir, sort_keys=True, default=str)), fault != 'none')
    judged = faulty and fault not in PRIM_NOT_JUDGED
    if judged and fault == 'CyclicVars' and _every_component_shadows_the_cycle(flowir):
        # the primitive load does not resolve the global variables on their own (the replicated load does): a cycle
        # among the globals that EVERY component cuts by defining one of its variables itself is seen by nobody
        judged = False
    if faulty and not judged:
        ctx.count('P:%s not judged on a primitive load (%s)' % (fault, 'accepted' if acc else 'rejected'))
    if exc == 'HANG':
        ctx.fail(case, 'loading a workflow (%s) as a primitive graph did not return within the watchdog' % fault, classes)
    elif not acc and exc != 'ExperimentInvalidConfigurationError':
        ctx.fail(case, 'a broken workflow (%s) is rejected by the primitive load with %s instead of an '
                       'invalid-configuration error' % (fault, exc), classes)
    elif acc and judged:
        ctx.fail(case, 'a workflow with the fault %s loads with validation enabled as a primitive graph '
                       '(graphFromFlowIR default primitive=True)' % fault, classes)
    elif acc and problems:
        ctx.fail(case, 'a workflow that loads as a primitive graph is not structurally executable: %s' % problems[0],
                 classes)
    if classes:
        return
    try:
        pterms.append('(%s, %s, %s)' % (c_wf(w), cbool(acc), clist(reasons, cnat)))
        pmetas.append((case, acc, exc, reasons))
    except GenError:
        pass


# run x10 next to run1 x2: run0..run9 and run10, run11 - twelve distinct identifiers; with ELEVEN replicas of run the
# expansion holds run10 twice (the boundary of the two-digit indices; nobody consumes both: two different counts must
# not reach one component).  sample xN next to an authored sample1
def wf_run(nrun):
    return {'gvars': {'g0': []},
            'comps': [{'stage': 0, 'name': 'run', 'refs': [], 'uses': [], 'vars': {},
                       'opts': {'workflowAttributes': {'replicate': nrun}}},
                      {'stage': 0, 'name': 'run1', 'refs': [], 'uses': ['g0'], 'vars': {},
                       'opts': {'workflowAttributes': {'replicate': 2}}}]}


def wf_sample(n):
    return {'gvars': {'g0': []},
            'comps': [{'stage': 0, 'name': 'sample', 'refs': [], 'uses': ['g0'], 'vars': {},
                       'opts': {'workflowAttributes': {'replicate': n}}},
                      {'stage': 0, 'name': 'sample1', 'refs': [], 'uses': [], 'vars': {}, 'opts': {}},
                      {'stage': 1, 'name': 'b', 'refs': [(0, 'sample'), (0, 'sample1')], 'uses': [], 'vars': {},
                       'opts': AGG}]}


def clash_corpus():
    out = []
    for w in (wf_run(10), wf_run(11), wf_run(2), wf_sample(1), wf_sample(2), wf_sample(3)):
        ids2 = expanded_ids(finalize(copy.deepcopy(w)))
        clash = len(ids2) != len(set(ids2))
        out.append(('ReplicaNameClash' if clash else 'none', clash, [], finalize(copy.deepcopy(w)), None,
                    'B:ReplicaNameClash (corpus: replica indices of one and of two digits)' if clash else None))
    return out


def explore_loads(ctx, items):
    """items: (fault name, faulty, classes, finalized workflow)"""
    terms, metas = [], []
    mterms, mmetas = [], []
    pterms, pmetas = [], []
    slow = 0.0
    for item in items:
        fault, faulty, classes, w = item[:4]
        if len(item) > 5 and item[5]:
            ctx.count(item[5])
        flowir = render(w)
        acc, exc, reasons, problems, dt = real_load(flowir)
        real_ids = LAST_IDS[0]
        if fault in PRIM_ALWAYS or ctx.rng.random() < (0.3 if ctx.tier == 'quick' else 0.5):
            explore_prim_load(ctx, item, flowir, pterms, pmetas)
        slow = max(slow, dt)
        ctx.count('B:' + fault)
        ctx.count('B:accepted' if acc else 'B:rejected')
        case = {'fault': fault, 'workflow': flowir}
        ctx.case(('B', fault, json.dumps(flowir, sort_keys=True, default=str)), fault != 'none')
        # ---- the property as stated, on the real outcome
        if exc == 'HANG':
            ctx.fail(case, 'loading a workflow (%s) did not return within the watchdog' % fault, classes)
        elif not acc and exc != 'ExperimentInvalidConfigurationError':
            ctx.fail(case, 'a broken workflow (%s) is rejected with %s instead of an invalid-configuration error'
                     % (fault, exc), classes)
        elif acc and faulty:
            ctx.fail(case, 'a workflow with the fault %s loads with validation enabled' % fault, classes)
        elif acc and problems:
            ctx.fail(case, 'a workflow that loads is not structurally executable: %s' % problems[0], classes)
        # ---- the mirror of the replica counts against the identifiers of the real expanded graph
        if acc and real_ids is not None:
            mine = expanded_ids(w)
            if mine is None or sorted(mine) != [tuple(x) for x in real_ids]:
                ctx.disagree(case, [list(x) for x in real_ids], mine,
                             'identifiers of the expanded workflow: real graph vs the harness mirror of '
                             'propagate_replicate/apply_replicate (name+index)')
            elif len(mine) != len(w['comps']):
                ctx.count('B:accepted loads whose expansion was compared with the mirror')
        # ---- the model
        try:
            if classes or w.get('predicate_only'):
                if not classes:
                    ctx.count('B:%s judged by the predicate only (textual rewriting of replica references)' % fault)
                # inside an open finding's class the model (schema applied to the document as written) is known
                # to differ from the pinned code: only the predicate is evaluated
                continue
            terms.append('(%s, %s, %s, %s)' % (c_wf(w), c_counts(w), cbool(acc), clist(reasons, cnat)))
            metas.append((case, acc, exc, reasons))
            if len(item) > 4 and item[4] is not None:
                # the model's own mutation of the well-formed workflow against the real load of the mutant
                mterms.append('(%s, %s, %s)' % (item[4][0], item[4][1], cbool(acc)))
                mmetas.append((case, acc, exc, item[4][1]))
                ctx.count('B:model-mutate')
        except GenError:
            pass
        if fault == 'none':
            ctx.sample({'well-formed workflow': flowir}, limit=2)
    bad = ctx.model_mismatches(HEADER, terms, '(check_repl_case component_full)', chunk=200, name='load')
    for i in bad:
        case, acc, exc, reasons = metas[i]
        ctx.disagree(case, {'accepted': acc, 'exception': exc, 'reasons': reasons},
                     'Model.accept_repl / Model.reasons_repl differ',
                     'graphFromFlowIR(validate, primitive=False) vs Model.accept_repl (accept + unique identifiers of '
                     'the expanded workflow)')
    bad = ctx.model_mismatches(HEADER, pterms, '(check_prim_case component_full)', chunk=200, name='prim')
    for i in bad:
        case, acc, exc, reasons = pmetas[i]
        ctx.disagree(case, {'accepted': acc, 'exception': exc, 'reasons': reasons},
                     'Model.accept_prim / Model.reasons_prim differ',
                     'graphFromFlowIR(validate, primitive=True) vs Model.accept_prim')
    bad = ctx.model_mismatches(HEADER, mterms, '(check_mutant_case component_full)', chunk=200, name='mutate')
    for i in bad:
        case, acc, exc, term = mmetas[i]
        ctx.disagree(case, {'accepted': acc, 'exception': exc}, 'Model.accept (Model.mutate %s w) differs' % term,
                     'graphFromFlowIR(validate, primitive=False) on the mutant vs Model.accept of Model.mutate')
    if os.environ.get('C11_DEBUG'):
        for dd in ctx.disagreements[:40]:
            print('DIS', dd['impl'], json.dumps(dd['case'], default=str)[:700])
    ctx.extra['slowest_load_s'] = round(max(slow, ctx.extra.get('slowest_load_s', 0)), 3)


# ------------------------------------------------------------------ S. stage-level variables (predicate only)
# The Coq model has global and component-level variables only.  The third scope of the loader - the variables of a
# STAGE (variables.default.stages.N), visible to the components of that stage and to nobody else - is explored against
# the property predicate alone: a well-formed workflow loads, and "remove a variable" applied to a stage-level, a
# component-level or a global variable that a component still reaches (directly or through other variables) from what
# it uses is rejected with the invalid-configuration error - also when ANOTHER stage, or a component of another stage,
# defines a variable of the same name.
def gen_stage_wf(rng):
    nst = rng.randint(2, 3)
    gvars = {'g0': []}
    if rng.random() < 0.5:
        gvars['g1'] = ['g0']
    svars = {}
    for k in range(nst):
        sv = {}
        if rng.random() < 0.8:
            sv['sv'] = ['g0'] if rng.random() < 0.3 else []
            if rng.random() < 0.5:
                sv['su'] = ['sv']
        if rng.random() < 0.2:
            sv['g0'] = []                    # a stage that shadows a global
        svars[k] = sv
    comps, names = [], list(NAMES)
    rng.shuffle(names)
    for k in range(nst):
        for _ in range(rng.randint(1, 2)):
            prev = [(c['stage'], c['name']) for c in comps if c['stage'] < k]
            cv = {}
            if rng.random() < 0.4:
                cv['lv'] = []
            if rng.random() < 0.15:
                cv['sv'] = []                # a component that shadows (or alone defines) the stage-level name
            visible = sorted(set(gvars) | set(svars[k]) | set(cv))
            if rng.random() < 0.7:
                cv['lw'] = [rng.choice([x for x in visible if x != 'g0'] or visible)]
            pool = sorted(set(visible) | set(cv))
            uses = set(rng.sample(pool, rng.randint(0, min(2, len(pool)))))
            if 'lw' in cv and rng.random() < 0.7:
                uses = set(u for u in uses if u not in cv['lw']) | {'lw'}
            comps.append({'stage': k, 'name': names.pop(), 'refs': rng.sample(prev, min(len(prev), rng.randint(0, 1))),
                          'uses': sorted(uses), 'vars': cv, 'opts': {}})
    return {'gvars': gvars, 'svars': svars, 'comps': comps}


def render_stage_wf(w):
    d = render(finalize(copy.deepcopy({'gvars': w['gvars'], 'comps': w['comps']})))
    d['variables']['default']['stages'] = {k: {n: var_value(v, 7 + k) for n, v in sv.items()}
                                           for k, sv in w['svars'].items()}
    return d


def stage_undefined(w):
    """some component reaches, from what it uses, a name that is defined in none of the scopes it sees"""
    for c in w['comps']:
        env = dict(w['gvars'])
        env.update(w['svars'].get(c['stage'], {}))
        env.update(c['vars'])
        seen, todo = set(), list(c['uses'])
        while todo:
            x = todo.pop()
            if x in seen:
                continue
            seen.add(x)
            if x not in env:
                return True
            todo.extend(env[x])
    return False


def stage_items(rng, tier):
    out = []
    corpus = {'gvars': {'g0': []}, 'svars': {0: {'sv': [], 'su': ['sv']}, 1: {'sv': []}, 2: {}},
              'comps': [{'stage': 0, 'name': 'a', 'refs': [], 'uses': ['lw'], 'vars': {'lw': ['su']}, 'opts': {}},
                        {'stage': 1, 'name': 'b', 'refs': [(0, 'a')], 'uses': ['lw'], 'vars': {'lw': ['sv']}, 'opts': {}},
                        {'stage': 1, 'name': 'gen', 'refs': [], 'uses': ['sv'], 'vars': {}, 'opts': {}},
                        {'stage': 2, 'name': 'x1', 'refs': [(1, 'b')], 'uses': ['lw'], 'vars': {'sv': [], 'lw': ['sv']},
                         'opts': {}}]}
    for w in [corpus] + [gen_stage_wf(rng) for _ in range(3 if tier == 'quick' else 20)]:
        out.append(('none', False, w, None))
        muts = []
        for k in sorted(w['svars']):
            for n in sorted(w['svars'][k]):
                m = copy.deepcopy(w)
                del m['svars'][k][n]
                elsewhere = any(n in sv for j, sv in m['svars'].items() if j != k)
                muts.append(('StageVar', m, 'defined by another stage' if elsewhere else 'defined by no other stage'))
        for i, c in enumerate(w['comps']):
            for n in sorted(c['vars']):
                m = copy.deepcopy(w)
                del m['comps'][i]['vars'][n]
                elsewhere = any(n in sv for j, sv in m['svars'].items() if j != c['stage'])
                muts.append(('CompVar', m, 'defined by another stage' if elsewhere else 'defined by no other stage'))
        for g in sorted(w['gvars']):
            m = copy.deepcopy(w)
            del m['gvars'][g]
            muts.append(('Var', m, 'global'))
        for kind, m, where in muts:
            faulty = stage_undefined(m)
            out.append((('Remove%s' if faulty else 'RemoveUnused%s') % kind, faulty, m,
                        'S:Remove%s still reached, %s' % (kind, where) if faulty else None))
    return out


def explore_stage_loads(ctx, items):
    for fault, faulty, w, label in items:
        flowir = render_stage_wf(w)
        acc, exc, reasons, problems, dt = real_load(flowir)
        ctx.count('S:' + fault)
        if label:
            ctx.count(label)
        case = {'fault': fault, 'workflow': flowir}
        ctx.case(('S', fault, json.dumps(flowir, sort_keys=True, default=str)), fault != 'none')
        if exc == 'HANG':
            ctx.fail(case, 'loading a workflow with stage variables (%s) did not return within the watchdog' % fault, [])
        elif not acc and exc != 'ExperimentInvalidConfigurationError':
            ctx.fail(case, 'a broken workflow (%s) is rejected with %s instead of an invalid-configuration error'
                     % (fault, exc), [])
        elif acc and faulty:
            ctx.fail(case, 'a workflow with the fault %s (a variable that a component still reaches is defined in no '
                           'scope the component sees) loads with validation enabled' % fault, [])
        elif acc and problems:
            ctx.fail(case, 'a workflow that loads is not structurally executable: %s' % problems[0], [])
        elif fault == 'none' and not acc:
            ctx.disagree(case, {'accepted': acc, 'exception': exc, 'reasons': reasons}, 'well-formed by construction',
                         'a well-formed workflow with stage-level variables is expected to load (harness oracle of the '
                         'predicate-only stream S)')


# ------------------------------------------------------------------ M. loading WITH A MANIFEST
# Every other stream loads with the empty manifest.  The manifest decides which references are judged at all: a
# reference written WITHOUT a stage whose producer is the name of a top-level folder - the LEFT-MOST segment of a
# manifest target, or one of FlowIR.SpecialFolders - and not a component of the consumer's stage is a reference to that
# folder; every other reference must name a component.  Stream M: workflows all of whose same-stage references are
# written in the stage-less form, their reference faults (drop a producer, rename a reference to a name that exists
# nowhere / in another stage only), each loaded - primitive AND replicated - under a family of manifests built around
# the dangling name d: nested keys whose right-most / middle segment is d (must still be rejected), keys whose
# left-most segment is d (flat, nested, trailing separator: a folder reference, the control), unrelated and random
# keys.  Predicate + Model.accept_man / accept_man_prim (coq/Valid/ManifestModel.v), and Manifest.top_level_folders
# itself against ManifestModel.top_level_folders.
HEADER_M = 'Require Import V.Valid.Model V.Valid.ManifestModel V.Valid.Generated.\nOpen Scope string_scope.\n'
SPECIAL_FOLDERS = ['input', 'data', 'bin', 'conf']
MAN_SRC = '/c11-no-such-directory/src'

CORPUS_WF_MAN = {'gvars': {'g0': []},
                 'comps': [{'stage': 0, 'name': 'extract', 'refs': [], 'uses': [], 'vars': {}, 'opts': {}, 'rel': True},
                           {'stage': 0, 'name': 'consume', 'refs': [(0, 'extract')], 'uses': ['g0'], 'vars': {}, 'opts': {},
                            'rel': True},
                           {'stage': 1, 'name': 'extract', 'refs': [(0, 'consume')], 'uses': [], 'vars': {}, 'opts': {},
                            'rel': True},
                           {'stage': 1, 'name': 'report', 'refs': [(1, 'extract'), (0, 'extract')], 'uses': [], 'vars': {},
                            'opts': {}, 'rel': True}]}


def written_refs(w):
    """per component: (written without a stage, (stage it is read in, producer name)) - as render_comp writes them"""
    return [[(bool(c.get('rel')) and r[0] == c['stage'], (r[0], r[1])) for r in c['refs']] for c in w['comps']]


def man_dangling(w, keys):
    """the written references that name no component and are not a stage-less reference to a top-level folder"""
    idl = set((c['stage'], c['name']) for c in w['comps'])
    fs = set(k.split('/', 1)[0] for k in keys) | set(SPECIAL_FOLDERS)
    return [(sl, r) for brs in written_refs(w) for sl, r in brs if r not in idl and not (sl and r[1] in fs)]


def manifests_for(d, other, pool, rng, everything):
    fam = [('nested key, d is the right-most segment', ['data/%s' % d]),
           ('nested key, d is the right-most segment', ['%s/%s' % (other, d)]),
           ('nested key, d is the right-most segment', ['zz/yy/%s' % d]),
           ('nested key, d is a middle segment', ['zz/%s/yy' % d]),
           ('nested key, d follows ./', ['./%s' % d]),
           ('nested key, d is the right-most segment, trailing separator', ['zz/%s/' % d]),
           ('two keys, d is never the left-most segment', ['zz/%s' % d, 'conf/x']),
           ('flat key d', [d]),
           ('nested key, d is the left-most segment', ['%s/deep' % d]),
           ('key d with a trailing separator', ['%s/' % d]),
           ('two keys, d is the left-most segment of the second', ['zz/%s' % d, '%s/x/y' % d]),
           ('unrelated key', ['zz']),
           ('empty manifest', [])]
    if not everything:
        fam = rng.sample(fam[:7], 2) + rng.sample(fam[7:11], 1) + rng.sample(fam[11:], 1)
    # random keys over the names of the workflow
    for _ in range(2 if everything else 1):
        keys = []
        for _k in range(rng.randint(1, 2)):
            k = '/'.join(rng.choice(pool) for _s in range(rng.randint(1, 3))) + ('/' if rng.random() < 0.15 else '')
            if k not in keys:
                keys.append(k)
        fam.append(('random keys', keys))
    return fam


def man_items(rng, tier):
    """-> (fault, workflow, keys, label of the manifest family)"""
    out = []
    wfs = [copy.deepcopy(CORPUS_WF_MAN)]
    for _ in range(4 if tier == 'quick' else 12):
        w = gen_wf(rng, replication=False)
        for c in w['comps']:
            c['rel'] = True
        wfs.append(w)
    for wi, w in enumerate(wfs):
        idl = [(c['stage'], c['name']) for c in w['comps']]
        names = sorted(set(x[1] for x in idl))
        muts = [('none', copy.deepcopy(w))]
        for i, c in enumerate(w['comps']):
            if any(idl[i] in [tuple(r) for r in d['refs']] for d in w['comps']):
                m = copy.deepcopy(w)
                del m['comps'][i]
                muts.append(('DropComponent', m))
            for j, r in enumerate(c['refs']):
                alts = [(r[0], 'nx')] + [(r[0], n2) for n2 in names if (r[0], n2) not in idl]
                if wi and len(alts) > 2:
                    alts = alts[:1] + rng.sample(alts[1:], 1)
                for r2 in alts:
                    m = copy.deepcopy(w)
                    m['comps'][i]['refs'][j] = r2
                    muts.append(('RenameRef' if r2[1] == 'nx' else 'RenameRefName', m))
        if wi and tier == 'quick' and len(muts) > 7:
            muts = muts[:1] + rng.sample(muts[1:], 6)
        for fault, m in muts:
            dang = man_dangling(m, [])
            stageless = sorted(set(r[1] for sl, r in dang if sl))
            d = stageless[0] if stageless else (rng.choice(names) if fault == 'none' else 'nx')
            other = rng.choice([n for n in names if n != d] or ['zz'])
            pool = names + ['nx', 'zz', 'data', 'deep', d]
            for label, keys in manifests_for(d, other, pool, rng, everything=(wi == 0 or tier != 'quick')):
                out.append((fault, m, keys, label, bool(stageless)))
    return out


def explore_manifest_loads(ctx, items):
    import experiment.model.frontends.flowir as F
    terms, metas = [], []
    tterms, tmetas = [], []
    seen_keys = set()
    for fault, w, keys, label, stageless in items:
        w = finalize(copy.deepcopy(w))
        flowir = render(w)
        manifest = {k: MAN_SRC + ':copy' for k in keys}
        # ---- Manifest.top_level_folders against the model
        if tuple(keys) not in seen_keys:
            seen_keys.add(tuple(keys))
            try:
                tops = list(F.Manifest(dict(manifest)).top_level_folders)
            except Exception as e:
                tops = ['<%s>' % type(e).__name__]
            tterms.append('(%s, %s)' % (clist(keys, cstr), clist(tops, cstr)))
            tmetas.append((keys, tops))
            ctx.count('M:manifests (top_level_folders compared with the model)')
        dang = man_dangling(w, keys)
        faulty = bool(dang)
        name = fault if faulty else ('none' if fault == 'none' else 'FolderReference')
        ctx.count('M:%s' % name)
        if stageless:
            ctx.count('M:stage-less dangling name vs %s -> %s' % (label, 'must be rejected' if faulty else 'folder reference'))
        for primitive in (True, False):
            acc, exc, reasons, problems, dt = real_load(flowir, primitive=primitive, manifest=manifest)
            case = {'fault': name, 'workflow': flowir, 'manifest': manifest, 'primitive': primitive}
            ctx.case(('M', name, primitive, json.dumps([flowir, sorted(manifest)], sort_keys=True, default=str)), faulty)
            how = 'as a primitive graph' if primitive else 'as a replicated graph'
            if exc == 'HANG':
                ctx.fail(case, 'loading a workflow (%s) with the manifest keys %s %s did not return within the watchdog'
                         % (name, keys, how), [])
            elif not acc and exc != 'ExperimentInvalidConfigurationError':
                ctx.fail(case, 'a workflow (%s) loaded with the manifest keys %s %s is rejected with %s instead of an '
                               'invalid-configuration error' % (name, keys, how, exc), [])
            elif acc and faulty:
                ctx.fail(case, 'a workflow with a dangling component reference (%s: %s names no component and no top-level '
                               'folder of the manifest keys %s) loads with validation enabled %s'
                         % (fault, sorted(set(r[1] for _sl, r in dang)), keys, how), [])
            elif acc and problems and not [x for x in problems if 'names no component' not in x]:
                pass        # (the post-load walk reads every reference as a component reference: a folder reference is fine)
            elif acc and problems:
                ctx.fail(case, 'a workflow that loads (manifest keys %s) is not structurally executable: %s'
                         % (keys, problems[0]), [])
            try:
                wr = written_refs(w)
                terms.append('(%s, %s, %s, %s, %s, %s)' % (
                    clist(keys, cstr), c_wf(w),
                    clist(wr, lambda brs: clist(brs, lambda br: '(%s, %s)' % (cbool(br[0]), c_cid(br[1])))),
                    cbool(primitive), cbool(acc), clist(reasons, cnat)))
                metas.append((case, acc, exc, reasons))
            except GenError:
                pass
    bad = ctx.model_mismatches(HEADER_M, tterms, 'check_tlf_case', chunk=400, name='tlf')
    for i in bad:
        keys, tops = tmetas[i]
        ctx.disagree({'manifest keys': keys}, tops, [k.split('/', 1)[0] for k in keys],
                     'Manifest.top_level_folders vs ManifestModel.top_level_folders (the left-most segment of every key)')
    bad = ctx.model_mismatches(HEADER_M, terms, '(check_man_case component_full)', chunk=200, name='manifest')
    for i in bad:
        case, acc, exc, reasons = metas[i]
        ctx.disagree(case, {'accepted': acc, 'exception': exc, 'reasons': reasons},
                     'ManifestModel.accept_man / accept_man_prim differ',
                     'graphFromFlowIR(flowir, manifest, primitive) vs ManifestModel.accept_man(_prim)')


def base_flowir_for_schema():
    w = finalize(copy.deepcopy(CORPUS_WF))
    return render(w)


def run(ctx):
    if GEN_ERROR:
        ctx.proof_ok = False
        ctx.proof_log += 'generation of coq/Valid/Generated.v from the running schema failed: %s\n' % GEN_ERROR
        ctx.note('Generated.v could not be regenerated: %s' % GEN_ERROR)
        return
    ctx.extra['generated'] = ('coq/Valid/Generated.v was regenerated from FlowIR.type_flowir_component/'
                              'type_flowir_structure/default_component_structure of the tree under test at import '
                              'time of harness/c11.py, before the proofs were built')
    pred_cases(ctx)
    convert_cases(ctx)
    schema_cases(ctx, base_flowir_for_schema())
    nwf = 6 if ctx.tier == 'quick' else 40
    wfs = [copy.deepcopy(CORPUS_WF), copy.deepcopy(CORPUS_WF_AGG), copy.deepcopy(CORPUS_WF_SIB)] + \
        [gen_wf(ctx.rng, replication=(False if k == 0 else None)) for k in range(nwf)]
    items = []
    for w in wfs:
        items.append(('none', False, [], finalize(copy.deepcopy(w))))
        if any((c['opts'].get('workflowAttributes') or {}).get('aggregate') for c in w['comps']):
            ctx.count('B:workflows with an aggregating component')
        if any((c['opts'].get('workflowAttributes') or {}).get('replicate') for c in w['comps']):
            ctx.count('B:workflows with a replicating component')
        # (wfs[2], the sibling corpus: in the quick tier only the faults among its variables - RemoveVar on every global
        # and every component-level variable, CyclicVars)
        items.extend(load_mutants(w, ctx.tier, ctx.rng, corpus=(w is wfs[0] or w is wfs[1]),
                                  variables_only=(w is wfs[2] and ctx.tier == 'quick')))
    items.extend(clash_corpus())
    explore_loads(ctx, items)
    explore_stage_loads(ctx, stage_items(ctx.rng, ctx.tier))
    explore_manifest_loads(ctx, man_items(ctx.rng, ctx.tier))
    ctx.rule = ('A: a document with at least one schema error; B: a single-fault mutant (drop/rename/add edge/duplicate '
                'name/unknown key/wrong type: a list or a scalar of another type/remove a global or a component-level '
                'variable/one more mention among the variables) of a generated 2-5 component workflow with aggregating '
                'and replicating components and chains among the component-level variables; S: the removal of a '
                'stage-level/component-level/global variable of a generated workflow with stage-level variables; '
                'M: a reference fault (drop/rename) of a workflow with stage-less references loaded, primitive and '
                'replicated, with a manifest whose keys do not declare the dangling name as a top-level folder; '
                'C: every (named predicate, value) pair; D: a one-option document on which convert_component_types raises')
    ctx.extra['mutants_per_workflow'] = 'all positions for the structural faults; quick tier samples 6 of %d option ' \
        'sections and 13 of %d option leaves per component, thorough takes all' % (
            len(SCHEMA_OBJS['sections']), len(SCHEMA_OBJS['leaves']))


def replay(ctx, path):
    d = json.load(open(path))
    c = d.get('case') or d.get('first', {}).get('case') or {}
    if 'workflow' in c:
        acc, exc, reasons, problems, dt = real_load(c['workflow'], primitive=bool(c.get('primitive')),
                                                    manifest=c.get('manifest'))
        if c.get('manifest'):
            problems = [x for x in problems if 'names no component' not in x]
        print('fault=%s accepted=%s exception=%s reasons=%s problems=%s (%.2fs)' % (c.get('fault'), acc, exc, reasons,
                                                                                  problems, dt))
        not_judged = bool(c.get('primitive')) and c.get('fault') in PRIM_NOT_JUDGED
        bad = (exc not in (None, 'ExperimentInvalidConfigurationError')) or (acc and not not_judged and c.get('fault') not in
                                                                             ('none', 'FolderReference', 'AddForwardEdge', 'AddVarMention',
                                                                              'CoercedScalar', 'ReplicaNameNoClash', 'RemoveUnusedCompVar',
                                                                              'RemoveUnusedStageVar', 'RemoveUnusedVar')) or problems
        if bad:
            print('REPRODUCED: %s' % d.get('what', 'property violation'))
        return 1 if bad else 0
    if 'schema' in c:
        import experiment.model.frontends.flowir as F
        print('impl errors:', canon_errors(F.validate_object_schema(c['doc'], SCHEMA_OBJS[c['schema']], 'R')))
        print('recorded   :', d.get('first', {}).get('impl'))
        return 1
    print('replay file names no input (proof/correspondence obligation): re-run ./check C11')
    return 2
