"""C07 — An instance reloaded from its own files is the same experiment.

Implementation driven (real code, scratch directories, see harness/c07_impl.py):
  ExperimentPackage.packageFromLocation + Experiment.experimentFromPackage (writes conf/flowir_instance.yaml through
  FlowIRExperimentConfiguration.store_unreplicated_flowir_to_disk -> FlowIRConcrete.instance(fill_in_all=False,
  is_primitive=True, inject_missing_fields=False)), optionally k DoWhile iterations
  (WorkflowGraph.instantiate_dowhile_next_iteration(..., store_flowir_to_disk=True)), then
  Experiment.experimentFromInstance (package_document_load(is_instance=True), FlowIRExperimentConfiguration.__init__ /
  _initialize, second store) twice.

Property predicate (on the implementation): node set, edges, resolved and raw configuration, references and
environment of every node, loop state and placeholders are the same live / after the first / after the second reload;
the bytes of conf/flowir_instance.yaml do not change when the reloaded experiment stores again; the environment of
every node is the package's (default platform overlaid per key by the selected platform: fixed finding F7b).

Correspondence: the PARSED conf/flowir_instance.yaml (blueprint, variables, components, environments) equals
coq/Reload/Model.v `flatten` of the package (check_case, evaluated inside Coq).

Also generated (second round): (i) stage / global variables whose value holds %(replica)s TOGETHER with another
reference (e.g. sw: "%(v2)s/run-%(replica)s") while the component shadows that other variable - the fixed finding F7e:
the pinned instance(is_primitive=True) froze the other reference into the stored stage variable while the live
experiment kept the value as written; (ii) packages given as one FlowIR file + a manifest whose entries become top-level
folders of the instance that are symbolic links (:link) or copies (:copy), with direct references of components into
them (shared/lookup.dat:copy), optionally next to a component of the same name: after the reload the folders are
discovered by Manifest.fromDirectory on the instance directory and the references must still be read as references to
folders (references, edges and the reload itself are compared).

Also generated (third round): stores that happen AFTER the experiment was built.  conf/flowir_instance.yaml is written while
the configuration is initialised (before replicate()) and written AGAIN later in the life of an experiment: after every
DoWhile iteration, and on request (FlowIRExperimentConfiguration.store_unreplicated_flowir_to_disk(), what elaunch calls after
it extracted the interface).  Every case now draws `post` (0/1/2 explicit stores on the built experiment before the reload) and
`restore` (every RELOADED experiment stores on request too, once built, before the directory is read again), and the DoWhile
packages draw `rep` (replicated + aggregating components outside the loop and / or inside the DoWhile document), so that the
description stored after an iteration belongs to an experiment whose replicated flavour differs from the primitive one.  The
description after the explicit stores must be the one that was there before them (for a package without loops: the one written
at creation), it is the one compared with the model, and the reloads read it.

Also generated (fourth round): directories that ALREADY hold a description, and several writers of one directory
(draw_directory_history).  (i) `leftover`: the PACKAGE carries a conf/flowir_instance.yaml - a hand-made description of another
experiment, or the one an earlier run of the same package stored (other platform / user variables / more loop iterations); it
is copied into the new instance and the experiment built there must replace it.  (ii) `rebuild`: after the reloads the instance
directory is opened as a PACKAGE again (elaunch --restart <dir> --platform <other>: Experiment(dir, platform,
updateInstanceConfiguration=True, is_instance=False)), for another platform and / or after input/variables.yaml was replaced:
the description stored then must be flatten of THAT package / platform / variables (second model term), and two more reloads
must give the experiment just built; with updateInstanceConfiguration=False nothing may be written.  (iii) `reload_mode`: the
reloads open the directory with update (default), without (nothing may be written) or with is_instance=None.  (iv) `overlap`: two
overlapping stores (writer B parked inside its store with nothing / half / all of its text written while writer A - a store on
request, the next DoWhile iteration, a complete load - runs one whole store): no store may fail, the file must be one of the two
descriptions and the directory must reload as that experiment.  Every opening of a directory is also compared with
coq/Reload/Dir.v open_experiment ([parsed as package, update, description existed] -> was the file written).

Also generated (seventh round): LONG loops (long_loop_ks: k = 9..12 systematically, some beyond, thorough up to 101).  A running
experiment instantiates iteration after iteration on ONE WorkflowGraph whose state (placeholders, documents, merged graphs) is
kept between the calls, an experiment loaded from the directory builds its graph from the stored description at once; iteration
numbers with more digits than the ones before them (10 after 9) are where an order on the text of an instance name parts from
the numeric one.  Compared in addition: `producers` (which instance feeds every reference, through the placeholders), every
placeholder against what k further iterations must give (predicate_loop_latest: independent of the reload) and against
coq/Reload/Loops.v check_loop (the live side as k steps on one state, the reloaded side as one load of the stored instances).

The configuration generator builds on harness/c04.py (same layer slots / clash patterns: an option or a variable
defined independently on default/platform/foreign-platform global+stage blueprints, component, per-platform overrides,
two user variable files) but draws schema-valid values, because a package must pass validation to be instantiated."""
import copy
import glob
import json
import multiprocessing
import os

import c04
import c05
import c07_impl
from common import cstr, clist, cjv, copt, cbool, cnat, NPROC

PROP = 'C07'
COQ_DIR = 'Reload'
ASSUMPTIONS = [
    'yaml dump/load (PyYAML, FlowIR.yaml_dump / yaml_load) is the identity on the values written: the model is compared '
    'with the PARSED instance file; the generator includes the strings yes/no/on/1e3/007/~/null as variable values',
    'the theorems are about flatten_raw (the structural part of instance()); the value part (interpolation of the stored '
    'variables / blueprints / environments, conversion of typed leaves) is modelled (finish) and tied by the '
    'correspondence but only its conversion step and the closed-string case of interpolation are covered by theorems',
    'the idempotence theorems (store.load.store = store, per section and assembled for the whole document) are about the '
    'structural part, conditional on the second flattening succeeding, and assume the side layers of a component are `clean` '
    '(no stage/override/$import in blueprints and platform override; a repeatInterval there is allowed since F7d was repaired)',
    'direct references into manifest (:link / :copy) top-level folders: the model stores references verbatim; that they are '
    'still read as references to folders after the reload is checked on the implementation only (references, edges, reload)',
    'DoWhile instances (loop iterations before the reload): the node set / configuration / references of the instances are covered '
    'by the predicate on the implementation only; the loop placeholders over time (which instances a placeholder stands for and which '
    'one is the latest, live graph after k iterations vs graph built from the stored description) are modelled (coq/Reload/Loops.v, '
    'C07_loops_*) and compared with the implementation for every placeholder of every loop case',
    'stores after the experiment was built (on request, after a loop iteration, by a reloaded experiment): the model has no notion '
    'of time - flatten is a function of the package - so the description compared with the model is the LAST one the live '
    'experiment stored before the reload, and that later stores leave the description alone is checked on the implementation',
    'the directory over time (coq/Reload/Dir.v): the description type is abstract; that the description of the configuration parsed '
    'from the package files is flatten of the package, and that load-and-store of a stored description is the identity on it, are '
    'hypotheses there (the first is the correspondence with check_case - also for the experiment built AGAIN in a directory that held '
    'another description -, the second C07_document_idempotent + the store.load.store predicate)',
    'overlapping stores of one directory are exercised on the implementation only (one thread, writer A nested inside the dump of '
    'writer B: the schedule of two threads parked on Events); the temporary-file protocol itself is C14\'s model, not this one\'s',
    'output / status-report / virtual-environments / application-dependencies / interface sections are left empty by the '
    'generator and not modelled',
]
HEADER = 'Require Import V.Lib.JTree V.Conf.Model V.Reload.Model.\nOpen Scope string_scope.'
CHECKER = 'check_case'
HEADER_DIR = 'Require Import V.Reload.Dir.'
HEADER_LOOPS = 'Require Import V.Reload.Loops.\nOpen Scope string_scope.'
CORPUS = os.path.join(os.path.dirname(os.path.abspath(__file__)), 'corpus', 'c07')

put, get, leaves, layer_slot, prune = c04.put, c04.get, c04.leaves, c04.layer_slot, c04.prune

OPTS = [
    (('command', 'executable'), 'str'),
    (('command', 'arguments'), 'args'),
    (('command', 'environment'), 'env'),
    (('command', 'resolvePath'), 'bool'),
    (('resourceManager', 'config', 'walltime'), 'float'),
    (('resourceManager', 'lsf', 'queue'), 'str'),
    (('resourceRequest', 'numberProcesses'), 'int'),
    (('resourceRequest', 'numberThreads'), 'int'),
    (('workflowAttributes', 'shutdownOn'), 'list'),
    (('workflowAttributes', 'restartHookOn'), 'list'),
    (('workflowAttributes', 'repeatRetries'), 'int'),
    (('workflowAttributes', 'maxRestarts'), 'int'),
    (('workflowAttributes', 'memoization', 'disable', 'strong'), 'bool'),
    (('workflowAttributes', 'restartHookFile'), 'str'),
]
OPT_LAYERS = c04.OPT_LAYERS
VAR_LAYERS = c04.VAR_LAYERS
VARS = c04.VARS
YAML_TRAPS = ['yes', 'no', 'on', '1e3', '007', '~', 'null', 'True', '0x1F', '1_000', '.5', '12:30',
              # multi-line texts, lines ending in blanks or a tab (a block-style YAML scalar cannot hold them)
              'hello,\t\nworld', 'two  \nlines', 'tail \n', 'x\n\n y', 'a\n b \nc']
ENV_NAMES = ['e', 'f']
ENV_KEYS = ['VK_A', 'VK_B', 'VK_C', 'VK_D']


def gen_value(rng, kind, tag, short):
    r = rng.random()
    ref = lambda: '%%(v%d)s' % rng.randrange(6)
    if kind == 'str':
        s = '%s-%s' % (tag, short)
        if r < 0.5:
            s += '.' + ref()
        if r < 0.15:
            s = ref() + '_' + s
        return s
    if kind == 'args':
        s = '%s-args' % tag
        if r < 0.6:
            s += ' ' + ref()
        if r < 0.2:
            s += ' ' + ref()
        return s
    if kind == 'env':
        return rng.choice(['e', 'e', 'f', 'none'])
    if kind == 'int':
        return rng.choice([rng.randrange(1, 9), rng.randrange(1, 9), '%(n)s'])
    if kind == 'float':
        return rng.choice([rng.randrange(1, 100), 45.5, 0.25, '%(n)s', 120.0])
    if kind == 'bool':
        return rng.choice([True, False, '%(flag)s'])
    if kind == 'list':
        return rng.choice([[], ['KnownIssue'], ['ResourceExhausted', 'SubmissionFailed'], ['UnknownIssue']])
    raise ValueError(kind)


def gen_var_value(rng, name, tag):
    if name == 'n':
        return rng.choice([rng.randrange(1, 9), str(rng.randrange(1, 9)), 7])
    if name == 'flag':
        return rng.choice([True, False, 'yes', 'no', 'false', 'True'])
    if rng.random() < 0.12:
        return rng.choice(YAML_TRAPS)
    return c04.gen_var_value(rng, name, tag)


def gen_envs(rng):
    envs = {}
    for P in ('default', 'p', 'q'):
        envs[P] = {}
        for e in ENV_NAMES:
            if rng.random() < (0.8 if P == 'default' else 0.55):
                d = {}
                for k in ENV_KEYS:
                    if rng.random() < 0.5:
                        r = rng.random()
                        d[k] = ('%s.%s.%s' % (P, e, k)) if r < 0.75 else ('%s-%%(v5)s' % P if r < 0.9 else rng.choice(YAML_TRAPS))
                envs[P][e] = d
    # every environment name a component may use is visible on every platform
    for e in ENV_NAMES:
        envs['default'].setdefault(e, {'VK_A': 'default.%s.base' % e})
    return envs


def gen_conf_case(rng, dens=None):
    platform = rng.choice(['default', 'p', 'p', 'p', 'q'])
    replicate = rng.random() < 0.3
    doc = {'platforms': ['default', 'p', 'q'], 'blueprint': {}, 'variables': {},
           'components': [{'name': 'c', 'stage': 0, 'command': {'executable': 'comp-exe'}, 'references': ['src:ref']},
                          {'name': 'other', 'stage': 1, 'command': {'executable': 'ls', 'arguments': 'stage0.c:ref %(v0)s'},
                           'references': ['stage0.c:ref'], 'variables': {'v0': 'other.v0'}},
                          {'name': 'src', 'stage': 0, 'command': {'executable': 'echo', 'arguments': 'hi %(v1)s'}}]}
    files = [{}, {}]
    dens = dens if dens is not None else rng.choice([0.12, 0.25, 0.45])
    sites = []
    for path, kind in OPTS:
        for layer in OPT_LAYERS:
            if rng.random() < dens:
                od, _ = layer_slot(doc, files, layer)
                v = gen_value(rng, kind, layer, path[-1])
                # (instance() fills in the blueprints, and validation resolves the override sections, BEFORE the types of
                #  their leaves are checked: a typed leaf given through a variable anywhere but in the component itself
                #  makes the experiment invalid, so it is drawn literal there)
                while layer != 'comp' and kind in ('int', 'float', 'bool') and isinstance(v, str):
                    v = gen_value(rng, kind, layer, path[-1])
                put(od, path, v)
                sites.append((layer, od, path))
    for name in VARS:
        for layer in VAR_LAYERS:
            if rng.random() < dens * 0.8:
                _, vd = layer_slot(doc, files, layer)
                vd[name] = gen_var_value(rng, name, layer)
    for name in VARS:
        _, vd = layer_slot(doc, files, 'dg')
        if name not in vd:
            vd[name] = {'n': 3, 'flag': True}.get(name, 'base.' + name)
    comp = doc['components'][0]
    args = get(comp, ('command', 'arguments'))
    put(comp, ('command', 'arguments'), ((args + ' ') if isinstance(args, str) else '') + 'src:ref')
    replica_vars = rng.random() < 0.12
    inj = 'none'
    if replica_vars:
        # F7e class: a stage (and sometimes a global) variable that mentions %(replica)s together with another variable,
        # which the component (often) shadows.  Every component that sees such a variable must be replicated: the producer
        # `src` replicates, `c` inherits the replication; a global one needs the consumer in stage 1 replicated as well.
        replicate = True
        glob = rng.random() < 0.35
        inj = 'replica-in-stage-variable' + ('+global' if glob else '')
        put(doc['components'][2], ('workflowAttributes', 'replicate'), rng.choice([2, 3]))
        args = get(comp, ('command', 'arguments'))
        shadow = []
        for layer in ['ds'] + rng.sample(['ps', 'us'], rng.choice([0, 0, 1, 2])):
            _, vd = layer_slot(doc, files, layer)
            j = rng.randrange(6)
            vd['sw'] = '%%(v%d)s/%s-run-%%(replica)s' % (j, layer)
            shadow.append('v%d' % j)
        args += ' %(sw)s'
        if glob:
            for layer in ['dg'] + rng.sample(['pg'], rng.choice([0, 1])):
                _, vd = layer_slot(doc, files, layer)
                j = rng.randrange(6)
                vd['gw'] = '%s-g-%%(replica)s.%%(v%d)s' % (layer, j)
                shadow.append('v%d' % j)
            args += ' %(gw)s'
        else:
            put(doc['components'][1], ('workflowAttributes', 'aggregate'), True)
        put(comp, ('command', 'arguments'), args + ' r%(replica)s')
        for name in shadow:
            if rng.random() < 0.7:
                _, vd = layer_slot(doc, files, rng.choice(['cv', 'cv', 'ovp']))
                vd[name] = 'shadow.' + name
    elif replicate:
        put(comp, ('workflowAttributes', 'replicate'), rng.choice([2, 3, '%(n)s']))
        put(comp, ('command', 'arguments'), get(comp, ('command', 'arguments')) + ' r%(replica)s')
        put(doc['components'][1], ('workflowAttributes', 'aggregate'), True)
    folders = {}
    if rng.random() < 0.2:
        # top-level folders of the instance that come from a manifest (symbolic link / copy) + direct references into them
        for name, method in (('shared', 'link'), ('data2', 'copy'), ('lnk2', 'link')):
            if rng.random() < 0.6:
                folders[name] = method
        if not folders:
            folders['shared'] = 'link'
        for name in sorted(folders):
            for target in rng.sample(doc['components'], rng.choice([1, 1, 2])):
                ref = '%s/%s:%s' % (name, rng.choice(c07_impl.FOLDER_FILES), rng.choice(['copy', 'ref', 'link']))
                if ref.rsplit(':', 1)[0] in [r.rsplit(':', 1)[0] for r in target.get('references', [])]:
                    continue
                target.setdefault('references', []).append(ref)
                if not ref.endswith(':copy') and target is not comp:
                    put(target, ('command', 'arguments'), get(target, ('command', 'arguments')) + ' ' + ref)
        if not replica_vars and rng.random() < 0.4:
            # ... next to a component that has the name of a folder (a misread reference then becomes an edge)
            name = rng.choice(sorted(folders))
            doc['components'].append({'name': name, 'stage': rng.choice([0, 1]), 'command': {'executable': 'echo', 'arguments': name}})
    # (a package that references an undefined variable on the selected platform does not pass validation and is never
    #  instantiated; references that only a foreign platform can resolve are produced by the q layers)
    if rng.random() < 0.15:
        inj = inj + '+foreign-only-variable'
        doc['variables'].setdefault('q', {}).setdefault('global', {})['onlyq'] = 'Q'
        od, _ = layer_slot(doc, files, rng.choice(['qg', 'qs', 'ovq']))
        put(od, ('command', 'arguments'), 'q-args %(onlyq)s')
    if rng.random() < 0.06:
        # F7d class: a repeat interval given by a layer other than the component (drawn rarely: most cases stay outside)
        inj = inj + '+repeat-interval-from-layer'
        od, _ = layer_slot(doc, files, rng.choice(['dg', 'ds', 'pg', 'ps', 'ovp', 'ovd', 'qg', 'ds1']))
        put(od, ('workflowAttributes', 'repeatInterval'), rng.choice([5, 30, 0, 7]))
        if rng.random() < 0.4:
            put(comp, ('workflowAttributes', 'repeatInterval'), rng.choice([0, 0, 9]))
    prune(doc['blueprint'])
    prune(doc['variables'])
    for c in doc['components']:
        if 'override' in c:
            prune(c['override'])
            if not c['override']:
                del c['override']
        if 'variables' in c and not c['variables']:
            del c['variables']
    files = [prune(f) for f in files]
    files = [f for f in files if f]
    if not doc['blueprint']:
        del doc['blueprint']
    doc['environments'] = gen_envs(rng)
    case = {'kind': 'conf', 'platform': platform, 'doc': doc, 'files': files, 'inj': inj, 'replicate': replicate}
    draw_later_stores(rng, case)
    if folders:
        case['folders'] = folders
    return case     # (run() draws the history of the directory once the package is known to be valid)


def draw_later_stores(rng, case):
    """stores after the experiment was built: `post` explicit stores before the reload, `restore` = the reloaded experiments
    store on request as well (40% of the cases keep the plain create / reload / reload sequence)"""
    case['post'] = rng.choice([0, 0, 1, 1, 2])
    case['restore'] = rng.random() < 0.35
    return case


def draw_directory_history(rng, case):
    """fourth round: the directory ALREADY holds a description when an experiment is created in it / has several writers.
    Drawn after everything else: `reload_mode` (how the reloads open the directory), `leftover` (the package carries a
    conf/flowir_instance.yaml of another experiment), and at most one of `rebuild` (the directory is opened as a package again,
    for another platform and / or other user variables - elaunch --restart --platform) and `overlap` (two overlapping stores)."""
    conf = case['kind'] == 'conf'
    case['reload_mode'] = rng.choice(['update'] * 6 + ['noupdate'] * 2 + ['auto'] * 2)
    others = [P for P in ('default', 'p', 'q') if conf and P != case['platform'] and valid_package(dict(case, platform=P))]

    def other_files():
        r = rng.random()
        if r < 0.4:
            return []
        if r < 0.6 and conf and case['files']:
            return [copy.deepcopy(case['files'][-1])]
        f = {'global': dict((n, gen_var_value(rng, n, 'later')) for n in rng.sample(VARS, 2))}
        if rng.random() < 0.5:
            n = rng.choice(VARS)
            f['stages'] = {0: {n: gen_var_value(rng, n, 'later-s0')}}
        return [f] if conf else []

    if not case.get('folders') and rng.random() < 0.15:
        if conf and others and rng.random() < 0.5:
            case['leftover'] = {'kind': 'other-run', 'platform': rng.choice(others), 'files': other_files()}
        elif not conf and rng.random() < 0.6:
            case['leftover'] = {'kind': 'other-run', 'k': rng.choice([1, 2])}
        else:
            case['leftover'] = {'kind': 'foreign'}
    r = rng.random()
    if r < (0.25 if conf else 0.2):
        rb = {'platform': case['platform'] if conf else None, 'update': rng.random() < 0.8}
        if conf and others and rng.random() < 0.7:
            rb['platform'] = rng.choice(others)
        if conf and rng.random() < 0.5:
            rb['files'] = other_files()
        case['rebuild'] = rb
    elif r < (0.5 if conf else 0.65):
        a = rng.choice(['store', 'load'] if conf else ['iterate', 'iterate', 'iterate', 'store', 'load'])
        case['overlap'] = {'a': a, 'b': rng.choice(['store', 'store', 'load']), 'at': rng.choice(['before', 'mid', 'after'])}
    return case


_VALIDATOR = {}


def valid_package(case):
    """the generated package passes the implementation's own validation (otherwise it cannot be instantiated)"""
    if 'F' not in _VALIDATOR:
        import logging
        logging.disable(logging.CRITICAL)
        import experiment.model.frontends.flowir as F
        _VALIDATOR['F'] = F
    F = _VALIDATOR['F']
    try:
        conc = F.FlowIRConcrete(copy.deepcopy(case['doc']), case['platform'], {})
        return not conc.validate(top_level_folders=sorted(case.get('folders') or {}))
    except Exception:
        return False


# ------------------------------------------------------------------ independent reading of the package
def expected_env(case, name):
    envs = case['doc'].get('environments', {})
    if name is None or str(name).lower() == 'none':
        return {}
    out = dict(envs.get('default', {}).get(name, {}))
    if case['platform'] != 'default':
        out.update(envs.get(case['platform'], {}).get(name, {}))
    return out


def env_class(case):
    """environment defined on both the default and the selected platform (class of the fixed finding F7b)"""
    envs = case['doc'].get('environments', {})
    P = case['platform']
    if P == 'default':
        return False
    return any(e in envs.get('default', {}) and e in envs.get(P, {}) and
               set(envs['default'][e]) - set(envs[P][e]) for e in ENV_NAMES)


def repeat_class(case):
    """F7d: some component's layered repeatInterval (blueprints of default / the selected platform, component, override
    for the platform; null does not override) is given by a layer other than the component itself, and the isRepeat that
    FlowIRConcrete.__init__ derives from the component's OWN repeatInterval differs from the one the layered value gives"""
    if case['kind'] != 'conf':
        return False
    doc, P = case['doc'], case['platform']
    bp = doc.get('blueprint', {})
    RI = ('workflowAttributes', 'repeatInterval')
    missing = object()
    for comp in doc['components']:
        st = comp.get('stage', 0)
        side = [get(bp, ('default', 'global'), {}), get(bp, ('default', 'stages', st), {})]
        if P != 'default':
            side += [get(bp, (P, 'global'), {}), get(bp, (P, 'stages', st), {})]
        own = get(comp, RI, missing)
        ov = get(comp.get('override', {}).get(P, {}) or {}, RI, missing)
        vals = [get(l or {}, RI, missing) for l in side]
        if all(v is missing for v in vals) and ov is missing:
            continue
        layered = None
        for v in vals + [own, ov]:
            if v is not missing and v is not None:
                layered = v
        stored_is_repeat = missing if own is missing else (own not in [None, 0])
        if stored_is_repeat is missing or stored_is_repeat != (layered not in [None, 0]):
            return True
    return False


def replica_class(case):
    """F7e (fixed): a stage variable (of the default or the selected platform, or of a user variable file) whose value holds
    %(replica)s together with another variable reference"""
    if case['kind'] != 'conf':
        return False
    import re
    vs = case['doc'].get('variables', {})
    stage_dicts = []
    for P in ('default', case['platform']):
        stage_dicts += list((vs.get(P, {}).get('stages', {}) or {}).values())
    for f in case['files']:
        stage_dicts += list((f.get('stages', {}) or {}).values())
    for d in stage_dicts:
        for v in (d or {}).values():
            if isinstance(v, str) and '%(replica)s' in v and re.search(r'%\((?!replica\))[A-Za-z0-9_.-]+\)s', v):
                return True
    return False


# ------------------------------------------------------------------ predicate
SNAP_KEYS = [('nodes', 'set of components'), ('edges', 'dataflow edges'), ('conf', 'resolved configuration of a component'),
             ('raw', 'unresolved configuration of a component'), ('refs', 'data references of a component'),
             ('env', 'environment of a component'), ('loops', 'state of a DoWhile loop'),
             ('placeholders', 'loop placeholders'),
             ('producers', 'components that produce the data of a reference (through the loop placeholders)'),
             ('folders', 'set of manifest folders known as top-level folders of the experiment')]


def first_diff(a, b, pre=''):
    if isinstance(a, dict) and isinstance(b, dict):
        for k in sorted(set(a) | set(b), key=str):
            if k not in a or k not in b:
                return '%s.%s only on one side' % (pre, k)
            d = first_diff(a[k], b[k], '%s.%s' % (pre, k))
            if d:
                return d
        return None
    if isinstance(a, list) and isinstance(b, list) and len(a) == len(b):
        for i, (x, y) in enumerate(zip(a, b)):
            d = first_diff(x, y, '%s[%d]' % (pre, i))
            if d:
                return d
        return None
    if a != b or type(a) != type(b):
        return '%s: %r != %r' % (pre, a, b)
    return None


def predicate(ctx, case, obs):
    rep = {'case': case}
    live = obs['live']
    for i, r in enumerate(obs['reloads']):
        which = 'first' if i == 0 else 'second'
        if 'error' in r:
            ctx.fail(rep, 'the instance directory could not be loaded again (%s reload: %s)' % (which, r['error']), [])
            return
        for key, what in SNAP_KEYS:
            if r[key] != live[key]:
                rep2 = dict(rep, difference=first_diff(live[key], r[key], key))
                classes = []
                if key == 'edges' and case['kind'] == 'loop' and case['k'] >= 1:
                    # F7c: instantiate_dowhile_next_iteration merges every new complete graph into the live one and never
                    # removes an edge: the live graph keeps edges from instances of loop components (N#name) to
                    # consumers outside the loop that a graph built from the stored instance does not have
                    L = set(map(tuple, live['edges']))
                    R = set(map(tuple, r['edges']))
                    if R <= L and all('#' in a.split('.', 1)[1] and '#' not in b.split('.', 1)[1] for a, b in L - R):
                        classes = ['live_graph_keeps_edges_of_earlier_loop_iterations']
                        rep2['extra_live_edges'] = sorted(L - R)
                ctx.fail(rep2, 'after the %s reload the %s differs from the experiment that wrote the instance' % (which, what), classes)
                if not classes:
                    break
                # (a difference that belongs to an open finding must not hide the sections compared after it: the loop state,
                #  the placeholders and the producers of a live graph with F7c edges are still compared)
    if len(obs['reloads']) < 2:
        ctx.fail(rep, 'second reload missing', [])
    if case['kind'] == 'loop':
        predicate_loop_latest(ctx, case, obs)
    if case.get('folders') and live.get('folders') != sorted(case['folders']):
        ctx.fail(dict(rep, known=live.get('folders')),
                 'a top-level folder that the manifest of the package declares is not known to the experiment', [])
    # a store on request by the BUILT experiment writes the description that was there (creation / last iteration)
    d = first_diff(obs['stored_before_post'], obs['stored'], 'flowir_instance')
    if d:
        ctx.fail(dict(rep, difference=d),
                 'an explicit store_unreplicated_flowir_to_disk() by the experiment, after it was built, changed the description '
                 'in conf/flowir_instance.yaml (%d stores)' % (case.get('post') or 0), [])
    if case['kind'] == 'conf' or case['k'] == 0:
        d = first_diff(obs['stored_at_creation'], obs['stored_before_post'], 'flowir_instance')
        if d:
            ctx.fail(dict(rep, difference=d), 'conf/flowir_instance.yaml changed between the creation of the instance and the '
                                              'first store on request although nothing happened in between', [])
    # store . load . store = store: the stored description (the YAML document; the order of the keys inside a mapping is
    # not part of it - override_object iterates a set) is unchanged by every load/store cycle
    for i, again in enumerate(obs['stored_again']):
        d = first_diff(obs['stored'], again, 'flowir_instance')
        if d:
            classes = []
            if repeat_class(case) and '.workflowAttributes.isRepeat' in d:
                classes = ['repeat_interval_not_from_the_component_itself']        # F7d
            ctx.fail(dict(rep, difference=d),
                     'loading the instance and storing it again changed conf/flowir_instance.yaml (cycle %d)' % (i + 1), classes)
            break
    if case['kind'] == 'conf':
        # the environment of every node is the package's (F7b, fixed): default platform overlaid per key by the platform's
        for n, conf in live['conf'].items():
            if conf[0] != 'ok' or live['env'][n][0] != 'ok':
                continue
            want = expected_env(case, conf[1].get('command', {}).get('environment'))
            got = live['env'][n][1]
            plain = dict((k, v) for k, v in want.items() if '%' not in str(v))
            if any(got.get(k) != str(v) for k, v in plain.items()) or set(got) - set(want):
                ctx.fail(dict(rep, node=n, expected=want, got=got),
                         'the environment of a component of the instance is not the package\'s environment for the '
                         'selected platform (default keys overlaid by the platform\'s)', [])
                break


def expected_placeholder(p, k):
    """what a placeholder stageS.name of a loop with k further iterations stands for: the instances 0..k of the component,
    the latest one being iteration k (numerically)"""
    st, name = p.split('.', 1)
    return {'latest': '%s.%d#%s' % (st, k, name), 'represents': sorted('%s.%d#%s' % (st, i, name) for i in range(k + 1))}


def predicate_loop_latest(ctx, case, obs):
    """'every loop iteration instantiated so far': independently of the comparison live / reloaded, every placeholder of the
    experiment that wrote the instance and of both reloaded ones stands for the instances 0..k of its component and its latest
    instance is the one of iteration k; every looped component of the package has a placeholder; a consumer outside the loop
    that reads a looped component (not :loopref) is fed by the instance of iteration k"""
    k = case['k']
    rep = {'case': case}
    c5 = case['c05']
    want_ids = set('stage%d.%s' % (c5['S'] + c.get('stage', 0), c['name']) for c in c5['comps'])
    sides = [('the experiment that wrote the instance', obs['live'])]
    sides += [('the experiment after the %s reload' % w, r) for w, r in zip(('first', 'second'), obs['reloads']) if 'error' not in r]
    for who, snap in sides:
        ph = snap.get('placeholders') or {}
        if 'error' in ph and not isinstance(ph.get('error'), dict):
            ctx.fail(dict(rep, placeholders=ph), 'the loop placeholders of %s cannot be read' % who, [])
            return
        missing = sorted(want_ids - set(ph))
        if missing:
            ctx.fail(dict(rep, missing=missing, side=who), 'a looped component has no placeholder in %s after %d further '
                     'iterations' % (who, k), [])
            return
        for p in sorted(ph):
            want = expected_placeholder(p, k)
            if ph[p] != want:
                ctx.fail(dict(rep, placeholder=p, expected=want, got=ph[p], side=who),
                         'after %d further iterations a loop placeholder of %s does not stand for the instances 0..%d of its component '
                         'with the one of iteration %d as the latest (numerically highest) one' % (k, who, k, k), [])
                return
        for n, prod in sorted((snap.get('producers') or {}).items()):
            if prod[0] != 'ok':
                ctx.fail(dict(rep, node=n, error=prod, side=who), 'the producers of the references of a component of %s cannot be '
                         'computed (%s)' % (who, prod[1]), [])
                return
            for ref, ids in prod[1]:
                pid = ref.split(':', 1)[0].split('/', 1)[0]
                if pid in ph and ids is not None:
                    want = expected_placeholder(pid, k)
                    ok = ids == (want['represents'] if ref.endswith(':loopref') else [want['latest']])
                    if not ok and not ref.endswith(':loopoutput'):
                        ctx.fail(dict(rep, node=n, reference=ref, producers=ids, side=who),
                                 'after %d further iterations a reference to a looped component is not fed by the instance of the latest '
                                 'iteration (all instances for :loopref) in %s' % (k, who), [])
                        return


def same_experiment(case, a, b, edges=True):
    """first SNAP key on which two snapshots differ (None: the same experiment)"""
    for key, what in SNAP_KEYS:
        if key == 'edges' and not edges:
            continue
        if a.get(key) != b.get(key):
            return key, what
    return None


def predicate_history(ctx, case, obs):
    """fourth round: an experiment (re-)created in a directory that already held a description; overlapping stores"""
    rep = {'case': case}
    rb = obs.get('rebuild')
    if rb is not None:
        P2 = case['rebuild']['platform']
        if 'invalid' in rb:
            # (the package is not a valid experiment for that platform with those user variables: a new instance cannot be
            #  created from it either)
            ctx.count('re-created_in_place:invalid_configuration_skipped')
        elif 'error' in rb:
            ctx.fail(dict(rep, error=rb), 'the instance directory could not be opened as a package again (platform %s: %s)'
                     % (P2, rb['error']), [])
        elif case['rebuild']['update']:
            for i, r in enumerate(rb['reloads']):
                if 'error' in r:
                    ctx.fail(dict(rep, error=r), 'an experiment was built again from the package files of its instance directory '
                             '(platform %s, updateInstanceConfiguration=True, is_instance=False) and the directory could not be loaded '
                             'afterwards (%s)' % (P2, r['error']), [])
                    break
                d = same_experiment(case, rb['snap'], r)
                if d:
                    ctx.fail(dict(rep, difference=first_diff(rb['snap'][d[0]], r[d[0]], d[0])),
                             'an experiment was built again from the package files of its instance directory (platform %s, '
                             'updateInstanceConfiguration=True, is_instance=False): after reload %d the %s differs from the experiment '
                             'that was just built' % (P2, i + 1, d[1]), [])
                    break
            if len(rb['reloads']) < 2 and not any('error' in r for r in rb['reloads']):
                ctx.fail(rep, 'second reload after the re-creation missing', [])
            for i, again in enumerate(rb['stored_again']):
                d = first_diff(rb['stored'], again, 'flowir_instance')
                if d:
                    ctx.fail(dict(rep, difference=d), 'loading the re-created instance and storing it again changed '
                                                      'conf/flowir_instance.yaml (cycle %d)' % (i + 1), [])
                    break
        else:
            if not rb['same_bytes']:
                ctx.fail(dict(rep, difference=first_diff(rb['stored_before'], rb['stored'], 'flowir_instance')),
                         'the directory was opened with updateInstanceConfiguration=False and conf/flowir_instance.yaml changed', [])
            if P2 == case.get('platform') and 'files' not in case['rebuild'] and (case['kind'] == 'conf' or case['k'] == 0):
                d = same_experiment(case, obs['live'], rb['snap'])
                if d:
                    ctx.fail(dict(rep, difference=first_diff(obs['live'][d[0]], rb['snap'][d[0]], d[0])),
                             'the experiment built again from the package files of its own instance directory (same platform and user '
                             'variables, nothing stored) is not the experiment that wrote the instance: the %s differs' % d[1], [])
    ov = obs.get('overlap')
    if ov is not None:
        o = case['overlap']
        how = 'writer B (%s) had opened its file and written %s of its text when writer A (%s) ran a whole store' % (
            o['b'], {'before': 'nothing', 'mid': 'half', 'after': 'all'}[o['at']], o['a'])
        if not ov['parked'] and o['b'] == 'load' and not ov['errors']:
            ctx.fail(rep, 'a complete load of the instance directory with updateInstanceConfiguration=True (experimentFromInstance) did '
                          'not store the description it loaded', [])
            return
        if not ov['parked'] and not ov['errors']:
            raise RuntimeError('C07 driver: writer B never reached the dump of its description')
        for w in sorted(ov['errors']):
            ctx.fail(dict(rep, error=ov['errors'][w]), 'two overlapping stores of the instance description: the store of writer %s '
                     'failed (%s); %s' % (w, ov['errors'][w]['error'], how), [])
        if isinstance(ov['desc_a'], dict) and 'error' in ov['desc_a'] and 'msg' in ov['desc_a']:
            ctx.fail(dict(rep, error=ov['desc_a']), 'the experiment could not store its description after an overlapped store', [])
            return
        if 'error' in ov['after'] and 'msg' in ov['after']:
            ctx.fail(dict(rep, error=ov['after']), 'after two overlapping stores conf/flowir_instance.yaml is not a description any '
                     'more (%s); %s' % (ov['after']['error'], how), [])
            return
        is_a = first_diff(ov['desc_a'], ov['after']) is None
        is_b = first_diff(ov['desc_b'], ov['after']) is None
        if not (is_a or is_b):
            ctx.fail(dict(rep, difference_to_A=first_diff(ov['desc_a'], ov['after'], 'flowir_instance'),
                          difference_to_B=first_diff(ov['desc_b'], ov['after'], 'flowir_instance')),
                     'after two overlapping stores conf/flowir_instance.yaml holds neither the description of writer A nor the one '
                     'of writer B; ' + how, [])
            return
        if 'error' in ov['reload'] and 'msg' in ov['reload']:
            ctx.fail(dict(rep, error=ov['reload']), 'after two overlapping stores the instance directory could not be loaded again '
                     '(%s); %s' % (ov['reload']['error'], how), [])
            return
        # (the edges of a live graph after loop iterations: open finding F7c, compared by the main predicate)
        cands = ([ov['snap_a']] if is_a else []) + ([ov['snap_b']] if is_b and ov['snap_b'] else [])
        diffs = [same_experiment(case, c, ov['reload'], edges=case['kind'] == 'conf') for c in cands]
        if cands and all(diffs):
            ctx.fail(dict(rep, difference=first_diff(cands[0][diffs[0][0]], ov['reload'][diffs[0][0]], diffs[0][0])),
                     'after two overlapping stores the directory reloads as neither of the experiments that stored their description '
                     '(%s differs); %s' % (diffs[0][1], how), [])


# ------------------------------------------------------------------ Coq terms
def skey(c):
    return (c.get('stage', 0), c.get('name', ''))


def case_term(case, obs):
    doc = case['doc']
    comps = sorted(doc['components'], key=skey)
    i = '((%s, %s, %s), %s, %s, %s)' % (cjv(doc.get('blueprint', {})), cjv(doc.get('variables', {})), clist(comps, cjv),
                                        cjv(doc.get('environments', {})), clist(case['files'], cjv), cstr(case['platform']))
    st = obs['stored']
    o = '(%s, %s, %s, %s)' % (cjv(st.get('blueprint', {})), cjv(st.get('variables', {})),
                              clist(sorted(st.get('components', []), key=skey), cjv),
                              cjv(st.get('environments', {}).get('default', {})))
    return '((%s, Some %s) : case_in * option case_out)' % (i, o)


def rebuilt_case(case, obs):
    """the package / user variables / platform of the experiment that was built again in the directory"""
    rb = case['rebuild']
    files = rb['files'] if 'files' in rb else ([obs['user']] if obs.get('user') else [])
    return dict(case, platform=rb['platform'], files=c04.fix_stage_keys(copy.deepcopy(files)))


def stored_extras_trivial(st, case):
    """the sections of the instance file the model does not cover are at their trivial values"""
    want_platforms = sorted(set(['default', case['platform']]))
    return (st.get('platforms') == want_platforms and not st.get('output') and not st.get('interface')
            and st.get('virtual-environments') == {'default': []} and st.get('application-dependencies') == {'default': []}
            and set(st.get('variables', {})) == {'default'} and set(st.get('blueprint', {})) == {'default'}
            and set(st.get('environments', {})) == {'default'})


# ------------------------------------------------------------------ running
def _drive(case):
    try:
        return c07_impl.drive(case)
    except Exception as e:
        return {'error': 'driver:' + type(e).__name__, 'msg': str(e)[:300]}


def nontrivial(case, obs):
    if case['kind'] == 'loop':
        return case['k'] >= 1
    # the selected platform is not default and some option or variable is defined by >= 2 layers of the platform
    doc, P = case['doc'], case['platform']
    bp, vs = doc.get('blueprint', {}), doc.get('variables', {})
    comp = [c for c in doc['components'] if c['name'] == 'c'][0]
    ol = [get(bp, ('default', 'global'), {}), get(bp, ('default', 'stages', 0), {}), get(bp, (P, 'global'), {}),
          get(bp, (P, 'stages', 0), {}), comp, comp.get('override', {}).get(P, {})]
    vl = [get(vs, ('default', 'global'), {}), get(vs, ('default', 'stages', 0), {}), get(vs, (P, 'global'), {}),
          get(vs, (P, 'stages', 0), {}), comp.get('variables', {})] + [f.get('global', {}) for f in case['files']]
    multi = sum(1 for p, _k in OPTS if sum(1 for l in ol if get(l, p) is not None) >= 2)
    multi += sum(1 for n in VARS if sum(1 for l in vl if n in (l or {})) >= 2)
    return P != 'default' and multi >= 2


def explore(ctx, cases, parallel=True):
    if parallel and len(cases) > 4:
        with multiprocessing.get_context('fork').Pool(min(12, NPROC)) as pool:
            observations = pool.map(_drive, cases, chunksize=2)
    else:
        observations = [_drive(c) for c in cases]
    terms, owners = [], []
    created = 0
    for case, obs in zip(cases, observations):
        ctx.count('kind=' + case['kind'])
        if case['kind'] == 'conf':
            ctx.count('platform=' + case['platform'])
            ctx.count('user_variable_files=%d' % len(case['files']))
            ctx.count('replicate=%s' % case.get('replicate'))
            ctx.count('inject=%s' % case.get('inj'))
            ctx.count('env_on_default_and_platform=%s' % env_class(case))
            ctx.count('repeat_interval_not_from_component=%s' % repeat_class(case))
            ctx.count('stage_variable_with_replica_and_other_reference=%s' % replica_class(case))
            ctx.count('manifest_folders=%s' % ','.join('%s:%s' % kv for kv in sorted((case.get('folders') or {}).items())))
            if case.get('folders'):
                names = set(c['name'] for c in case['doc']['components'])
                ctx.count('component_named_like_a_folder=%s' % bool(names & set(case['folders'])))
        else:
            ctx.count('loop_iterations=%d' % case['k'])
            r = case.get('rep') or {}
            ctx.count('loop_replicated_components=outside:%d,inside:%d' % (r.get('outside', 0), r.get('inside', 0)))
        ctx.count('reload_mode=%s' % (case.get('reload_mode') or 'update'))
        lo, rb, ov = case.get('leftover'), case.get('rebuild'), case.get('overlap')
        ctx.count('package_carries_a_description=%s' % (lo['kind'] if lo else None))
        if rb:
            ctx.count('re-created_in_place=%s,%s,update=%s' % (
                'other-platform' if rb['platform'] != case.get('platform') else 'same-platform',
                'other-user-variables' if 'files' in rb else 'same-user-variables', rb['update']))
        if ov:
            ctx.count('overlapping_stores=A:%s,B:%s,at:%s' % (ov['a'], ov['b'], ov['at']))
        ctx.count('directory_history=%s' % ('re-created' if rb else 'overlap' if ov else 'plain'))
        ctx.count('explicit_stores_after_build=%d' % (case.get('post') or 0))
        ctx.count('reloaded_experiment_stores_on_request=%s' % bool(case.get('restore')))
        replicated = bool(case.get('replicate') or case.get('rep'))
        if replicated and (case.get('post') or case.get('restore') or (case['kind'] == 'loop' and case['k'] >= 1)):
            ctx.count('replicated_package_stored_after_build')
        if 'error' in obs and obs['error'].startswith('store:'):
            ctx.case(case, True)
            ctx.fail({'case': case, 'error': obs['error'], 'msg': obs.get('msg')},
                     'the built experiment could not store its description on request (%s)' % obs['error'], [])
            continue
        if 'error' in obs:
            if obs['error'].startswith('driver:'):
                raise RuntimeError('C07 driver failed: %s %s' % (obs['error'], obs.get('msg')))
            ctx.count('not_instantiated:' + obs['error'])
            ctx.case(case, False)
            continue
        created += 1
        for name, method in sorted((case.get('folders') or {}).items()):
            if obs.get('folder_is_link', {}).get(name) != (method == 'link'):
                raise RuntimeError('C07 driver: manifest folder %s (%s) was not deployed as declared' % (name, method))
        ctx.case(case, nontrivial(case, obs))
        ctx.count('nodes=%d' % len(obs['live']['nodes']))
        predicate(ctx, case, obs)
        predicate_history(ctx, case, obs)
        ctx.count('instance_file_bytes_identical_after_reload=%s' % all(obs['same_bytes']))
        if case['kind'] == 'conf':
            if not stored_extras_trivial(obs['stored'], case):
                ctx.disagree({'case': case}, dict((k, obs['stored'].get(k)) for k in obs['stored']
                                                  if k not in ('components', 'variables', 'blueprint', 'environments')),
                             None, 'C07 conf/flowir_instance.yaml: sections outside the model are not at their trivial values')
            terms.append(case_term(case, obs))
            owners.append((case, obs))
            rb = obs.get('rebuild')
            if rb and 'error' not in rb and 'invalid' not in rb and case['rebuild']['update']:
                # the description that the experiment built again in the directory stored = flatten of ITS package / platform
                case2 = rebuilt_case(case, obs)
                if not stored_extras_trivial(rb['stored'], case2):
                    ctx.disagree({'case': case}, dict((k, rb['stored'].get(k)) for k in rb['stored']
                                                      if k not in ('components', 'variables', 'blueprint', 'environments')),
                                 None, 'C07 conf/flowir_instance.yaml after the re-creation: sections outside the model are not trivial')
                terms.append(case_term(case2, {'stored': rb['stored']}))
                owners.append((case, {'stored': rb['stored'], 'rebuilt_as': {'platform': case2['platform'], 'files': case2['files']}}))
                ctx.count('model_cases_re-created_in_place')
            if len(ctx.samples) < 3 and nontrivial(case, obs):
                ctx.sample({'platform': case['platform'], 'package': case['doc'], 'user_variables': case['files'],
                            'flowir_instance': obs['stored']})
    if cases and created * 10 < len(cases) * 8:
        ctx.disagree({'cases': len(cases), 'instantiated': created}, dict(ctx.hist), None,
                     'C07 generator: fewer than 80% of the generated (valid) packages could be instantiated')
    # the decision to store (Dir.v: open_experiment / generate) on every opening of a directory that was observed
    oterms, oowners = [], []
    for case, obs in zip(cases, observations):
        for o in obs.get('opens') or []:
            oterms.append('((%s, %s, %s), %s)' % tuple(cbool(bool(x)) for x in o))
            oowners.append((case, o))
            ctx.count('open:package=%s,update=%s,description_existed=%s' % tuple(o[:3]))
    for i in ctx.model_mismatches(HEADER_DIR, oterms, 'check_open', chunk=2000, name='c07dir'):
        case, o = oowners[i]
        if o[1] and not o[3]:
            ctx.fail({'case': case, 'opening': dict(zip(['parsed_as_package', 'update', 'description_existed', 'written'], o))},
                     'an experiment was built in a directory that already held a description, with updateInstanceConfiguration=True, '
                     'and did not store its own description (parsed as a %s)' % ('package' if o[0] else 'instance'), [])
        ctx.disagree({'case': case}, {'opening': o}, None, 'C07 opening a directory (Experiment.__init__ / _generate_instance_files) '
                                                          'vs Reload.Dir.open_experiment: [package, update, existed, written]')
    # the loop placeholders over time (Loops.v): k next_iteration steps on one live state / load of the stored instances
    lterms, lowners = [], []
    for case, obs in zip(cases, observations):
        if case['kind'] != 'loop' or 'live' not in obs or 'error' in (obs['live'].get('placeholders') or {}):
            continue
        view = lambda v: '(%s, %s)' % (cstr(v.get('latest', '')), clist(v.get('represents', []), cstr))
        for p, v in sorted(obs['live']['placeholders'].items()):
            st, name = p.split('.', 1)
            rl = [(r.get('placeholders') or {}).get(p) or {} for r in obs['reloads'] if 'error' not in r]
            lterms.append('((%s%%N, %s, %s), %s, %s)' % (int(st[5:]), cstr(name), cnat(case['k']), view(v), clist(rl, view)))
            lowners.append((case, p, v, rl))
    ctx.count('model_cases_loop_placeholders', len(lterms))
    for i in ctx.model_mismatches(HEADER_LOOPS, lterms, 'check_loop', chunk=400, name='c07loops'):
        case, p, v, rl = lowners[i]
        ctx.disagree({'case': case}, {'placeholder': p, 'live': v, 'reloaded': rl}, None,
                     'C07 loop placeholders (live: instantiate_dowhile_next_iteration x k on one graph; reloaded: built from the stored '
                     'description) vs Reload.Loops.after / load')
    bad = ctx.model_mismatches(HEADER, terms, CHECKER, chunk=10, name='c07')
    for k, i in enumerate(bad):
        case, obs = owners[i]
        model = ''
        if k < 2:
            model = ctx.model_eval(HEADER, 'run_case (fst %s)' % terms[i])[-3000:]
        ctx.disagree({'case': case}, {'flowir_instance': obs['stored']}, model,
                     'C07 conf/flowir_instance.yaml (instance()) vs Reload.Model.flatten')


def corpus():
    out = []
    for p in sorted(glob.glob(os.path.join(CORPUS, '*.json'))):
        c = c04.fix_stage_keys(json.load(open(p)))
        c['corpus'] = os.path.basename(p)
        out.append(c)
    return out


def gen_loop_case(rng, k):
    while True:
        c = c05.gen_case(rng, k)
        if c05.args_conflict(c) or c05.duplicate_refs(c):
            continue
        case = {'kind': 'loop', 'c05': c, 'k': k}
        if rng.random() < 0.7:
            # replicated components next to / inside the loop (both 0: drawn again)
            rep = {'outside': rng.choice([0, 2, 3]), 'inside': rng.choice([0, 1, 2])}
            if not (rep['outside'] or rep['inside']):
                rep[rng.choice(['outside', 'inside'])] = 2
            case['rep'] = rep
        return draw_directory_history(rng, draw_later_stores(rng, case))


def long_loop_ks(rng, tier):
    """numbers of further iterations around and beyond the digit boundaries: 9/10/11 systematically, a few drawn in 12..30,
    thorough: more of each and 99/100/101"""
    if tier == 'quick':
        return [9, 10, 10, 11, 12] + [rng.randrange(13, 31) for _ in range(2)]
    return [9, 10, 11, 12] * 5 + [rng.randrange(13, 60) for _ in range(12)] + [99, 100, 101]


def run(ctx):
    ctx.rule = ('packages with platforms default/p/q, stages 0-1, three components (producer, replicating or plain '
                'consumer, aggregating consumer), 14 schema-valid options x 11 layers and 8 variables x 15 layers (C04 '
                'layer slots: default/platform/foreign global+stage blueprints and variables, two user variable files, '
                'component, override per platform), environments e/f with 4 keys on every platform independently, '
                'YAML-trap strings as variable values, 15% with a variable only a foreign platform defines, 12% with stage (and global) '
                'variables holding %(replica)s next to another reference that the component often shadows (all consumers replicated), 20% '
                'as one FlowIR file + manifest with :link / :copy top-level folders and direct references into them (40% of those next to a '
                'component named like a folder), 6% with a repeatInterval in a blueprint / override layer; plus DoWhile packages of the C05 '
                'generator with k = 0..3 (quick) further iterations stored before the reload, 70% of them with replicated + aggregating '
                'components added outside the loop (xrep x2/x3, xagg) and / or inside the DoWhile document (zrep x1/x2, zagg), plus LONG loops '
                '(k = 9, 10, 10, 11, 12 and two drawn in 13..30; thorough 5 x each of 9..12, twelve in 13..59 and 99, 100, 101: iteration '
                'numbers with more digits than the earlier ones, all instantiated one after the other on ONE live graph); every case: '
                'create the instance, 0/1/2 (weights 2:2:1) explicit stores on request by the built experiment, reload twice, in 35% of '
                'the cases every reloaded experiment stores on request as well before the directory is read again; the history of the directory: '
                'reloads with update / without (20%) / is_instance=None (20%); 15% of the directory packages carry a conf/flowir_instance.yaml '
                '(foreign description, or the one of an earlier run on another platform / other user variables / 1-2 more iterations); 25% '
                '(loops 20%) are opened as a package again after the reloads (70% another platform, 50% other user variables, 80% with update) '
                'and reloaded twice; 25% (loops 45%) get two overlapping stores (A: store / load / next iteration, B: store / load, parked before / '
                'in the middle of / after its dump); non-trivial = selected platform is not default and >= 2 options/variables are '
                'defined by >= 2 layers of that platform, or a loop with >= 1 further iteration; distinct by the case')
    rng = ctx.rng
    n_conf = 150 if ctx.tier == 'quick' else 1500
    cases = corpus()
    tries = 0
    while sum(1 for c in cases if c['kind'] == 'conf' and 'corpus' not in c) < n_conf and tries < n_conf * 20:
        tries += 1
        c = gen_conf_case(rng)
        if valid_package(c):
            cases.append(draw_directory_history(rng, c))
        else:
            ctx.count('generated_invalid_package_skipped')
    ks = [0, 1, 2, 3] if ctx.tier == 'quick' else [0, 1, 2, 3, 5, 11]
    per_k = 6 if ctx.tier == 'quick' else 30
    for k in ks:
        for _ in range(per_k):
            cases.append(gen_loop_case(rng, k))
    # LONG loops (round 7): iteration numbers with more digits than the ones before them.  The live graph keeps state from
    # iteration to iteration (placeholders, documents, merged graphs) while a reloaded one is built from the stored description
    # at once; '9#x' / '10#x' (and '99#x' / '100#x') is where an order on the TEXT of an instance name parts from the numeric one
    for k in long_loop_ks(rng, ctx.tier):
        cases.append(gen_loop_case(rng, k))
    explore(ctx, cases)
    ctx.count('cases', len(cases))


def replay(ctx, path):
    d = json.load(open(path))
    c = d.get('case') or d.get('first', {}).get('case')
    if isinstance(c, dict) and 'case' in c:
        c = c['case']
    if not isinstance(c, dict) or 'kind' not in c:
        print('replay file names no input (proof/correspondence obligation): re-run ./check C07')
        return 2
    c = c04.fix_stage_keys(c)
    explore(ctx, [c], parallel=False)
    for f in ctx.failures:
        print('REPRODUCED: %s' % f['what'])
    for f in ctx.disagreements:
        print('DISAGREEMENT: %s' % (json.dumps(f, default=str)[:3000],))
    return 1 if (ctx.failures or ctx.disagreements) else 0
