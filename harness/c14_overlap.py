"""C14 - OVERLAPPING updates: two real updater calls (two threads of one process, as the StatusMonitor thread and the
thread that handles a failure / a shutdown signal do with Status.update(), which takes no lock) whose file
operations reach the disk in a chosen interleaving.

The two calls run in two threads that are serialised at the intercepted file operations: a thread asks for its next
operation and blocks until the schedule (a list of 'A'/'B'; when it is used up A goes first; when one call has ended the
other one runs) gives it the turn; it keeps the turn - everything it computes between two operations included -
until it asks for the next one.  The run is therefore deterministic.

Explored per overlap: the fault-free interleaving (the text of every state file after EVERY operation = what a death of
the process at that point leaves behind), and re-runs under an injected fault at every operation of the interleaving
(death of the process - of both calls; or an I/O error raised in the call whose operation it is, followed by that call's
own error handling while the other call goes on).

Predicate (the property as stated): at every moment / after every fault each state file holds its previous text or the
COMPLETE text one of the two calls wrote, and it loads; the file left by the uninterrupted overlap reads back the values
of the call that renamed last.  Correspondence: Fs.Model.check_overlap (interleave of the two exec protocols with
temporaries named after the call that owns them: T<i> for A, U<i> for B).
"""
import os
import threading

import c14_io
import c14
from c14 import s_, c_op, c_fault, in_model
from common import clist, cpair, cbool


class _OpList(list):
    """rec.ops: remembers who appended and runs a hook (state snapshot) after every recorded operation"""

    def __init__(self, rec):
        list.__init__(self)
        self.rec = rec
        self.owners = []
        self.after = []

    def append(self, o):
        list.append(self, o)
        self.owners.append(self.rec.who())
        self.after.append(self.rec.snap() if self.rec.snap else None)


class SchedRec(c14_io.Recorder):
    def __init__(self, root, schedule, fault=None, snap=None):
        c14_io.Recorder.__init__(self, root, fault)
        self.snap = snap
        self.ops = _OpList(self)
        self.cv = threading.Condition()
        self.sch = list(schedule)
        self.pos = 0
        self.state = {'A': 'new', 'B': 'new'}
        self.holder = None
        self.tl = threading.local()
        self.attempts = []      # (owner, rel path) of every truncating open that was attempted
        self.granted = []       # owner of every operation that was given the turn
        self.stuck = False

    def who(self):
        return getattr(self.tl, 'who', 'A')

    # ---- the scheduler
    def _my_turn(self, who):
        if self.holder is not None:
            return False
        other = 'B' if who == 'A' else 'A'
        if self.state[other] == 'done':
            return True
        if self.state[other] != 'waiting':
            return False
        if self.pos < len(self.sch):
            return self.sch[self.pos] == who
        return who == 'A'

    def gate(self):
        who = self.who()
        with self.cv:
            if self.holder == who:
                self.holder = None
            self.state[who] = 'waiting'
            self.cv.notify_all()
            while not self._my_turn(who):
                if not self.cv.wait(timeout=30):
                    self.stuck = True
                    raise RuntimeError('C14 overlap scheduler stuck')
            other = 'B' if who == 'A' else 'A'
            if self.state[other] == 'waiting' and self.pos < len(self.sch):
                self.pos += 1
            self.holder = who
            self.state[who] = 'running'
            self.granted.append(who)
        if self.dead:
            raise c14_io.Crash()

    def finished(self, who):
        with self.cv:
            if self.holder == who:
                self.holder = None
            self.state[who] = 'done'
            self.cv.notify_all()

    def fault_here(self):
        if getattr(self.tl, 'gated', False):
            self.tl.gated = False
        else:
            self.gate()
        return c14_io.Recorder.fault_here(self)

    def _open(self, file, mode='r', *a, **kw):
        if not isinstance(file, int) and self.inside(file) and any(c in mode for c in 'wxa+') and \
                not ('b' in mode or 'a' in mode or (mode.startswith('r') and '+' in mode)):
            self.gate()
            self.attempts.append((self.who(), self.rel(file)))
            self.tl.gated = True
            try:
                return c14_io.Recorder._open(self, file, mode, *a, **kw)
            finally:
                self.tl.gated = False
        return c14_io.Recorder._open(self, file, mode, *a, **kw)

    # ---- run the two calls
    def run_pair(self, call_a, call_b):
        results = {}

        def body(who, call):
            self.tl.who = who
            try:
                results[who] = ('ok', call())
            except c14_io.Crash:
                results[who] = ('crash', None)
            except Exception as e:      # what escapes the updater after an injected fault: not a verdict by itself
                results[who] = ('raised', type(e).__name__)
            finally:
                self.finished(who)

        ta = threading.Thread(target=body, args=('A', call_a), name='A')
        tb = threading.Thread(target=body, args=('B', call_b), name='B')
        # serial start: A runs up to its first operation (or to its end), then B does, then the schedule decides
        with self.cv:
            self.holder = 'main'
        ta.start()
        with self.cv:
            while self.state['A'] == 'new':
                self.cv.wait(timeout=30)
        tb.start()
        with self.cv:
            while self.state['B'] == 'new':
                self.cv.wait(timeout=30)
            self.holder = None
            self.cv.notify_all()
        ta.join(60)
        tb.join(60)
        if ta.is_alive() or tb.is_alive():
            self.stuck = True
            self.dead = True
            with self.cv:
                self.holder = None
                self.state['A'] = self.state['B'] = 'done'
                self.cv.notify_all()
            ta.join(5)
            tb.join(5)
        return results


def canon_owned(ops, owners, attempts, targets):
    """rel paths -> model names: a target keeps its base name; any other path is named after the call that attempted to
    open it FIRST: T1, T2, ... for A, U1, U2, ... for B (so a path both calls use carries one name)"""
    names = {}
    cnt = {'A': 0, 'B': 0}
    for who, p in attempts:
        if os.path.basename(p) in targets or p in names:
            continue
        cnt[who] += 1
        names[p] = '%s%d' % ('T' if who == 'A' else 'U', cnt[who])

    def nm(p):
        b = os.path.basename(p)
        if b in targets:
            return b
        if p not in names:
            names[p] = 'X%d' % (len(names) + 1)
        return names[p]
    out = []
    for o in ops:
        if o[0] == 'append':
            out.append(('append', nm(o[1]), o[2]))
        elif o[0] == 'rename':
            out.append(('rename', nm(o[1]), nm(o[2])))
        else:
            out.append((o[0], nm(o[1])))
    return out, names


def gen_schedule(rng, na, nb, kind=None):
    """families: B completely inside A after A's i-th operation / A inside B / strict alternation / random merge /
    one after the other (the sequential baseline)"""
    kind = kind or rng.choice(['b_in_a', 'b_in_a', 'a_in_b', 'alt', 'random', 'random', 'seq'])
    if kind == 'b_in_a':
        i = rng.randint(1, max(1, na - 1))
        return kind, ['A'] * i + ['B'] * nb
    if kind == 'a_in_b':
        i = rng.randint(1, max(1, nb - 1))
        return kind, ['B'] * i + ['A'] * na
    if kind == 'alt':
        return kind, ['A', 'B'] * max(na, nb)
    if kind == 'seq':
        return kind, ['A'] * na
    s = ['A'] * na + ['B'] * nb
    rng.shuffle(s)
    return kind, s


def explore_overlap(ctx, root, ua, ub, schedule, rng, terms, descr, max_faults=None):
    """ua, ub: c14.Updater objects on the same state file(s) (ua.targets); .prepare(), .call(), .loads(b, text, ...),
    .model_term_as(tmpname, own_appends) ; schedule: list of 'A'/'B'"""
    targets = ua.targets
    b0 = targets[0]
    old = c14.snapshot(root, ua)
    ua.keep_files = set()
    for b in targets:
        ua.keep_files |= set(os.listdir(os.path.join(root, ua.dirs[b])))

    def snap():
        return c14_io.read_text(ua.path(root, b0))

    def prepare():
        ua.prepare()
        if ub is not ua:
            ub.prepare()

    prepare()
    with SchedRec(root, schedule, snap=snap) as rec:
        res = rec.run_pair(ua.call, ub.call)
    if rec.stuck:
        ctx.disagree({'kind': 'overlap', 'overlap': descr}, 'the two calls did not end', 'both end',
                     'C14 overlap: scheduler')
        return
    base, names = canon_owned(list(rec.ops), rec.ops.owners, rec.attempts, targets)
    owners = list(rec.ops.owners)
    states = list(rec.ops.after)
    new = c14.snapshot(root, ua)
    ctx.count('overlaps_' + ua.kind)
    ctx.count('overlap_ops_in_fault_free_traces', len(base))
    cse0 = {'kind': 'overlap:' + ua.kind, 'overlap': descr, 'fault': None}
    # the complete text each call wrote for each state file (what it handed to write(), in order, per temporary)
    wrote = {'A': {}, 'B': {}}
    for o, w in zip(base, owners):
        if o[0] == 'append':
            wrote[w].setdefault(o[1], []).append(o[2])
    complete = {'A': {}, 'B': {}}
    for o, w in zip(base, owners):
        if o[0] == 'rename' and o[2] in targets:
            complete[w][o[2]] = ''.join(wrote[w].get(o[1], []))
    versions = {b: [old[b]] + [complete[w][b] for w in 'AB' if b in complete[w]] for b in targets}
    # ---- every update writes a temporary file of its OWN (the hypothesis of C14_overlap_atomic)
    pa = set(p for w, p in rec.attempts if w == 'A')
    pb = set(p for w, p in rec.attempts if w == 'B')
    shared = sorted(os.path.basename(p) for p in (pa & pb))
    if shared:
        ctx.count('overlap_shared_temporary')
    # ---- predicate: after EVERY operation of the interleaving the state file is one complete version
    classes = sorted(set(ua.classes()) | set(ub.classes()))
    bad_at = None
    for k, c in enumerate(states):
        if c not in versions[b0]:
            bad_at = k
            break
    if bad_at is not None:
        ctx.fail(dict(cse0, at_operation=bad_at, file=b0),
                 '%s after operation %d (%s by call %s) of two overlapping updates is neither the previous version nor the '
                 'complete text of either call%s: %r' % (b0, bad_at, base[bad_at][0], owners[bad_at],
                                                          ' (both calls write the temporary file %s)' % shared if shared else '',
                                                          (states[bad_at] if states[bad_at] is None else states[bad_at][:80])),
                 [])
    else:
        # the file left behind loads and reads back the values of the call that renamed last
        last = [w for o, w in zip(base, owners) if o[0] == 'rename' and o[2] == b0]
        if last:
            u = ua if last[-1] == 'A' else ub
            why = u.check_final(b0, new[b0])
            if why:
                ctx.fail(dict(cse0, file=b0), 'after two overlapping updates (last rename by call %s): %s' % (last[-1], why), classes)
        for w in 'AB':
            if res.get(w, ('?',))[0] != 'ok':
                ctx.count('overlap_call_%s_%s' % (w, res.get(w, ('?',))[0]))
    if shared and bad_at is None:
        ctx.disagree(cse0, 'both calls open the temporary file %s' % shared, 'every update writes a temporary file of its own',
                     'C14 overlap: private temporary file (hypothesis of C14_overlap_atomic)')
    mod_ok = ua.modelled() and ub.modelled() and all(in_model(o[2]) for o in base if o[0] == 'append') and \
        all(v is None or in_model(v) for v in old.values()) and all(c is None or in_model(c) for c in states)
    # ---- faults over the interleaving
    n = len(base)
    ks = list(range(n))
    if max_faults is not None and n > max_faults:
        ks = sorted(set([0, 1, n - 2, n - 1] + rng.sample(range(n), max_faults)))
    fcases = []
    for k in ks:
        o = base[k]
        for mode in ('die', 'eio'):
            j = rng.randint(0, len(o[2])) if o[0] == 'append' else 0
            flt = (mode, k, j)
            c14.clean_dir(root, ua, old)
            prepare()
            with SchedRec(root, schedule, flt) as r2:
                r2.run_pair(ua.call, ub.call)
            if r2.stuck:
                ctx.disagree(dict(cse0, fault=list(flt)), 'the two calls did not end', 'both end', 'C14 overlap: scheduler')
                continue
            if not r2.fault_hit:
                ctx.count('overlap_fault_beyond_trace')
                continue
            ops2, names2 = canon_owned(list(r2.ops), r2.ops.owners, r2.attempts, targets)
            own2 = list(r2.ops.owners)
            after = c14.snapshot(root, ua)
            cse = {'kind': 'overlap:' + ua.kind, 'overlap': descr, 'fault': list(flt)}
            for b in targets:
                c = after[b]
                if c not in versions[b]:
                    ctx.fail(dict(cse, file=b), '%s after a fault (%s at operation %d of the interleaving, call %s) in two overlapping '
                             'updates is neither the previous version nor the complete text of either call: %r'
                             % (b, mode, k, owners[k], (c if c is None else c[:80])), [])
                elif c is not None:
                    why = ua.loads(b, c)
                    if why:
                        ctx.fail(dict(cse, file=b), '%s left by a fault in two overlapping updates does not load: %s' % (b, why), classes)
            ctx.case(['overlap', ua.kind, descr, list(flt)], k >= 1 and any(v is not None for v in old.values()))
            ctx.count('overlap_fault_%s_on_%s_of_%s' % (mode, o[0], owners[k]))
            if not mod_ok:
                continue
            kx = sum(1 for w in owners[:k] if w == owners[k])
            fx = c_fault((mode, kx, j))
            fa, fb = (fx, 'NoFault') if owners[k] == 'A' else ('NoFault', fx)
            if mode == 'die':
                sch, nn = owners, len(ops2)
            else:
                sch, nn = own2, 5000
            obs = []
            for b in targets:
                c = after[b]
                obs.append((b, 'OAbs' if c is None else 'OOld' if c == old[b] else '(OStr %s)' % (s_(c) if in_model(c) else '"?"')))
            for p, nm_ in sorted(names2.items(), key=lambda x: x[1]):
                c = c14_io.read_text(os.path.join(root, p))
                obs.append((nm_, 'OAbs' if c is None else '(OLen %d)' % len(c)))
            fcases.append(cpair(cpair(fa, fb), cpair(clist(sch, lambda w: cbool(w == 'A')), cpair(
                '%d' % nn, cpair(clist(ops2, lambda x: c_op(x, True)), clist(obs, lambda pc: cpair(s_(pc[0]), pc[1])))))))
    # leave the directory as the fault-free overlap left it
    c14.clean_dir(root, ua, new)
    prepare()
    if mod_ok:
        ta = ua.model_term_as('T1', [o[2] for o, w in zip(base, owners) if o[0] == 'append' and w == 'A'])
        tb = ub.model_term_as('U1', [o[2] for o, w in zip(base, owners) if o[0] == 'append' and w == 'B'])
        fs0 = clist([(b, old[b]) for b in targets if old[b] is not None], lambda pc: cpair(s_(pc[0]), s_(pc[1])))
        sts = clist(states, lambda c: 'None' if c is None else '(Some %s)' % s_(c))
        terms.append((cpair(cpair(ta, tb), cpair(fs0, cpair(clist(owners, lambda w: cbool(w == 'A')), cpair(
            clist(base, c_op), cpair(cpair(s_(b0), sts), clist(fcases)))))),
            {'kind': 'overlap:' + ua.kind, 'overlap': descr}))
    else:
        ctx.count('overlap_outside_model_alphabet')
    return new


# ------------------------------------------------------------------ Status.update x Status.update
TRACEBACK = 'Traceback (most recent call last):\n' + ''.join('  File "component%d.py", line %d, in run\n' % (i, i) for i in range(6)) \
    + 'ValueError: boom\n'


class StatusOv(c14.StatusUpd):
    kind = 'status'

    def check_final(self, b, text):
        return self.loads(b, text, want=self.intended)

    def model_term_as(self, t, appends):
        return '(status_update_as %s %s)' % (s_(t), c_dict_(self.intended))


def c_dict_(d):
    return c14.c_dict(d)


def _apply_sets(st, sets):
    for k, v in sets:
        if k == c14.ED:
            st.setErrorDescription(v)
        elif k == 'exit-status':
            st.setExitStatus(v)
        elif k == 'cost':
            st.setCost(v)
        elif k == 'total-progress':
            st.setTotalProgress(v)
        elif k == 'current-stage':
            st.setCurrentStage(v)
        elif k == 'experiment-state':
            st.setExperimentState(v)
        else:
            st.data[k] = v


def gen_sets(rng, stages, long_ed):
    sets = []
    if long_ed:
        sets.append((c14.ED, rng.choice([TRACEBACK, c14.gen_ed(rng) + c14.gen_text(rng, 40), c14.gen_ed(rng, 0.1)])))
    elif rng.random() < 0.4:
        sets.append((c14.ED, c14.gen_ed(rng)))
    if rng.random() < 0.6:
        sets.append(('exit-status', c14.gen_inner(rng, 8)))
    if rng.random() < 0.5:
        sets.append(('total-progress', rng.choice([0.0, 0.25, 1.0, 0.3333333333333333])))
    if rng.random() < 0.5:
        sets.append(('current-stage', rng.choice(stages)))
    if rng.random() < 0.4:
        sets.append(('experiment-state', rng.choice(['running', 'finished', 'failed'])))
    if rng.random() < 0.3:
        sets.append(('custom-key', c14.gen_inner(rng, 8)))
    return sets


CORPUS = [
    # the monitor's update (short) is overtaken by the failure handler's (long error description) between its open and its
    # first write / after its first write / before its close; and the other way round
    {'a': [('total-progress', 0.5), ('current-stage', 'stage1')], 'b': [('experiment-state', 'failed'), (c14.ED, TRACEBACK)],
     'kind': 'b_in_a', 'at': 1},
    {'a': [('total-progress', 0.5), ('current-stage', 'stage1')], 'b': [('experiment-state', 'failed'), (c14.ED, TRACEBACK)],
     'kind': 'b_in_a', 'at': 3},
    {'a': [('experiment-state', 'failed'), (c14.ED, TRACEBACK)], 'b': [('total-progress', 0.5)], 'kind': 'b_in_a', 'at': -1},
    {'a': [('exit-status', 'Failed')], 'b': [('exit-status', 'Failed')], 'kind': 'alt', 'shared': True},
]


def run_status_overlap(ctx, rng, terms):
    import datetime as _dt
    import shutil
    import tempfile
    import types
    import experiment.model.data as D
    real_dt = D.datetime
    D.datetime = types.SimpleNamespace(datetime=c14.FakeDT, timedelta=_dt.timedelta, timezone=_dt.timezone, date=_dt.date)
    tmp = tempfile.mkdtemp(prefix='verif_c14_ov_')
    try:
        n = 10 if ctx.tier == 'quick' else 60
        plans = [dict(c, corpus=i) for i, c in enumerate(CORPUS)]
        for i in range(n):
            stages = ['stage%d' % s for s in range(rng.randint(1, 3))]
            la = rng.random() < 0.4
            lb = rng.random() < 0.5
            plans.append({'stages': stages, 'a': gen_sets(rng, stages, la), 'b': gen_sets(rng, stages, lb), 'kind': None,
                          'shared': rng.random() < 0.15})
        for pi, plan in enumerate(plans):
            root = os.path.join(tmp, 'o%d' % pi)
            os.makedirs(os.path.join(root, 'output'))
            p = os.path.join(root, 'output', 'status.txt')
            stages = plan.get('stages', ['stage0', 'stage1', 'stage2'])
            c14.FakeDT.tick = 0
            first = D.Status(p, data={}, stages=list(stages))
            first.setExperimentState('running')
            if not first.update():
                raise RuntimeError('cannot write the first status.txt')
            c14.FakeDT.tick = 1 + pi % 3
            sa = D.Status.statusFromFile(p)
            sb = sa if plan.get('shared') else D.Status.statusFromFile(p)
            _apply_sets(sa, plan['a'])
            _apply_sets(sb, plan['b'])
            now = '%s' % (c14.FakeDT.now(),)
            ups = []
            for st in (sa, sb):
                intended = {k: '%s' % (v,) for k, v in st.data.items()}
                intended['updated'] = now
                intended['updated-on'] = now
                u = StatusOv(D, st, intended)
                u.tmpdir = tmp
                ups.append(u)
            ua, ub = ups
            if sb is sa:
                ub = ua
            nops = 3 + len(ua.intended)
            nopsb = 3 + len(ub.intended)
            if plan.get('kind') == 'b_in_a' and 'at' in plan:
                at = plan['at'] if plan['at'] > 0 else nops - 2
                kind, sch = 'b_in_a', ['A'] * at + ['B'] * nopsb
            else:
                kind, sch = gen_schedule(rng, nops, nopsb, plan.get('kind'))
            descr = {'overlap': pi, 'a_sets': [list(x) for x in plan['a']], 'b_sets': [list(x) for x in plan['b']],
                     'schedule': kind, 'sch': ''.join(sch), 'shared_object': bool(plan.get('shared'))}
            if 'corpus' in plan:
                descr['corpus'] = 'overlap-%d' % plan['corpus']
            ctx.count('overlap_schedule_' + kind)
            ctx.count('overlap_a_%s_than_b' % ('shorter' if sum(map(len, ua.intended.values())) < sum(map(len, ub.intended.values()))
                                               else 'not_shorter'))
            explore_overlap(ctx, root, ua, ub, sch, rng, terms, descr)
            if len(ctx.samples) < 5 and pi == len(CORPUS):
                ctx.sample({'kind': 'overlap of two Status.update', 'descr': descr})
            shutil.rmtree(root, ignore_errors=True)
    finally:
        D.datetime = real_dt
        shutil.rmtree(tmp, ignore_errors=True)


# ------------------------------------------------------------------ _replace_file_atomically x _replace_file_atomically
class IfaceOv(c14.IfaceUpd):
    """two overlapping Experiment._store_* calls on the same interface file: they go through
    FlowIRExperimentConfiguration._replace_file_atomically, the helper that also writes conf/flowir_instance.yaml and
    conf/manifest.yaml (no lock of its own either)"""

    def check_final(self, b, text):
        return self.check_new({self.base: text})

    def model_term_as(self, t, appends):
        return '(file_update_as %s %s %s)' % (s_(t), s_(self.base), clist(appends, s_))


def run_iface_overlap(ctx, rng, terms):
    import shutil
    import tempfile
    import experiment.model.data as D
    tmp = tempfile.mkdtemp(prefix='verif_c14_ov_')
    try:
        n = 2 if ctx.tier == 'quick' else 14
        plans = [{'which': 'ids', 'a': ['mol-0'], 'b': ['mol-0', 'mol-1', 'mol-2', 'mol-3'], 'kind': 'b_in_a', 'corpus': 'overlap-iface'}]
        for _ in range(n):
            which = rng.choice(['ids', 'extra'])
            vals = []
            for _x in range(2):
                ids = [c14.gen_text(rng, 6, 0.1) or 'id%d' % i for i in range(rng.randint(0, 5))]
                vals.append(ids if which == 'ids' else
                            {i: ['/tmp/data/%s' % (c14.gen_inner(rng, 5) or 'f') for _y in range(rng.randint(0, 2))] for i in ids})
            plans.append({'which': which, 'a': vals[0], 'b': vals[1], 'kind': None})
        for pi, plan in enumerate(plans):
            root = os.path.join(tmp, 'i%d' % pi)
            os.makedirs(os.path.join(root, 'output'))
            first = IfaceOv(D, root, plan['which'], plan['a'] if rng.random() < 0.5 else plan['b'])
            first.call()
            ua = IfaceOv(D, root, plan['which'], plan['a'])
            ub = IfaceOv(D, root, plan['which'], plan['b'])
            # the length of the two traces is not known before the run: the schedule families are cut from a long one
            kind, sch = gen_schedule(rng, rng.randint(2, 12), 400, plan.get('kind'))
            descr = {'overlap': 'iface-%d' % pi, 'file': ua.base, 'a': plan['a'], 'b': plan['b'], 'schedule': kind,
                     'sch': ''.join(sch)[:60]}
            if 'corpus' in plan:
                descr['corpus'] = plan['corpus']
            ctx.count('overlap_schedule_' + kind)
            explore_overlap(ctx, root, ua, ub, sch, rng, terms, descr, max_faults=10 if ctx.tier == 'quick' else 24)
            shutil.rmtree(root, ignore_errors=True)
    finally:
        shutil.rmtree(tmp, ignore_errors=True)
