"""C19 — stream P, second half: several loads in ONE process versus a FRESH process.

State that the frontend keeps at class or module level between loads (a cached list of known option names, a registry that
validate_component extends ...) must not change what a later load returns.  One workflow that holds a component of EVERY
backend the code knows (c19_gen.backend_tables), each with the options Dosini.options_for_backend lists for it - as options
where the format has a key for them, as variables of the component otherwise - and a last component that carries every
backend option name as a plain variable, is written and loaded

 * at the END of the run, in the process that has by then loaded every component, stage file and instance of the run, and
 * in a fresh interpreter (this file run as a script: nothing was loaded before),

and the two loaded documents are compared through the observation of the property (harness/c19.py: observe).
"""
import json
import os
import subprocess
import sys


def all_backends_workflow():
    import c19
    K = c19.kinds()
    by_key = {K[p][0]: p for p in K}
    bpath = by_key.get('job-type')
    first_value = {'PStr': 'x', 'PInt': 7, 'PFloat': 2.5, 'PBool': True, 'PList': ['a'], 'PMem': '2Gi'}
    comps = []
    for i, (b, names) in enumerate(sorted(c19.BACKENDS.items())):
        opts = {'command.executable': 'echo'}
        if bpath:
            opts[bpath] = b
        variables = {'own%d' % i: 'v%d' % i}
        for n in names:
            if n in by_key:
                opts.setdefault(by_key[n], c19.SPECIAL.get(by_key[n], [first_value[K[by_key[n]][2]]])[0])
            else:
                variables[n] = '%d:%d' % (i, i + 5)
        comp = c19.unflatten(opts, name='B%d' % i, stage=i % 2)
        comp['variables'] = variables
        comps.append(comp)
    last = {'name': 'Last', 'stage': 1, 'command': {'executable': 'cat', 'environment': 'clean'},
            'variables': dict({n: '0' for n in c19.BACKEND_VARS}, plain='p')}
    comps.append(last)
    doc = {'components': comps, 'variables': {'default': {'global': dict(c19.REF_VARS), 'stages': {}}},
           'environments': {'default': {'clean': {}, 'envA': {'PATH': '/opt/bin:$PATH'}}}, 'platforms': ['default']}
    return {'doc': doc, 'platform': 'default'}


def observed(w):
    import c19
    r = c19.instance_roundtrip(w)
    if r['error']:
        return {'error': r['error']}
    return json.loads(json.dumps({'written': c19.observe(r['inst']), 'loaded': c19.observe(r['loaded'])}, sort_keys=True, default=str))


def compare_with_fresh_process(ctx):
    import c19
    w = all_backends_workflow()
    here = observed(w)
    ctx.case(['P', 'fresh-process', json.dumps(w, sort_keys=True, default=str)], True)
    ctx.count('P_fresh_process_comparisons')
    try:
        out = subprocess.run([sys.executable, os.path.abspath(__file__)], input=json.dumps(w), capture_output=True, text=True,
                             timeout=600, env=dict(os.environ, PYTHONPATH=os.pathsep.join(
                                 [os.path.dirname(os.path.abspath(__file__))] + [p for p in os.environ.get('PYTHONPATH', '').split(os.pathsep) if p])))
        fresh = json.loads(out.stdout.strip().splitlines()[-1])
    except Exception as e:      # the comparison itself could not run: an obligation of the check, not of the code
        ctx.note('fresh-process comparison could not run: %s' % e)
        ctx.disagree({'stream': 'P', 'workflow': w}, 'no answer from the fresh process', str(e)[:300],
                     'C19 several loads in one process vs a fresh process')
        return
    desc = {'stream': 'P', 'workflow': w, 'when': 'loaded at the end of the run, after every other load of this process'}
    cls = c19.classes_of_workflow(w)
    if 'error' in here or 'error' in fresh:
        if here != fresh:
            ctx.fail(dict(desc, here=here, fresh=fresh), 'an instance that a fresh process writes and loads cannot be written and loaded '
                     'by a process that has loaded other instances before (or the reverse)', cls)
        return
    d = c19.first_diff(fresh['loaded'], here['loaded'])
    if d:
        ctx.fail(dict(desc, difference=d), 'the document loaded from the same instance files differs between a fresh process and a process '
                 'that has loaded other components before: what a load returns depends on state kept between loads [%s]' % d[:200], cls)
    d = c19.first_diff(here['written'], here['loaded'])
    if d:
        ctx.fail(dict(desc, difference=d), 'a workflow with a component of every backend differs after the round trip [%s]' % d[:200], cls)


if __name__ == '__main__':
    import logging
    import warnings
    warnings.simplefilter('ignore')
    logging.disable(logging.CRITICAL)
    w = json.loads(sys.stdin.read())
    print(json.dumps(observed(w), sort_keys=True, default=str))
