"""C05 driver: builds a real Experiment from a generated DoWhile package in a scratch directory, calls the real
WorkflowGraph.instantiate_dowhile_next_iteration k times (the way Controller._instantiate_next_dowhile_iteration
does: next = state['currentIteration'] + 1) and reads back everything the property talks about.

A case (JSON-able):
  S      import stage of the DoWhile document
  dwname name of the importing component
  srcs   [[name, stage], ...]                       outside producers
  comps  [{name, stage, refs}]                      looped components (stage relative to the document)
         ref = ['B', binding, file] | ['C', stage|None, name, file, method]
  ibind  [[binding, type], ...]                     inputBindings
  binds  [[binding, [stage, producer, file]], ...]  bindings given by the importing component (method = type)
  loopb  [[binding, [stage|None, name, file]], ...] loopBindings
  cond   [stage|None, name, file]
  outs   [{name, stage, refs: [[stage, name, file, method], ...]}]   outside consumers
  k      number of further iterations
  ctl    optional {'start': stage index, 'inspect': 'none'|'end'|'each'}: the workflow is driven by a real
         experiment.runtime.control.Controller (real ComponentState objects, no task is run):
         Controller.initialise(stage 'start') and then Controller._instantiate_next_dowhile_iteration for every
         iteration (the production entry point; it creates jobs, engines and component states for the new nodes);
         'each' / 'end' = the read-only inspections of the Controller (initialise of the following stages with its
         "Initial dependency analysis" = generate_status_report_for_nodes, _comp_get_active_predecessors,
         get_node_state, _true_nodes_from_identifiers, _input_dependencies_satisfied,
         _get_placeholder_nodes_in_stage) run after each iteration / after the last one
  more   optional [{S, dwname, comps, ibind, binds, loopb, cond}, ...]: FURTHER DoWhile documents imported by the same
         workflow (document j >= 1 is written to conf/dowhile<j>.yaml); the (stage, name) pairs of all looped
         components are pairwise distinct
  seq    optional [document index, ...]: the order in which iterations are instantiated (document 0 = the one
         described at top level); default [0] * k.  k = seq.count(0)
  import_order  optional permutation of the document indices: the order of the importing components in the package
"""
import logging
import os
import shutil
import tempfile

import yaml


def ref_str(stage, name, file, method):
    s = ('stage%d.' % stage if stage is not None else '') + name
    if file:
        s += '/' + file
    return s + ':' + method


def _args(refs):
    # :copy/:link references may not appear on the command line
    return ' '.join(r for r in refs if r.rsplit(':', 1)[1] not in ('copy', 'link')) or 'hello'


LOOP_KEYS = ('S', 'dwname', 'comps', 'ibind', 'binds', 'loopb', 'cond')


def loops_of(case):
    """the DoWhile documents of a case: the one described at top level, then case['more']"""
    return [dict((k, case[k]) for k in LOOP_KEYS)] + [dict(l) for l in (case.get('more') or [])]


def sequence_of(case):
    return list(case['seq']) if case.get('seq') is not None else [0] * case['k']


def dw_file(j):
    return 'dowhile.yaml' if j == 0 else 'dowhile%d.yaml' % j


def _dw_document(loop):
    types = dict((b, t) for b, t in loop['ibind'])
    dw = {'type': 'DoWhile',
          'inputBindings': dict((b, {'type': t}) for b, t in loop['ibind']),
          'condition': ref_str(loop['cond'][0], loop['cond'][1], loop['cond'][2], 'output'),
          'components': []}
    if loop['loopb']:
        dw['loopBindings'] = dict((b, ref_str(v[0], v[1], v[2], types[b])) for b, v in loop['loopb'])
    for c in loop['comps']:
        refs = []
        for r in c['refs']:
            if r[0] == 'B':
                refs.append(ref_str(None, r[1], r[2], types[r[1]]))
            else:
                refs.append(ref_str(r[1], r[2], r[3], r[4]))
        d = {'name': c['name'], 'command': {'executable': 'echo', 'arguments': _args(refs)},
             'references': refs}
        if c['stage'] or c.get('explicit_stage'):
            d['stage'] = c['stage']
        wa = {}
        if c.get('rep') is not None:
            wa['replicate'] = c['rep'] if isinstance(c['rep'], int) else '%%(%s)s' % c['rep']
        if c.get('agg'):
            wa['aggregate'] = True
        if wa:
            d['workflowAttributes'] = wa
        dw['components'].append(d)
    return dw


def documents_multi(case):
    """-> main document, [DoWhile document of every loop]"""
    loops = loops_of(case)
    comps = []
    for name, st in case['srcs']:
        comps.append({'stage': st, 'name': name, 'command': {'executable': 'echo', 'arguments': 'src'}})
    for j in (case.get('import_order') or range(len(loops))):
        loop = loops[j]
        types = dict((b, t) for b, t in loop['ibind'])
        imp = {'stage': loop['S'], '$import': dw_file(j), 'name': loop['dwname']}
        if loop['binds']:
            imp['bindings'] = dict((b, ref_str(v[0], v[1], v[2], types[b])) for b, v in loop['binds'])
        comps.append(imp)
    for o in case['outs']:
        refs = [ref_str(*r) for r in o['refs']]
        comps.append({'stage': o['stage'], 'name': o['name'], 'references': refs,
                      'command': {'executable': 'echo', 'arguments': _args(refs)}})
        if o.get('agg'):
            comps[-1]['workflowAttributes'] = {'aggregate': True}
    main = {'components': comps}
    v = case.get('vars')
    if v:
        scope = lambda g, s: {'global': dict(g), 'stages': dict((int(k), dict(x)) for k, x in s.items())}
        main['variables'] = {'default': scope(v.get('dg', {}), v.get('ds', {}))}
        if case.get('platform'):
            main['platforms'] = ['default', case['platform']]
            main['variables'][case['platform']] = scope(v.get('pg', {}), v.get('ps', {}))
    return main, [_dw_document(l) for l in loops]


def documents(case):
    """-> main document, DoWhile document (of the first loop)"""
    main, dws = documents_multi(case)
    return main, dws[0]


class _FakeStatus:
    """stands for experiment.runtime.status.StatusDB (nothing is run, nothing to monitor)"""
    def monitorComponent(self, *args, **kwargs):
        pass


def _new_controller(exp, start):
    """a real Controller over real ComponentState objects, the way tests/test_control.py builds one; engines are
    not created for the initial components (nothing is launched), the Controller creates the ones of the
    iterations it instantiates itself"""
    import networkx
    import experiment.runtime.control
    import experiment.runtime.workflow
    g = exp.experimentGraph
    keep = []   # the graph holds weak references only
    for n in networkx.topological_sort(g.graph):
        data = g.graph.nodes[n]
        spec = data['componentSpecification']
        job = exp._stages[data['stageIndex']].jobWithName(spec.identification.componentName)
        keep.append(experiment.runtime.workflow.ComponentState(job, g, create_engine=False))
    ctl = experiment.runtime.control.Controller(exp)
    ctl.initialise(exp._stages[start], _FakeStatus())
    return ctl, keep


def _inspect(ctl, exp, keep, start, rnd):
    """read-only inspections of the live workflow by the Controller; -> its view of the placeholders.
    rnd selects which of the later stages is 'initialised' this time (initialise only reports once a first stage
    was set)"""
    g = exp.experimentGraph
    view = {}
    later = [st for st in exp._stages if st.index > start]
    if later:
        ctl.initialise(later[rnd % len(later)], _FakeStatus())
    report = ctl.generate_status_report_for_nodes()
    # the components the status report tags as 'C: the latest condition of a DoWhile'
    view['__ctags__'] = sorted(line[2:].split('[', 1)[0] for line in report.split('\n') if line.startswith('C:'))
    ctl.generate_status_report_for_nodes(components=sorted(g._placeholders), filter_done=True)
    for st in exp._stages:
        ctl._get_placeholder_nodes_in_stage(st.index)
    for comp in list(keep) + list(ctl._instantiated_components):
        ctl._input_dependencies_satisfied(comp)
        ctl._comp_get_active_predecessors(comp.specification.reference)
    name_of = lambda data: data['componentSpecification'].identification.identifier
    for p in sorted(g._placeholders):
        ctl.get_node_state(p)
        pred = ctl._comp_get_active_predecessors(p)
        alln = ctl._true_nodes_from_identifiers([p], only_latest_looped=False)[p]
        latest = ctl._true_nodes_from_identifiers([p], only_latest_looped=True)[p]
        view[p] = {'producers': sorted(pred['producers']), 'subjects': sorted(pred['subjects']),
                   'all': sorted(name_of(d) for d in alln), 'latest': [name_of(d) for d in latest]}
    return view


def drive(case):
    """-> observation dict (or {'error': class name})"""
    logging.disable(logging.CRITICAL)
    import experiment.model.storage
    import experiment.model.data
    import experiment.model.graph as G
    import experiment.model.frontends.flowir as F
    FlowIR = F.FlowIR
    main, dws = documents_multi(case)
    loops = loops_of(case)
    tmp = tempfile.mkdtemp(prefix='verif_c05_')
    cwd = os.getcwd()
    obs = {}
    try:
        pkg = os.path.join(tmp, 'p.package')
        os.makedirs(os.path.join(pkg, 'conf'))
        with open(os.path.join(pkg, 'conf', 'flowir_package.yaml'), 'w') as f:
            yaml.safe_dump(main, f)
        for j, dw in enumerate(dws):
            with open(os.path.join(pkg, 'conf', dw_file(j)), 'w') as f:
                yaml.safe_dump(dw, f)
        try:
            ep = experiment.model.storage.ExperimentPackage.packageFromLocation(pkg)
            exp = experiment.model.data.Experiment.experimentFromPackage(ep, location=tmp, platform=case.get('platform'))
            exp.validateExperiment(checkExecutables=False)
        except Exception as e:
            return {'error': 'load:' + type(e).__name__, 'msg': str(e)[:300]}
        g = exp.experimentGraph
        dw_names = ['stage%d.%s' % (l['S'], l['dwname']) for l in loops]
        dw_name = dw_names[0]
        steps = []
        conds = []      # Controller.comp_condition_to_dowhile after initialise and after every instantiation
        opts = case.get('ctl')
        ctl = keep = None
        if opts:
            try:
                ctl, keep = _new_controller(exp, opts['start'])
            except Exception as e:
                return {'error': 'controller:' + type(e).__name__, 'msg': str(e)[:300]}
            conds.append(dict(ctl.comp_condition_to_dowhile))
        seq = sequence_of(case)
        try:
            for it, j in enumerate(seq):
                node = g._documents[FlowIR.LabelDoWhile][dw_names[j]]
                nxt = node['state']['currentIteration'] + 1
                if ctl is not None:
                    before = set(g.graph.nodes)
                    ctl._instantiate_next_dowhile_iteration(node)
                    new = set(g.graph.nodes) - before
                    conds.append(dict(ctl.comp_condition_to_dowhile))
                    if opts['inspect'] == 'each' and it + 1 < len(seq):
                        _inspect(ctl, exp, keep, opts['start'], it)
                else:
                    new = g.instantiate_dowhile_next_iteration(node['document'], nxt, False)
                steps.append([nxt, sorted(new)])
        except Exception as e:
            return {'error': 'iterate:' + type(e).__name__, 'msg': str(e)[:300], 'steps': steps}
        obs['steps'] = steps
        obs['step_docs'] = seq
        obs['conds'] = conds
        gr = g.graph
        obs['nodes'] = sorted(gr.nodes)
        insts = {}
        preds = {}
        root = g.rootStorage.location if hasattr(g.rootStorage, 'location') else exp.instanceDirectory.location
        for n in obs['nodes']:
            cid = G.ComponentIdentifier(n)
            conf = g._concrete.get_component((cid.stageIndex, cid.componentName))
            preds[n] = sorted(gr.predecessors(n))
            if '#' in cid.componentName:
                insts[n] = {'refs': list(conf.get('references', [])),
                            'loopIteration': conf.get('variables', {}).get('loopIteration'),
                            'stage': conf.get('stage')}
            # make the outputs of every component exist, with contents naming the producer
            spec = gr.nodes[n]['componentSpecification']
            wd = g.rootStorage.workingDirectoryForComponent(cid.stageIndex, cid.componentName)
            os.makedirs(wd, exist_ok=True)
            with open(spec.path_to_stdout(), 'w') as f:
                f.write('O(%s)\n' % n)
            for fn in ('f', 'g.txt'):
                with open(os.path.join(wd, fn), 'w') as f:
                    f.write('F(%s/%s)\n' % (n, fn))
        obs['insts'] = insts
        obs['preds'] = preds

        def metadata():
            ph = dict((p, {'latest': v['latest'], 'represents': sorted(v['represents']),
                           'DoWhileId': v['DoWhileId'], 'stage': v['stage']})
                      for p, v in g._placeholders.items())
            # resolution of the references of the outside consumers
            res = {}
            for o in (case.get('xouts') or case['outs']):
                for r in o['refs']:
                    s = ref_str(*r)
                    try:
                        v = G.DataReference(s, o['stage']).resolve(g)
                        v = v.replace(root.rstrip('/') + '/', '')
                    except Exception as e:
                        v = 'EXC:' + type(e).__name__
                    res['%s|%s' % (o['name'], s)] = v
            return ph, res

        obs['ctl'] = {}
        obs['ctags'] = None
        if ctl is not None and opts['inspect'] in ('end', 'each'):
            # the metadata of the graph before and after the Controller looked at it
            before = metadata()
            try:
                obs['ctl'] = _inspect(ctl, exp, keep, opts['start'], len(seq))
                obs['ctl'] = _inspect(ctl, exp, keep, opts['start'], len(seq) + 1)   # a second look sees the same
                obs['ctags'] = obs['ctl'].pop('__ctags__')
            except Exception as e:
                return {'error': 'inspect:' + type(e).__name__, 'msg': str(e)[:300], 'steps': steps}
            obs['inspection_changed'] = sorted(
                ['placeholders'] * (before[0] != metadata()[0]) + ['resolve'] * (before[1] != metadata()[1]))
        obs['placeholders'], obs['resolve'] = metadata()
        obs['documents'] = list(g._documents[FlowIR.LabelDoWhile])
        obs['states'] = {}
        for n, meta in g._documents[FlowIR.LabelDoWhile].items():
            st = meta['state']
            obs['states'][n] = {'currentCondition': st['currentCondition'], 'currentIteration': st['currentIteration']}
        obs['state'] = obs['states'].get(dw_name)
        if ctl is not None:
            after = dict((n, sorted(gr.predecessors(n))) for n in obs['nodes'])
            if after != preds or sorted(gr.nodes) != obs['nodes']:
                obs['inspection_changed'] = sorted(obs.get('inspection_changed', []) + ['graph'])
            obs['preds'] = after
        ids = g._concrete.get_component_identifiers(True)
        mp = {}
        for j, loop in enumerate(loops):
            # (replication inside the loop: the placeholders are the replicas, case['xcomps'])
            ids_of = [(c['stage'], c['name']) for c in loop['comps']]
            if j == 0 and case.get('xcomps'):
                ids_of = [tuple(x) for x in case['xcomps']]
            for cst, cname in ids_of:
                pid = (loop['S'] + cst, cname)
                m = F.map_placeholder_id_to_iteration(pid, [], ids)
                mp['stage%d.%s' % pid] = None if m is None else 'stage%d.%s' % m
        obs['map_latest'] = mp
        return obs
    finally:
        try:
            os.chdir(cwd)
        except Exception:
            pass
        shutil.rmtree(tmp, ignore_errors=True)


def drive_many(cases):
    return [drive(c) for c in cases]
