"""C05 driver: builds a real Experiment from a generated DoWhile package in a scratch directory, calls the real
WorkflowGraph.instantiate_dowhile_next_iteration k times (the way Controller._instantiate_next_dowhile_iteration
does: next = state['currentIteration'] + 1) and reads back everything the property talks about.

A case (JSON-able):
  S      import stage of the DoWhile document
  dwname name of the importing component
  srcs   [[name, stage], ...]                       outside producers
  comps  [{name, stage, refs}]                      looped components (stage relative to the document)
         ref = ['B', binding, file] | ['C', stage|None, name, file, method]
  ibind  [[binding, type], ...]                     inputBindings
  binds  [[binding, [stage, producer, file]], ...]  bindings given by the importing component (method = type)
  loopb  [[binding, [stage|None, name, file]], ...] loopBindings
  cond   [stage|None, name, file]
  outs   [{name, stage, refs: [[stage, name, file, method], ...]}]   outside consumers
  k      number of further iterations
"""
import logging
import os
import shutil
import tempfile

import yaml


def ref_str(stage, name, file, method):
    s = ('stage%d.' % stage if stage is not None else '') + name
    if file:
        s += '/' + file
    return s + ':' + method


def _args(refs):
    # :copy/:link references may not appear on the command line
    return ' '.join(r for r in refs if r.rsplit(':', 1)[1] not in ('copy', 'link')) or 'hello'


def documents(case):
    types = dict((b, t) for b, t in case['ibind'])
    dw = {'type': 'DoWhile',
          'inputBindings': dict((b, {'type': t}) for b, t in case['ibind']),
          'condition': ref_str(case['cond'][0], case['cond'][1], case['cond'][2], 'output'),
          'components': []}
    if case['loopb']:
        dw['loopBindings'] = dict((b, ref_str(v[0], v[1], v[2], types[b])) for b, v in case['loopb'])
    for c in case['comps']:
        refs = []
        for r in c['refs']:
            if r[0] == 'B':
                refs.append(ref_str(None, r[1], r[2], types[r[1]]))
            else:
                refs.append(ref_str(r[1], r[2], r[3], r[4]))
        d = {'name': c['name'], 'command': {'executable': 'echo', 'arguments': _args(refs)},
             'references': refs}
        if c['stage'] or c.get('explicit_stage'):
            d['stage'] = c['stage']
        dw['components'].append(d)
    comps = []
    for name, st in case['srcs']:
        comps.append({'stage': st, 'name': name, 'command': {'executable': 'echo', 'arguments': 'src'}})
    imp = {'stage': case['S'], '$import': 'dowhile.yaml', 'name': case['dwname']}
    if case['binds']:
        imp['bindings'] = dict((b, ref_str(v[0], v[1], v[2], types[b])) for b, v in case['binds'])
    comps.append(imp)
    for o in case['outs']:
        refs = [ref_str(*r) for r in o['refs']]
        comps.append({'stage': o['stage'], 'name': o['name'], 'references': refs,
                      'command': {'executable': 'echo', 'arguments': _args(refs)}})
    return {'components': comps}, dw


def drive(case):
    """-> observation dict (or {'error': class name})"""
    logging.disable(logging.CRITICAL)
    import experiment.model.storage
    import experiment.model.data
    import experiment.model.graph as G
    import experiment.model.frontends.flowir as F
    FlowIR = F.FlowIR
    main, dw = documents(case)
    tmp = tempfile.mkdtemp(prefix='verif_c05_')
    cwd = os.getcwd()
    obs = {}
    try:
        pkg = os.path.join(tmp, 'p.package')
        os.makedirs(os.path.join(pkg, 'conf'))
        with open(os.path.join(pkg, 'conf', 'flowir_package.yaml'), 'w') as f:
            yaml.safe_dump(main, f)
        with open(os.path.join(pkg, 'conf', 'dowhile.yaml'), 'w') as f:
            yaml.safe_dump(dw, f)
        try:
            ep = experiment.model.storage.ExperimentPackage.packageFromLocation(pkg)
            exp = experiment.model.data.Experiment.experimentFromPackage(ep, location=tmp)
            exp.validateExperiment(checkExecutables=False)
        except Exception as e:
            return {'error': 'load:' + type(e).__name__, 'msg': str(e)[:300]}
        g = exp.experimentGraph
        dw_name = 'stage%d.%s' % (case['S'], case['dwname'])
        steps = []
        try:
            for _ in range(case['k']):
                node = g._documents[FlowIR.LabelDoWhile][dw_name]
                nxt = node['state']['currentIteration'] + 1
                new = g.instantiate_dowhile_next_iteration(node['document'], nxt, False)
                steps.append([nxt, sorted(new)])
        except Exception as e:
            return {'error': 'iterate:' + type(e).__name__, 'msg': str(e)[:300], 'steps': steps}
        obs['steps'] = steps
        gr = g.graph
        obs['nodes'] = sorted(gr.nodes)
        insts = {}
        preds = {}
        root = g.rootStorage.location if hasattr(g.rootStorage, 'location') else exp.instanceDirectory.location
        for n in obs['nodes']:
            cid = G.ComponentIdentifier(n)
            conf = g._concrete.get_component((cid.stageIndex, cid.componentName))
            preds[n] = sorted(gr.predecessors(n))
            if '#' in cid.componentName:
                insts[n] = {'refs': list(conf.get('references', [])),
                            'loopIteration': conf.get('variables', {}).get('loopIteration'),
                            'stage': conf.get('stage')}
            # make the outputs of every component exist, with contents naming the producer
            spec = gr.nodes[n]['componentSpecification']
            wd = g.rootStorage.workingDirectoryForComponent(cid.stageIndex, cid.componentName)
            os.makedirs(wd, exist_ok=True)
            with open(spec.path_to_stdout(), 'w') as f:
                f.write('O(%s)\n' % n)
            for fn in ('f', 'g.txt'):
                with open(os.path.join(wd, fn), 'w') as f:
                    f.write('F(%s/%s)\n' % (n, fn))
        obs['insts'] = insts
        obs['preds'] = preds
        obs['placeholders'] = dict((p, {'latest': v['latest'], 'represents': sorted(v['represents']),
                                        'DoWhileId': v['DoWhileId'], 'stage': v['stage']})
                                   for p, v in g._placeholders.items())
        st = g._documents[FlowIR.LabelDoWhile][dw_name]['state']
        obs['state'] = {'currentCondition': st['currentCondition'], 'currentIteration': st['currentIteration']}
        # resolution of the references of the outside consumers
        res = {}
        for o in case['outs']:
            for r in o['refs']:
                s = ref_str(*r)
                try:
                    v = G.DataReference(s, o['stage']).resolve(g)
                    v = v.replace(root.rstrip('/') + '/', '')
                except Exception as e:
                    v = 'EXC:' + type(e).__name__
                res['%s|%s' % (o['name'], s)] = v
        obs['resolve'] = res
        ids = g._concrete.get_component_identifiers(True)
        mp = {}
        for c in case['comps']:
            pid = (case['S'] + c['stage'], c['name'])
            m = F.map_placeholder_id_to_iteration(pid, [], ids)
            mp['stage%d.%s' % pid] = None if m is None else 'stage%d.%s' % m
        obs['map_latest'] = mp
        return obs
    finally:
        try:
            os.chdir(cwd)
        except Exception:
            pass
        shutil.rmtree(tmp, ignore_errors=True)


def drive_many(cases):
    return [drive(c) for c in cases]
